"""Tie G (DESIGN §1.3): regenerate lean/LoguruModel/Generated/*.lean from /repo's *current* source.

Only tables and expression kernels are translated; everything else is tied by correspondence.
The translator accepts a small Python subset and fails closed: a construct outside the subset
makes that generated file contain an `#exit`-free stub WITHOUT the definitions, so that the build
of the dependent theorem fails and the check reports the broken tie.

Usage: extract.py [/repo]      (writes only files whose content changed, to keep lake no-op fast)
"""
import ast
import os
import sys

REPO = os.environ.get("VERIF_REPO", "/repo")
OUT = os.path.join(os.path.dirname(os.path.dirname(os.path.abspath(__file__))), "lean", "LoguruModel", "Generated")


def set_repo(path):
    global REPO
    REPO = path


class Unsupported(Exception):
    pass


def lean_chars(s):
    """a Lean `List Char` term for the text s"""
    return "([] : List Char)" if s == "" else "(" + lean_str(s) + ".toList)"


def lean_str(s):
    out = ['"']
    for c in s:
        if c == '"':
            out.append('\\"')
        elif c == "\\":
            out.append("\\\\")
        elif c == "\n":
            out.append("\\n")
        elif c == "\r":
            out.append("\\r")
        elif c == "\t":
            out.append("\\t")
        elif ord(c) < 32 or ord(c) == 127:
            out.append("\\x%02x" % ord(c))
        else:
            out.append(c)
    out.append('"')
    return "".join(out)


def parse_module(name):
    path = os.path.join(REPO, "loguru", name)  # REPO is read at call time
    with open(path, encoding="utf8") as f:
        src = f.read()
    return ast.parse(src), src


def find_func(tree, name, cls=None):
    for node in ast.walk(tree):
        if cls and isinstance(node, ast.ClassDef) and node.name == cls:
            for sub in ast.walk(node):
                if isinstance(sub, (ast.FunctionDef, ast.AsyncFunctionDef)) and sub.name == name:
                    return sub
        if not cls and isinstance(node, (ast.FunctionDef, ast.AsyncFunctionDef)) and node.name == name:
            return node
    raise Unsupported("function %s not found" % name)


def find_class(tree, name):
    for node in ast.walk(tree):
        if isinstance(node, ast.ClassDef) and node.name == name:
            return node
    raise Unsupported("class %s not found" % name)


def module_assign(tree, name):
    for node in tree.body:
        if isinstance(node, ast.Assign) and len(node.targets) == 1:
            t = node.targets[0]
            if isinstance(t, ast.Name) and t.id == name:
                return node.value
    raise Unsupported("module-level %s not found" % name)


# ----------------------------------------------------------------------------- expression kernels
class Tr:
    """Translate a Python expression into a Lean term.  `env` maps Python names / attribute paths
    to (lean_term, type) with type in {"int", "str", "bool"}; `calls` maps callee source text to a
    function (args -> (term, type))."""

    def __init__(self, env, calls=None, subs=None):
        self.env, self.calls, self.subs = env, calls or {}, subs or {}

    def path(self, node):
        if isinstance(node, ast.Name):
            return node.id
        if isinstance(node, ast.Attribute):
            return self.path(node.value) + "." + node.attr
        raise Unsupported(ast.dump(node))

    def tr(self, node):
        if isinstance(node, ast.Constant):
            v = node.value
            if isinstance(v, bool):
                return ("true" if v else "false", "bool")
            if isinstance(v, int):
                return ("(%d : Int)" % v, "int")
            if isinstance(v, str):
                return (lean_chars(v), "str")
            raise Unsupported("constant %r" % (v,))
        if isinstance(node, (ast.Name, ast.Attribute)):
            p = self.path(node)
            if p in self.env:
                return self.env[p]
            raise Unsupported("name " + p)
        if isinstance(node, ast.UnaryOp) and isinstance(node.op, ast.USub):
            a, ta = self.tr(node.operand)
            self.need(ta, "int")
            return ("(-%s)" % a, "int")
        if isinstance(node, ast.UnaryOp) and isinstance(node.op, ast.Not):
            a, ta = self.tr(node.operand)
            self.need(ta, "bool")
            return ("(!%s)" % a, "bool")
        if isinstance(node, ast.BinOp):
            a, ta = self.tr(node.left)
            b, tb = self.tr(node.right)
            op = type(node.op)
            if ta == "str" and tb == "str" and op is ast.Add:
                return ("(%s ++ %s)" % (a, b), "str")
            self.need(ta, "int")
            self.need(tb, "int")
            if op is ast.Add:
                return ("(%s + %s)" % (a, b), "int")
            if op is ast.Sub:
                return ("(%s - %s)" % (a, b), "int")
            if op is ast.Mult:
                return ("(%s * %s)" % (a, b), "int")
            if op in (ast.FloorDiv, ast.Mod):
                # positive literal divisor: Lean's Int `/`,`%` (Euclidean) coincide with Python's floor
                # semantics and `omega` understands them; otherwise Int.fdiv / Int.fmod.
                lit = isinstance(node.right, ast.Constant) and isinstance(node.right.value, int) \
                    and not isinstance(node.right.value, bool) and node.right.value > 0
                if lit:
                    return ("(%s %s %s)" % (a, "/" if op is ast.FloorDiv else "%", b), "int")
                return ("(Int.%s %s %s)" % ("fdiv" if op is ast.FloorDiv else "fmod", a, b), "int")
            raise Unsupported("binop " + op.__name__)
        if isinstance(node, ast.Compare) and len(node.ops) == 1:
            a, ta = self.tr(node.left)
            b, tb = self.tr(node.comparators[0])
            if ta != tb:
                raise Unsupported("compare of %s and %s" % (ta, tb))
            op = type(node.ops[0])
            sym = {ast.Lt: "<", ast.LtE: "≤", ast.Gt: ">", ast.GtE: "≥", ast.Eq: "==", ast.NotEq: "!="}.get(op)
            if sym is None:
                raise Unsupported("cmp " + op.__name__)
            if sym in ("==", "!="):
                return ("(%s %s %s)" % (a, sym, b), "bool")
            return ("(decide (%s %s %s))" % (a, sym, b), "bool")
        if isinstance(node, ast.BoolOp):
            parts = [self.tr(v) for v in node.values]
            for _, t in parts:
                self.need(t, "bool")
            sym = " && " if isinstance(node.op, ast.And) else " || "
            return ("(" + sym.join(p for p, _ in parts) + ")", "bool")
        if isinstance(node, ast.IfExp):
            c, tc = self.tr(node.test)
            self.need(tc, "bool")
            a, ta = self.tr(node.body)
            b, tb = self.tr(node.orelse)
            if ta != tb:
                raise Unsupported("ifexp branches")
            return ("(if %s then %s else %s)" % (c, a, b), ta)
        if isinstance(node, ast.Subscript):
            base = ast.unparse(node.value)
            if base in self.subs:
                i, ti = self.tr(node.slice)
                self.need(ti, "int")
                f, t = self.subs[base]
                return ("(%s %s)" % (f, i), t)
            raise Unsupported("subscript of " + base)
        if isinstance(node, ast.Call):
            callee = ast.unparse(node.func)
            if callee in self.calls:
                return self.calls[callee](self, node)
            raise Unsupported("call " + callee)
        raise Unsupported(ast.dump(node)[:80])

    @staticmethod
    def need(t, want):
        if t != want:
            raise Unsupported("expected %s, got %s" % (want, t))


HEADER = "-- GENERATED by tools/extract.py from %s — do not edit; rewritten on every check run.\n"


def emit(name, body, src_files, errors):
    text = HEADER % ", ".join(src_files)
    if errors:
        text += "-- EXTRACTION FAILED (fail closed): definitions are absent so dependants do not build.\n"
        for e in errors:
            text += "-- " + e.replace("\n", " ") + "\n"
    else:
        text += body
    path = os.path.join(OUT, name + ".lean")
    os.makedirs(OUT, exist_ok=True)
    try:
        old = open(path, encoding="utf8").read()
    except OSError:
        old = None
    if old != text:
        with open(path, "w", encoding="utf8") as f:
            f.write(text)
    return not errors


