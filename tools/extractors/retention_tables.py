"""Generated/Retention.lean from loguru/_file_sink.py (C10): the pattern-list construction of
`FileSink._make_glob_patterns`, the sort key / slice of `Retention.retention_count`, the comparison
of `Retention.retention_age`, the guard and position of the retention block in `_terminate_file`,
and shape checks of the code the hand model mirrors (fail closed)."""
import ast

from extract_lib import Tr, Unsupported, emit, find_func, lean_chars, parse_module


def _norm(node):
    return ast.unparse(node).replace('"', "'")


def _str_list(node, env, what):
    """a Python list display of str expressions -> Lean list term"""
    if not isinstance(node, ast.List):
        raise Unsupported("%s: return value is not a list display: %s" % (what, _norm(node)))
    terms = []
    for e in node.elts:
        term, typ = Tr(env).tr(e)
        if typ != "str":
            raise Unsupported("%s: element %s is not a str expression" % (what, _norm(e)))
        terms.append(term)
    return "[" + ", ".join(terms) + "]"


def _glob_patterns(tree):
    fn = find_func(tree, "_make_glob_patterns", cls="FileSink")
    if [a.arg for a in fn.args.args] != ["path"]:
        raise Unsupported("_make_glob_patterns signature")
    body = fn.body
    want = [
        "formatter = string.Formatter()",
        "tokens = formatter.parse(path)",
        "escaped = ''.join((glob.escape(text) + '*' * (name is not None) for text, name, *_ in tokens))",
        "root, ext = os.path.splitext(escaped)",
    ]
    got = [_norm(s) for s in body[:4]]
    if got != want:
        raise Unsupported("_make_glob_patterns prologue changed: %r" % (got,))
    # the wildcard that stands for a field
    gen = body[2].value.args[0]
    star = gen.elt.right.left
    if not (isinstance(star, ast.Constant) and isinstance(star.value, str)):
        raise Unsupported("field wildcard is not a literal")
    if len(body) != 6 or not isinstance(body[4], ast.If) or _norm(body[4].test) != "not ext" \
            or body[4].orelse or len(body[4].body) != 1 or not isinstance(body[4].body[0], ast.Return) \
            or not isinstance(body[5], ast.Return):
        raise Unsupported("_make_glob_patterns: expected `if not ext: return [...]` then `return [...]`")
    env = {"escaped": ("escaped", "str"), "root": ("root", "str"), "ext": ("ext", "str")}
    out = "/-- the wildcard a replacement field is turned into -/\n"
    out += "def fieldGlob : Py.Str := %s\n" % lean_chars(star.value)
    out += "/-- `if not ext: return %s` -/\n" % _norm(body[4].body[0].value)
    out += "def patternsNoExt (escaped : Py.Str) : List Py.Str := %s\n" % _str_list(body[4].body[0].value, env, "no-ext")
    out += "/-- `return %s` -/\n" % _norm(body[5].value)
    out += "def patternsExt (escaped root ext : Py.Str) : List Py.Str := %s\n\n" % _str_list(body[5].value, env, "ext")
    return out


def _retention_count(tree):
    fn = find_func(tree, "retention_count", cls="Retention")
    if [a.arg for a in fn.args.args] != ["logs", "number"]:
        raise Unsupported("retention_count signature")
    if len(fn.body) != 2 or not isinstance(fn.body[0], ast.FunctionDef) or not isinstance(fn.body[1], ast.For):
        raise Unsupported("retention_count shape")
    key = fn.body[0]
    if [a.arg for a in key.args.args] != ["log"] or len(key.body) != 1 or not isinstance(key.body[0], ast.Return):
        raise Unsupported("key_log shape")
    tup = key.body[0].value
    if not (isinstance(tup, ast.Tuple) and len(tup.elts) == 2):
        raise Unsupported("key_log does not return a pair: " + _norm(tup))

    def call_stat(tr, node):
        raise Unsupported("call")

    class KTr(Tr):
        def tr(self, node):
            if _norm(node) == "os.stat(log).st_mtime":
                return ("mtime", "int")
            return super().tr(node)

    env = {"log": ("log", "str")}
    a, ta = KTr(env).tr(tup.elts[0])
    b, tb = KTr(env).tr(tup.elts[1])
    if (ta, tb) != ("int", "str"):
        raise Unsupported("key_log component types %s,%s" % (ta, tb))
    loop = fn.body[1]
    it = loop.iter
    if not (isinstance(it, ast.Subscript) and isinstance(it.slice, ast.Slice) and it.slice.upper is None
            and it.slice.step is None and it.slice.lower is not None):
        raise Unsupported("retention_count: loop does not iterate over `sorted(...)[<start>:]`: " + _norm(it))
    if _norm(it.value) != "sorted(logs, key=key_log)":
        raise Unsupported("retention_count: sorted call changed: " + _norm(it.value))
    if _norm(loop.target) != "log" or [_norm(s) for s in loop.body] != ["os.remove(log)"] or loop.orelse:
        raise Unsupported("retention_count: loop body changed")
    start, ts = Tr({"number": ("number", "int")}).tr(it.slice.lower)
    if ts != "int":
        raise Unsupported("slice start type")
    out = "/-- `key_log`: %s (st_mtime as an exact integer) -/\n" % _norm(tup)
    out += "def keyLog (mtime : Int) (log : Py.Str) : Int × Py.Str := (%s, %s)\n" % (a, b)
    out += "/-- start of the slice `%s` -/\n" % _norm(it)
    out += "def countSliceStart (number : Int) : Int := %s\n\n" % start
    return out


def _retention_age(tree):
    fn = find_func(tree, "retention_age", cls="Retention")
    if [a.arg for a in fn.args.args] != ["logs", "seconds"]:
        raise Unsupported("retention_age signature")
    if len(fn.body) != 2 or _norm(fn.body[0]) != "t = datetime.datetime.now().timestamp()":
        raise Unsupported("retention_age: `t = now` changed")
    loop = fn.body[1]
    if not (isinstance(loop, ast.For) and _norm(loop.target) == "log" and _norm(loop.iter) == "logs"
            and len(loop.body) == 1 and isinstance(loop.body[0], ast.If) and not loop.body[0].orelse
            and [_norm(s) for s in loop.body[0].body] == ["os.remove(log)"]):
        raise Unsupported("retention_age: loop shape changed")

    class ATr(Tr):
        def tr(self, node):
            if _norm(node) == "os.stat(log).st_mtime":
                return ("mtime", "int")
            return super().tr(node)

    term, typ = ATr({"t": ("t", "int"), "seconds": ("seconds", "int")}).tr(loop.body[0].test)
    if typ != "bool":
        raise Unsupported("retention_age test is not a comparison")
    out = "/-- `%s` -/\n" % _norm(loop.body[0].test)
    out += "def ageDeletes (mtime t seconds : Int) : Bool := %s\n\n" % term
    return out


def _terminate(tree):
    fn = find_func(tree, "_terminate_file", cls="FileSink")
    stmts = fn.body
    # locate the guard that contains the retention block, and the final create
    idx_guard = idx_create = None
    for i, s in enumerate(stmts):
        if isinstance(s, ast.If) and any("self._retention_function(" in _norm(x) for x in ast.walk(s)
                                         if isinstance(x, ast.Expr)):
            idx_guard = i
        if isinstance(s, ast.If) and _norm(s.test) == "is_rotating" and any(
                _norm(x).startswith("self._create_file(") for x in s.body):
            idx_create = i
    if idx_guard is None or idx_create is None:
        raise Unsupported("_terminate_file: retention guard or create block not found")
    guard = stmts[idx_guard]
    env = {"is_rotating": ("is_rotating", "bool")}

    class GTr(Tr):
        def tr(self, node):
            if _norm(node) == "self._rotation_function is None":
                return ("rotation_is_none", "bool")
            return super().tr(node)

    gterm, gtyp = GTr(env).tr(guard.test)
    if gtyp != "bool" or guard.orelse:
        raise Unsupported("retention guard")
    # inside the guard: [compression if] then [retention if]
    inner = guard.body
    rets = [s for s in inner if isinstance(s, ast.If) and _norm(s.test) == "self._retention_function is not None"]
    if len(rets) != 1 or inner[-1] is not rets[0] or rets[0].orelse:
        raise Unsupported("retention block is not the last statement of its guard")
    rb = [_norm(s) for s in rets[0].body]
    want = ["logs = {file for pattern in self._glob_patterns for file in glob.glob(pattern) if os.path.isfile(file)}",
            "self._retention_function(list(logs))"]
    if rb != want:
        raise Unsupported("retention block changed: %r" % (rb,))
    # nothing else in the function may call the retention function or os.remove/glob
    n_calls = sum(1 for x in ast.walk(fn) if isinstance(x, ast.Call) and _norm(x.func) == "self._retention_function")
    if n_calls != 1:
        raise Unsupported("_terminate_file calls the retention function %d times" % n_calls)
    out = "/-- guard of the compression/retention block: `%s` -/\n" % _norm(guard.test)
    out += "def retentionGuard (is_rotating rotation_is_none : Bool) : Bool := %s\n" % gterm
    out += "/-- statement index of the guard and of `if is_rotating: self._create_file(new_path)` -/\n"
    out += "def guardIndex : Nat := %d\ndef createIndex : Nat := %d\n\n" % (idx_guard, idx_create)
    # write() and stop(): how _terminate_file is reached
    w = find_func(tree, "write", cls="FileSink")
    calls_w = [_norm(x) for x in ast.walk(w) if isinstance(x, ast.Call) and _norm(x.func) == "self._terminate_file"]
    s = find_func(tree, "stop", cls="FileSink")
    calls_s = [_norm(x) for x in ast.walk(s) if isinstance(x, ast.Call) and _norm(x.func) == "self._terminate_file"]
    if calls_w != ["self._terminate_file(is_rotating=True)"] or calls_s != ["self._terminate_file(is_rotating=False)"]:
        raise Unsupported("write()/stop() reach _terminate_file differently: %r %r" % (calls_w, calls_s))
    init = find_func(tree, "__init__", cls="FileSink")
    if "self._glob_patterns = self._make_glob_patterns(self._path)" not in [_norm(x) for x in init.body]:
        raise Unsupported("__init__ no longer derives _glob_patterns from self._path")
    return out


US = 1000000


def _seconds_expr(node):
    """translate the `seconds=` argument of the timedelta branch into a Lean Int term measured in
    MICROSECONDS, as a function of `us` = the timedelta's exact length in microseconds.  Accepted:
    `retention.total_seconds()`, `float(E)`, `int(E)` (truncation to whole seconds), `math.floor(E)`,
    `math.ceil(E)`, `round(E)` is refused (half-even on floats), `E // k`/`E * k`/`E + k`/`E - k`
    for int literals k, `abs(E)`, `-E`.  Anything else fails closed."""
    src = _norm(node)
    if src == "retention.total_seconds()":
        return "us"
    if isinstance(node, ast.Call) and not node.keywords and len(node.args) == 1:
        f = _norm(node.func)
        e = _seconds_expr(node.args[0])
        if f == "float":
            return e
        if f == "int":
            return "(Int.tdiv %s %d * %d)" % (e, US, US)
        if f == "math.floor":
            return "(Int.fdiv %s %d * %d)" % (e, US, US)
        if f == "math.ceil":
            return "(-(Int.fdiv (-%s) %d) * %d)" % (e, US, US)
        if f == "abs":
            return "(Int.natAbs %s : Int)" % e
    if isinstance(node, ast.UnaryOp) and isinstance(node.op, ast.USub):
        return "(-%s)" % _seconds_expr(node.operand)
    if isinstance(node, ast.BinOp) and isinstance(node.right, ast.Constant) and isinstance(node.right.value, int) \
            and not isinstance(node.right.value, bool):
        e, k = _seconds_expr(node.left), node.right.value
        if isinstance(node.op, ast.Add):
            return "(%s + %d)" % (e, k * US)
        if isinstance(node.op, ast.Sub):
            return "(%s - %d)" % (e, k * US)
        if isinstance(node.op, ast.Mult):
            return "(%s * %d)" % (e, k)
        if isinstance(node.op, ast.FloorDiv) and k > 0:
            return "(Int.fdiv %s %d * %d)" % (e, k * US, US)
    raise Unsupported("seconds= expression of the timedelta branch: " + src)


def _dispatch(tree):
    """`_make_retention_function`: None / str (parse_duration, ValueError when None, recursion on the
    interval) / int -> count(number=<expr>) / timedelta -> age(seconds=<expr>) / callable / TypeError,
    in this order; the two keyword expressions become kernels."""
    fn = find_func(tree, "_make_retention_function", cls="FileSink")
    if [a.arg for a in fn.args.args] != ["retention"]:
        raise Unsupported("_make_retention_function signature")
    body = fn.body
    if len(body) != 6 or not all(isinstance(s, ast.If) and not s.orelse for s in body[:5]) \
            or not isinstance(body[5], ast.Raise):
        raise Unsupported("_make_retention_function: expected five `if` statements and a final raise")
    tests = [_norm(s.test) for s in body[:5]]
    want_tests = ["retention is None", "isinstance(retention, str)", "isinstance(retention, int)",
                  "isinstance(retention, datetime.timedelta)", "callable(retention)"]
    if tests != want_tests:
        raise Unsupported("_make_retention_function dispatch tests/order changed: %r" % (tests,))
    if [_norm(s) for s in body[0].body] != ["return None"]:
        raise Unsupported("None branch")
    sb = [_norm(s) for s in body[1].body]
    if len(sb) != 3 or sb[0] != "interval = string_parsers.parse_duration(retention)" \
            or not sb[1].startswith("if interval is None:\n    raise ValueError(") \
            or sb[2] != "return FileSink._make_retention_function(interval)":
        raise Unsupported("str branch changed: %r" % (sb,))
    if _norm(body[5].exc.func) != "TypeError":
        raise Unsupported("final raise is not a TypeError")
    if [_norm(s) for s in body[4].body] != ["return retention"]:
        raise Unsupported("callable branch")

    def partial_kw(stmt, func, kw):
        if len(stmt.body) != 1 or not isinstance(stmt.body[0], ast.Return):
            raise Unsupported("branch is not a single return: " + _norm(stmt))
        call = stmt.body[0].value
        if not (isinstance(call, ast.Call) and _norm(call.func) == "partial" and len(call.args) == 1
                and _norm(call.args[0]) == func and len(call.keywords) == 1 and call.keywords[0].arg == kw):
            raise Unsupported("expected partial(%s, %s=...): %s" % (func, kw, _norm(call)))
        return call.keywords[0].value

    num = partial_kw(body[2], "Retention.retention_count", "number")
    nterm, ntyp = Tr({"retention": ("retention", "int")}).tr(num)
    if ntyp != "int":
        raise Unsupported("number= is not an int expression")
    sec = partial_kw(body[3], "Retention.retention_age", "seconds")
    sterm = _seconds_expr(sec)
    out = "/-- int branch: `number=%s` -/\n" % _norm(num)
    out += "def countNumber (retention : Int) : Int := %s\n" % nterm
    out += "/-- timedelta branch: `seconds=%s`, in MICROSECONDS as a function of the timedelta's exact length\n" % _norm(sec)
    out += "in microseconds (total_seconds() is exact at this scale) -/\n"
    out += "def ageSecondsUs (us : Int) : Int := %s\n\n" % sterm
    return out


def generate():
    errors = []
    body = "import LoguruModel.Py.Basic\nset_option linter.unusedVariables false\nnamespace Retention.Gen\n\n"
    try:
        tree, _ = parse_module("_file_sink.py")
        body += _glob_patterns(tree)
        body += _retention_count(tree)
        body += _retention_age(tree)
        body += _terminate(tree)
        body += _dispatch(tree)
    except (Unsupported, SyntaxError, KeyError, AttributeError, IndexError, TypeError) as e:
        errors.append("%s: %s" % (type(e).__name__, e))
    body += "end Retention.Gen\n"
    return emit("Retention", body, ["loguru/_file_sink.py"], errors)
