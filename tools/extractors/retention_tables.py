"""Generated/Retention.lean (C10) from loguru/_file_sink.py and loguru/_string_parsers.py:

* the pattern-list construction of `FileSink._make_glob_patterns` and the wildcard of a field,
* the sort key / slice of `Retention.retention_count`, the comparison of `Retention.retention_age`,
* the guard and position of the retention block in `_terminate_file`,
* the `number=` / `seconds=` kernels and the order of `_make_retention_function`,
* the unit table of `parse_duration` (with its regular expression and accumulation pinned).

What is pinned is the SEMANTIC CONTENT (which call, on which argument, in which order, under which
test), not the source text: the matchers are insensitive to the names of locals / parameters /
inner functions, to single-assignment local aliases (inlined), to `import m` + `m.f` versus
`from m import f`, to `"*" * (c)` versus `("*" if c else "")`, to `if not c: return A; return B`
versus `if c: return B; return A` versus a conditional expression, to `if/elif` versus `if; if` when
every branch returns, and to where unrelated helper code lives.  Anything the matchers do not
understand fails closed (definitions absent, the build of Props/C10 breaks)."""
import ast
import copy
from fractions import Fraction

from extract_lib import Tr, Unsupported, emit, find_class, find_func, lean_chars, parse_module


def _norm(node):
    return ast.unparse(node).replace('"', "'")


# ----------------------------------------------------------------------------- generic helpers
class Mod:
    """a module with its import aliases resolved to qualified names"""

    def __init__(self, tree, package="loguru"):
        self.tree = tree
        self.alias = {}
        for node in tree.body:
            if isinstance(node, ast.Import):
                for a in node.names:
                    self.alias[a.asname or a.name.split(".")[0]] = a.name if a.asname else a.name.split(".")[0]
            elif isinstance(node, ast.ImportFrom):
                base = (package + "." if node.level else "") + (node.module or "")
                base = base.rstrip(".")
                for a in node.names:
                    self.alias[a.asname or a.name] = (base + "." + a.name) if base else a.name

    def qual(self, node):
        """qualified dotted name of a Name/Attribute chain, imports resolved; None otherwise"""
        if isinstance(node, ast.Name):
            return self.alias.get(node.id, node.id)
        if isinstance(node, ast.Attribute):
            q = self.qual(node.value)
            return None if q is None else q + "." + node.attr
        return None

    def is_call(self, node, qualname, nargs=None, nkw=0):
        return (isinstance(node, ast.Call) and self.qual(node.func) == qualname
                and (nargs is None or len(node.args) == nargs) and len(node.keywords) == nkw)


class _Rename(ast.NodeTransformer):
    def __init__(self, mapping):
        self.mapping = mapping

    def visit_Name(self, node):
        if node.id in self.mapping:
            return ast.copy_location(ast.Name(id=self.mapping[node.id], ctx=node.ctx), node)
        return node

    def visit_arg(self, node):
        if node.arg in self.mapping:
            node.arg = self.mapping[node.arg]
        return node


def rename(node, mapping):
    return _Rename(mapping).visit(copy.deepcopy(node))


class _Inline(ast.NodeTransformer):
    def __init__(self, defs):
        self.defs = defs

    def visit_Name(self, node):
        if isinstance(node.ctx, ast.Load) and node.id in self.defs:
            return self.visit(copy.deepcopy(self.defs[node.id]))
        return node


def single_defs(fn):
    """{name: value} for locals of `fn` assigned exactly once by a plain `name = expr` at the top
    level of the function body (candidates for alias inlining)"""
    count, defs = {}, {}
    for node in ast.walk(fn):
        if isinstance(node, ast.Name) and isinstance(node.ctx, ast.Store):
            count[node.id] = count.get(node.id, 0) + 1
        elif isinstance(node, ast.arg):
            count[node.arg] = count.get(node.arg, 0) + 1
    for st in fn.body:
        if isinstance(st, ast.Assign) and len(st.targets) == 1 and isinstance(st.targets[0], ast.Name) \
                and count.get(st.targets[0].id) == 1:
            defs[st.targets[0].id] = st.value
    return defs


def inline(node, defs):
    return _Inline(defs).visit(copy.deepcopy(node))


def same(a, b):
    return ast.dump(a) == ast.dump(b)


def arg_names(fn, n):
    a = fn.args
    if a.vararg or a.kwarg or a.kwonlyargs or a.posonlyargs or len(a.args) != n:
        raise Unsupported("%s: expected %d positional parameters" % (fn.name, n))
    return [x.arg for x in a.args]


def terminates(stmts):
    return bool(stmts) and isinstance(stmts[-1], (ast.Return, ast.Raise))


def flatten_ifs(body):
    """`if a: return x / elif b: return y / else: z`  ==  `if a: return x; if b: return y; z`
    (sound because every taken branch leaves the function)"""
    out = []
    for st in body:
        while isinstance(st, ast.If) and st.orelse and terminates(st.body):
            out.append(ast.If(test=st.test, body=st.body, orelse=[]))
            rest = st.orelse
            if len(rest) == 1 and isinstance(rest[0], ast.If):
                st = rest[0]
            else:
                out.extend(flatten_ifs(rest))
                st = None
                break
        if st is not None:
            out.append(st)
    return out


def cond_polarity(test, is_subject):
    """for a test about one subject expression: +1 if it is `subject` (truthy), -1 if `not subject`;
    None if it is something else"""
    if is_subject(test):
        return 1
    if isinstance(test, ast.UnaryOp) and isinstance(test.op, ast.Not):
        p = cond_polarity(test.operand, is_subject)
        return None if p is None else -p
    return None


def none_polarity(test, name):
    """+1 for `name is not None`, -1 for `name is None`"""
    if isinstance(test, ast.Compare) and len(test.ops) == 1 and isinstance(test.left, ast.Name) \
            and test.left.id == name and isinstance(test.comparators[0], ast.Constant) \
            and test.comparators[0].value is None:
        if isinstance(test.ops[0], ast.IsNot):
            return 1
        if isinstance(test.ops[0], ast.Is):
            return -1
    if isinstance(test, ast.UnaryOp) and isinstance(test.op, ast.Not):
        p = none_polarity(test.operand, name)
        return None if p is None else -p
    return None


def two_way_returns(stmts, polarity_of):
    """the statements after a point of a function that returns one of two values depending on one
    test: returns (value_when_true, value_when_false) w.r.t. positive polarity.  Accepted:
    `if T: return A` + `return B`;  `if T: return A else: return B`;  `return A if T else B`."""
    stmts = flatten_ifs(stmts)
    if len(stmts) == 1 and isinstance(stmts[0], ast.Return) and isinstance(stmts[0].value, ast.IfExp):
        e = stmts[0].value
        p = polarity_of(e.test)
        if p is None:
            raise Unsupported("unrecognised test: " + _norm(e.test))
        return (e.body, e.orelse) if p > 0 else (e.orelse, e.body)
    if len(stmts) == 2 and isinstance(stmts[0], ast.If) and not stmts[0].orelse and len(stmts[0].body) == 1 \
            and isinstance(stmts[0].body[0], ast.Return) and isinstance(stmts[1], ast.Return):
        p = polarity_of(stmts[0].test)
        if p is None:
            raise Unsupported("unrecognised test: " + _norm(stmts[0].test))
        a, b = stmts[0].body[0].value, stmts[1].value
        return (a, b) if p > 0 else (b, a)
    raise Unsupported("expected a two-way return, got: " + " ; ".join(_norm(s) for s in stmts)[:200])


def _str_list(node, env, what):
    """a Python list display of str expressions -> Lean list term"""
    if not isinstance(node, ast.List):
        raise Unsupported("%s: return value is not a list display: %s" % (what, _norm(node)))
    terms = []
    for e in node.elts:
        term, typ = Tr(env).tr(e)
        if typ != "str":
            raise Unsupported("%s: element %s is not a str expression" % (what, _norm(e)))
        terms.append(term)
    return "[" + ", ".join(terms) + "]"


# ----------------------------------------------------------------------------- _make_glob_patterns
def _glob_patterns(m):
    fn = find_func(m.tree, "_make_glob_patterns", cls="FileSink")
    (path,) = arg_names(fn, 1)
    defs = single_defs(fn)
    # the statement `R, X = os.path.splitext(E)`
    idx = None
    for i, st in enumerate(fn.body):
        if isinstance(st, ast.Assign) and len(st.targets) == 1 and isinstance(st.targets[0], ast.Tuple) \
                and len(st.targets[0].elts) == 2 and all(isinstance(e, ast.Name) for e in st.targets[0].elts) \
                and m.is_call(st.value, "os.path.splitext", 1):
            if idx is not None:
                raise Unsupported("_make_glob_patterns: two splitext statements")
            idx = i
    if idx is None:
        raise Unsupported("_make_glob_patterns: `root, ext = os.path.splitext(<escaped>)` not found")
    for st in fn.body[:idx]:
        if not (isinstance(st, ast.Assign) and len(st.targets) == 1 and isinstance(st.targets[0], ast.Name)
                and st.targets[0].id in defs):
            raise Unsupported("_make_glob_patterns: unexpected statement before splitext: " + _norm(st))
    root_v, ext_v = (e.id for e in fn.body[idx].targets[0].elts)
    if root_v == ext_v:
        raise Unsupported("splitext targets")
    E = inline(fn.body[idx].value.args[0], defs)
    # E = "".join(glob.escape(T) + W(N) for T, N, *_ in string.Formatter().parse(path))
    if not (isinstance(E, ast.Call) and isinstance(E.func, ast.Attribute) and E.func.attr == "join"
            and isinstance(E.func.value, ast.Constant) and E.func.value.value == "" and len(E.args) == 1
            and not E.keywords and isinstance(E.args[0], (ast.GeneratorExp, ast.ListComp))
            and len(E.args[0].generators) == 1):
        raise Unsupported("escaped text is not ''.join(<generator>): " + _norm(E))
    g = E.args[0]
    comp = g.generators[0]
    tgt = comp.target
    if comp.ifs or comp.is_async or not (isinstance(tgt, ast.Tuple) and len(tgt.elts) in (3, 4)
                                         and isinstance(tgt.elts[0], ast.Name) and isinstance(tgt.elts[1], ast.Name)):
        raise Unsupported("generator target is not `text, name, …`: " + _norm(tgt))
    rest = tgt.elts[2:]
    if not ((len(rest) == 1 and isinstance(rest[0], ast.Starred)) or
            (len(rest) == 2 and all(isinstance(e, ast.Name) for e in rest))):
        raise Unsupported("generator target tail: " + _norm(tgt))
    text_v, name_v = tgt.elts[0].id, tgt.elts[1].id
    it = comp.iter
    if not (isinstance(it, ast.Call) and isinstance(it.func, ast.Attribute) and it.func.attr == "parse"
            and m.is_call(it.func.value, "string.Formatter", 0) and len(it.args) == 1 and not it.keywords
            and isinstance(it.args[0], ast.Name) and it.args[0].id == path):
        raise Unsupported("tokens are not string.Formatter().parse(path): " + _norm(it))
    elt = g.elt
    if not (isinstance(elt, ast.BinOp) and isinstance(elt.op, ast.Add) and m.is_call(elt.left, "glob.escape", 1)
            and isinstance(elt.left.args[0], ast.Name) and elt.left.args[0].id == text_v):
        raise Unsupported("element is not glob.escape(text) + <wildcard>: " + _norm(elt))
    w = elt.right
    star = None
    if isinstance(w, ast.BinOp) and isinstance(w.op, ast.Mult):
        for a, b in ((w.left, w.right), (w.right, w.left)):
            if isinstance(a, ast.Constant) and isinstance(a.value, str) and none_polarity(b, name_v) == 1:
                star = a.value
    elif isinstance(w, ast.IfExp) and isinstance(w.body, ast.Constant) and isinstance(w.orelse, ast.Constant):
        p = none_polarity(w.test, name_v)
        yes, no = (w.body.value, w.orelse.value) if p == 1 else (w.orelse.value, w.body.value)
        if p is not None and isinstance(yes, str) and no == "":
            star = yes
    if star is None:
        raise Unsupported("field wildcard is not `'*' * (name is not None)` or an equivalent conditional: " + _norm(w))
    # after splitext: the two lists, selected by the truth of the extension
    with_ext, without_ext = two_way_returns(
        fn.body[idx + 1:], lambda t: cond_polarity(t, lambda e: isinstance(e, ast.Name) and e.id == ext_v))
    env = {root_v: ("root", "str"), ext_v: ("ext", "str")}
    for name, val in defs.items():
        if same(inline(val, defs), E):
            env[name] = ("escaped", "str")
    out = "/-- the wildcard a replacement field is turned into -/\n"
    out += "def fieldGlob : Py.Str := %s\n" % lean_chars(star)
    out += "/-- without extension: `%s` -/\n" % _norm(without_ext)
    out += "def patternsNoExt (escaped : Py.Str) : List Py.Str := %s\n" % _str_list(without_ext, env, "no-ext")
    out += "/-- with extension: `%s` -/\n" % _norm(with_ext)
    out += "def patternsExt (escaped root ext : Py.Str) : List Py.Str := %s\n\n" % _str_list(with_ext, env, "ext")
    return out


# ----------------------------------------------------------------------------- Retention.*
class _StatTr(Tr):
    """`os.stat(<file>).st_mtime` is the modification time"""

    def __init__(self, env, m, file_var):
        super().__init__(env)
        self.m, self.file_var = m, file_var

    def tr(self, node):
        if isinstance(node, ast.Attribute) and node.attr == "st_mtime" and self.m.is_call(node.value, "os.stat", 1) \
                and isinstance(node.value.args[0], ast.Name) and node.value.args[0].id == self.file_var:
            return ("mtime", "int")
        # `os.path.getmtime(f)` IS `os.stat(f).st_mtime` (genericpath)
        if self.m.is_call(node, "os.path.getmtime", 1) and isinstance(node.args[0], ast.Name) \
                and node.args[0].id == self.file_var:
            return ("mtime", "int")
        # the tuple interface `os.stat(f)[ST_MTIME]` is the modification time TRUNCATED to whole seconds, and so are
        # int(...) / math.floor(...) of it.  The kernels measure modification times in MICROSECONDS (every
        # correspondence stream does), so the truncation is translated and the model follows the code.
        if isinstance(node, ast.Subscript) and self.m.is_call(node.value, "os.stat", 1) \
                and isinstance(node.value.args[0], ast.Name) and node.value.args[0].id == self.file_var:
            idx = node.slice
            if self.m.qual(idx) in ("stat.ST_MTIME",) or (isinstance(idx, ast.Constant) and idx.value == 8):
                return ("(mtime / 1000000 * 1000000)", "int")
        if isinstance(node, ast.Call) and len(node.args) == 1 and not node.keywords \
                and self.m.qual(node.func) in ("int", "math.floor"):
            inner, t = self.tr(node.args[0])
            if t == "int" and "mtime" in inner:
                return ("(%s / 1000000 * 1000000)" % inner, "int")
        return super().tr(node)


def _is_remove(m, st, var):
    return (isinstance(st, ast.Expr) and m.is_call(st.value, "os.remove", 1)
            and isinstance(st.value.args[0], ast.Name) and st.value.args[0].id == var)


def _retention_count(m):
    fn = find_func(m.tree, "retention_count", cls="Retention")
    logs, number = arg_names(fn, 2)
    defs = single_defs(fn)
    inner = {s.name: s for s in fn.body if isinstance(s, ast.FunctionDef)}
    loops = [s for s in fn.body if isinstance(s, ast.For)]
    others = [s for s in fn.body if not isinstance(s, (ast.FunctionDef, ast.For))
              and not (isinstance(s, ast.Assign) and len(s.targets) == 1 and isinstance(s.targets[0], ast.Name)
                       and s.targets[0].id in defs)]
    if len(loops) != 1 or others or fn.body[-1] is not loops[0]:
        raise Unsupported("retention_count: expected [key function,] [aliases,] one final for loop")
    loop = loops[0]
    it = inline(loop.iter, defs)
    if not (isinstance(it, ast.Subscript) and isinstance(it.slice, ast.Slice) and it.slice.upper is None
            and it.slice.step is None and it.slice.lower is not None):
        raise Unsupported("retention_count: loop does not iterate over `sorted(...)[<start>:]`: " + _norm(it))
    srt = it.value
    if not (isinstance(srt, ast.Call) and m.qual(srt.func) == "sorted" and len(srt.args) == 1
            and isinstance(srt.args[0], ast.Name) and srt.args[0].id == logs
            and len(srt.keywords) == 1 and srt.keywords[0].arg == "key"):
        raise Unsupported("retention_count: expected sorted(logs, key=<key>) and nothing else: " + _norm(srt))
    k = srt.keywords[0].value
    if isinstance(k, ast.Name) and k.id in inner:
        kf = inner[k.id]
        (kp,) = arg_names(kf, 1)
        if len(kf.body) != 1 or not isinstance(kf.body[0], ast.Return):
            raise Unsupported("key function body")
        kbody = kf.body[0].value
    elif isinstance(k, ast.Lambda) and len(k.args.args) == 1:
        kp, kbody = k.args.args[0].arg, k.body
    else:
        raise Unsupported("sort key is neither an inner function nor a lambda: " + _norm(k))
    if len(inner) > (1 if isinstance(k, ast.Name) else 0):
        raise Unsupported("retention_count: unexpected inner functions")
    if not (isinstance(kbody, ast.Tuple) and len(kbody.elts) == 2):
        raise Unsupported("sort key does not return a pair: " + _norm(kbody))
    a, ta = _StatTr({kp: ("log", "str")}, m, kp).tr(kbody.elts[0])
    b, tb = _StatTr({kp: ("log", "str")}, m, kp).tr(kbody.elts[1])
    if (ta, tb) != ("int", "str"):
        raise Unsupported("sort key component types %s,%s" % (ta, tb))
    if not isinstance(loop.target, ast.Name) or loop.orelse or len(loop.body) != 1 \
            or not _is_remove(m, loop.body[0], loop.target.id):
        raise Unsupported("retention_count: loop body is not `os.remove(<loop variable>)`")
    start, ts = Tr({number: ("number", "int")}).tr(it.slice.lower)
    if ts != "int":
        raise Unsupported("slice start type")
    out = "/-- sort key: %s (st_mtime as an exact integer) -/\n" % _norm(kbody)
    out += "def keyLog (mtime : Int) (log : Py.Str) : Int × Py.Str := (%s, %s)\n" % (a, b)
    out += "/-- start of the slice `%s` -/\n" % _norm(it)
    out += "def countSliceStart (number : Int) : Int := %s\n\n" % start
    return out


def _retention_age(m):
    fn = find_func(m.tree, "retention_age", cls="Retention")
    logs, seconds = arg_names(fn, 2)
    if len(fn.body) != 2:
        raise Unsupported("retention_age: expected `<t> = now` and one loop")
    st0, loop = fn.body
    v = st0.value if isinstance(st0, ast.Assign) else None
    if not (isinstance(st0, ast.Assign) and len(st0.targets) == 1 and isinstance(st0.targets[0], ast.Name)
            and isinstance(v, ast.Call) and not v.args and not v.keywords and isinstance(v.func, ast.Attribute)
            and v.func.attr == "timestamp" and m.is_call(v.func.value, "datetime.datetime.now", 0)):
        raise Unsupported("retention_age: first statement is not `<t> = datetime.datetime.now().timestamp()`")
    t = st0.targets[0].id
    if not (isinstance(loop, ast.For) and isinstance(loop.target, ast.Name) and isinstance(loop.iter, ast.Name)
            and loop.iter.id == logs and not loop.orelse and len(loop.body) == 1 and isinstance(loop.body[0], ast.If)
            and not loop.body[0].orelse and len(loop.body[0].body) == 1
            and _is_remove(m, loop.body[0].body[0], loop.target.id)):
        raise Unsupported("retention_age: loop is not `for f in logs: if <test>: os.remove(f)`")
    fv = loop.target.id
    if len({t, fv, logs, seconds}) != 4:
        raise Unsupported("retention_age: name clash")
    term, typ = _StatTr({t: ("t", "int"), seconds: ("seconds", "int")}, m, fv).tr(loop.body[0].test)
    if typ != "bool":
        raise Unsupported("retention_age test is not a comparison")
    out = "/-- `%s` -/\n" % _norm(loop.body[0].test)
    out += "def ageDeletes (mtime t seconds : Int) : Bool := %s\n\n" % term
    return out


# ----------------------------------------------------------------------------- _terminate_file
def _filter_term(m, node, var):
    """the `if` of the set comprehension as a function of the entry's file type: Boolean combinations
    of os.path.isfile / isdir / exists applied to the comprehension variable.  Anything else (islink,
    lstat, name tests, …) fails closed."""
    if isinstance(node, ast.BoolOp):
        parts = [_filter_term(m, v, var) for v in node.values]
        return "(" + (" && " if isinstance(node.op, ast.And) else " || ").join(parts) + ")"
    if isinstance(node, ast.UnaryOp) and isinstance(node.op, ast.Not):
        return "(!%s)" % _filter_term(m, node.operand, var)
    if isinstance(node, ast.Call) and len(node.args) == 1 and not node.keywords \
            and isinstance(node.args[0], ast.Name) and node.args[0].id == var:
        pred = {"os.path.isfile": "isfile", "os.path.isdir": "isdir", "os.path.exists": "pathExists"}.get(m.qual(node.func))
        if pred is not None:
            return "k.%s" % pred
    raise Unsupported("retention filter: " + _norm(node))


def _block_defs(stmts):
    """leading `name = expr` statements of a block, each name assigned once in the block"""
    defs, count = {}, {}
    for st in stmts:
        for n in ast.walk(st):
            if isinstance(n, ast.Name) and isinstance(n.ctx, ast.Store):
                count[n.id] = count.get(n.id, 0) + 1
    rest = list(stmts)
    while rest and isinstance(rest[0], ast.Assign) and len(rest[0].targets) == 1 \
            and isinstance(rest[0].targets[0], ast.Name) and count.get(rest[0].targets[0].id) == 1:
        defs[rest[0].targets[0].id] = rest[0].value
        rest = rest[1:]
    return defs, rest


def _retention_block_collect(m, stmts):
    """the retention block, modulo local aliases and ONE level of delegation to an argument-less
    helper method of the sink:

        self._retention_function(<list of> {ELT for p in self._glob_patterns for f in glob.glob(p) if <filter(f)>})

    Returns (filter term, is_set, handed) or None when the block has another shape.
    * is_set: the candidates pass through a set (set comprehension, or `set(...)` around a list
      comprehension / generator) before they are handed on; a bare list comprehension hands duplicates on
      (translated, not refused: the model follows and `callable_gets_each_family_file_once` breaks);
    * handed: "matched" when ELT is the globbed name itself, "resolved" for `os.path.realpath(f)`."""
    defs, rest = _block_defs(stmts)
    if len(rest) != 1:
        return None
    c = rest[0]
    if not (isinstance(c, ast.Expr) and isinstance(c.value, ast.Call) and _norm(c.value.func) == "self._retention_function"
            and len(c.value.args) == 1 and not c.value.keywords):
        return None
    arg = inline(c.value.args[0], defs)
    # one level of delegation: `self._helper()`
    if isinstance(arg, ast.Call) and not arg.args and not arg.keywords and isinstance(arg.func, ast.Attribute) \
            and isinstance(arg.func.value, ast.Name) and arg.func.value.id == "self":
        try:
            helper = find_func(m.tree, arg.func.attr, cls="FileSink")
        except Unsupported:
            return None
        a = helper.args
        if a.vararg or a.kwarg or a.kwonlyargs or a.posonlyargs or len(a.args) != 1 or helper.decorator_list:
            return None
        hdefs, hrest = _block_defs(helper.body)
        if len(hrest) != 1 or not isinstance(hrest[0], ast.Return) or hrest[0].value is None:
            return None
        arg = inline(hrest[0].value, hdefs)
    is_set = as_list = False
    while isinstance(arg, ast.Call) and len(arg.args) == 1 and not arg.keywords and m.qual(arg.func) in ("list", "set", "frozenset", "tuple"):
        if m.qual(arg.func) in ("set", "frozenset"):
            is_set = True
        else:
            as_list = True
        arg = arg.args[0]
    if isinstance(arg, ast.SetComp):
        is_set = True
        if not as_list:
            return None           # the policy functions index / sort a list
    elif isinstance(arg, ast.ListComp):
        pass
    elif isinstance(arg, ast.GeneratorExp):
        if not (is_set or as_list):
            return None
    else:
        return None
    if len(arg.generators) != 2:
        return None
    g1, g2 = arg.generators
    if not (isinstance(g1.target, ast.Name) and not g1.ifs and not g1.is_async and not g2.is_async
            and _norm(g1.iter) == "self._glob_patterns"
            and isinstance(g2.target, ast.Name) and m.is_call(g2.iter, "glob.glob", 1)
            and isinstance(g2.iter.args[0], ast.Name) and g2.iter.args[0].id == g1.target.id
            and g1.target.id != g2.target.id):
        return None
    elt = arg.elt
    if isinstance(elt, ast.Name) and elt.id == g2.target.id:
        handed = "matched"
    elif m.is_call(elt, "os.path.realpath", 1) and isinstance(elt.args[0], ast.Name) and elt.args[0].id == g2.target.id:
        handed = "resolved"
    else:
        return None
    if not g2.ifs:
        fterm = "true"
    else:
        terms = [_filter_term(m, t, g2.target.id) for t in g2.ifs]
        fterm = terms[0] if len(terms) == 1 else "(" + " && ".join(terms) + ")"
    return fterm, is_set, handed


def _terminate(m):
    fn = find_func(m.tree, "_terminate_file", cls="FileSink")
    stmts = fn.body
    idx_guard = idx_create = None
    for i, s in enumerate(stmts):
        if isinstance(s, ast.If) and any(isinstance(x, ast.Call) and _norm(x.func) == "self._retention_function"
                                         for x in ast.walk(s)):
            idx_guard = i
        if isinstance(s, ast.If) and _norm(s.test) == "is_rotating" and any(
                isinstance(x, ast.Expr) and isinstance(x.value, ast.Call) and _norm(x.value.func) == "self._create_file"
                for x in s.body):
            idx_create = i
    if idx_guard is None or idx_create is None:
        raise Unsupported("_terminate_file: retention guard or create block not found")
    guard = stmts[idx_guard]

    class GTr(Tr):
        def tr(self, node):
            if _norm(node) == "self._rotation_function is None":
                return ("rotation_is_none", "bool")
            return super().tr(node)

    gterm, gtyp = GTr({"is_rotating": ("is_rotating", "bool")}).tr(guard.test)
    if gtyp != "bool" or guard.orelse:
        raise Unsupported("retention guard")
    inner = guard.body
    rets = [s for s in inner if isinstance(s, ast.If) and _norm(s.test) == "self._retention_function is not None"]
    if len(rets) != 1 or inner[-1] is not rets[0] or rets[0].orelse:
        raise Unsupported("retention block is not the last statement of its guard")
    coll = _retention_block_collect(m, rets[0].body)
    if coll is None:
        raise Unsupported("retention block changed: %r" % ([_norm(s) for s in rets[0].body],))
    fterm, is_set, handed = coll
    # the sink state a pass reads is written once, at construction: a pass is a function of the directory
    for attr in ("_glob_patterns", "_retention_function"):
        writes = [x for x in ast.walk(find_class(m.tree, "FileSink")) if isinstance(x, ast.Attribute)
                  and isinstance(x.ctx, (ast.Store, ast.Del)) and x.attr == attr]
        if len(writes) != 1:
            raise Unsupported("self.%s is written %d times in FileSink (expected once, in __init__)" % (attr, len(writes)))
    n_calls = sum(1 for x in ast.walk(fn) if isinstance(x, ast.Call) and _norm(x.func) == "self._retention_function")
    if n_calls != 1:
        raise Unsupported("_terminate_file calls the retention function %d times" % n_calls)
    out = "/-- guard of the compression/retention block: `%s` -/\n" % _norm(guard.test)
    out += "def retentionGuard (is_rotating rotation_is_none : Bool) : Bool := %s\n" % gterm
    out += "/-- which globbed entries are handed to the policy, by file type (links followed) -/\n"
    out += "def retentionFilter (k : Kind) : Bool := %s\n" % fterm
    out += "/-- do the globbed candidates pass through a set before they are handed to the policy? -/\n"
    out += "def collectIsSet : Bool := %s\n" % ("true" if is_set else "false")
    out += "/-- the name handed to the policy for a candidate: the globbed name itself (`matched`) or its `os.path.realpath` -/\n"
    out += "def handedName (matched resolved : Py.Str) : Py.Str := %s\n" % handed
    out += "/-- is the guard placed before `if is_rotating: self._create_file(new_path)`?  (statement indices) -/\n"
    out += "def guardIndex : Nat := %d\ndef createIndex : Nat := %d\n\n" % (idx_guard, idx_create)
    w = find_func(m.tree, "write", cls="FileSink")
    calls_w = [_norm(x) for x in ast.walk(w) if isinstance(x, ast.Call) and _norm(x.func) == "self._terminate_file"]
    s = find_func(m.tree, "stop", cls="FileSink")
    calls_s = [_norm(x) for x in ast.walk(s) if isinstance(x, ast.Call) and _norm(x.func) == "self._terminate_file"]
    if calls_w != ["self._terminate_file(is_rotating=True)"] or calls_s != ["self._terminate_file(is_rotating=False)"]:
        raise Unsupported("write()/stop() reach _terminate_file differently: %r %r" % (calls_w, calls_s))
    init = find_func(m.tree, "__init__", cls="FileSink")
    if not any(_norm(x) == "self._glob_patterns = self._make_glob_patterns(self._path)" for x in ast.walk(init)
               if isinstance(x, ast.Assign)):
        raise Unsupported("__init__ no longer derives _glob_patterns from self._path")
    return out


# ----------------------------------------------------------------------------- the sink's own file names
def _concat_of_format(node, env, what):
    """`"{}.{}{}".format(a, b, c)` (automatic or explicit positional fields, no conversion / spec) or the
    f-string `f"{a}.{b}{c}"` over named str inputs -> Lean concatenation term"""
    import string as _string
    parts = []
    if isinstance(node, ast.Call) and isinstance(node.func, ast.Attribute) and node.func.attr == "format" \
            and isinstance(node.func.value, ast.Constant) and isinstance(node.func.value.value, str) and not node.keywords:
        args = node.args
        auto = 0
        for lit, name, spec, conv in _string.Formatter().parse(node.func.value.value):
            if lit:
                parts.append(lean_chars(lit))
            if name is None:
                continue
            if spec or conv:
                raise Unsupported("%s: format field with conversion/spec" % what)
            if name == "":
                idx, auto = auto, auto + 1
            elif name.isdigit():
                idx = int(name)
            else:
                raise Unsupported("%s: named format field" % what)
            if idx >= len(args) or not isinstance(args[idx], ast.Name) or args[idx].id not in env:
                raise Unsupported("%s: format argument %d is not a known name" % (what, idx))
            parts.append(env[args[idx].id])
    elif isinstance(node, ast.JoinedStr):
        for v in node.values:
            if isinstance(v, ast.Constant) and isinstance(v.value, str):
                if v.value:
                    parts.append(lean_chars(v.value))
            elif isinstance(v, ast.FormattedValue) and v.conversion == -1 and v.format_spec is None \
                    and isinstance(v.value, ast.Name) and v.value.id in env:
                parts.append(env[v.value.id])
            else:
                raise Unsupported("%s: f-string part %s" % (what, _norm(v)))
    else:
        raise Unsupported("%s: not a str.format call / f-string: %s" % (what, _norm(node)))
    if not parts:
        return "([] : List Char)"
    term = parts[0]
    for q in parts[1:]:
        term = "(%s ++ %s)" % (term, q)
    return term


def _own_names(m):
    """`generate_rename_path` (the name a rotated file is moved to), `FileSink._create_path` (the name of
    a new file) and the default `{time}` format of `FileDateFormatter`."""
    fn = find_func(m.tree, "generate_rename_path")
    root, ext, ctime = arg_names(fn, 3)
    date = counter = None
    first = second = None
    for st in ast.walk(fn):
        if isinstance(st, ast.Assign) and len(st.targets) == 1 and isinstance(st.targets[0], ast.Name):
            v = st.value
            if isinstance(v, ast.Call) and m.qual(v.func) == "FileDateFormatter" and len(v.args) == 1 and not v.keywords:
                if date is not None:
                    raise Unsupported("generate_rename_path: two date formatters")
                date = st.targets[0].id
            elif isinstance(v, ast.Constant) and isinstance(v.value, int) and not isinstance(v.value, bool):
                if counter is not None:
                    raise Unsupported("generate_rename_path: two counters")
                counter = st.targets[0].id
    whiles = [s for s in fn.body if isinstance(s, ast.While)]
    if date is None or counter is None or len(whiles) != 1 or not isinstance(fn.body[-1], ast.Return):
        raise Unsupported("generate_rename_path: expected date formatter, counter, one while loop, final return")
    w = whiles[0]
    res = fn.body[-1].value
    if not (isinstance(res, ast.Name) and m.is_call(w.test, "os.path.exists", 1) and isinstance(w.test.args[0], ast.Name)
            and w.test.args[0].id == res.id and not w.orelse):
        raise Unsupported("generate_rename_path: loop is not `while os.path.exists(<result>)`")
    def is_fmt(v):
        return isinstance(v, ast.JoinedStr) or (isinstance(v, ast.Call) and isinstance(v.func, ast.Attribute) and v.func.attr == "format")
    firsts = [s for s in fn.body if isinstance(s, ast.Assign) and len(s.targets) == 1 and isinstance(s.targets[0], ast.Name)
              and s.targets[0].id == res.id and is_fmt(s.value)]
    seconds = [s for s in w.body if isinstance(s, ast.Assign) and len(s.targets) == 1 and isinstance(s.targets[0], ast.Name)
               and s.targets[0].id == res.id and is_fmt(s.value)]
    others = [s for s in ast.walk(fn) if isinstance(s, (ast.Assign, ast.AugAssign)) and
              any(isinstance(t, ast.Name) and t.id == res.id for t in (s.targets if isinstance(s, ast.Assign) else [s.target]))]
    if len(firsts) != 1 or len(seconds) != 1 or len(others) != 2:
        raise Unsupported("generate_rename_path: the result is not assigned exactly once before and once inside the loop")
    env = {root: "root", ext: "ext", date: "date", counter: "counter"}
    t1 = _concat_of_format(firsts[0].value, {k: v for k, v in env.items() if v != "counter"}, "generate_rename_path")
    t2 = _concat_of_format(seconds[0].value, env, "generate_rename_path (loop)")
    out = "/-- the name a rotated file is moved to: `%s` -/\n" % _norm(firsts[0].value)
    out += "def renamedPath (root date ext : Py.Str) : Py.Str := %s\n" % t1
    out += "/-- … when that name is taken (`counter` = the decimal text of the counter): `%s` -/\n" % _norm(seconds[0].value)
    out += "def renamedPathN (root date counter ext : Py.Str) : Py.Str := %s\n" % t2
    # the rename in _terminate_file (or a helper it delegates to): splitext of the old path feeds generate_rename_path
    cls = find_class(m.tree, "FileSink")
    found = False
    for f in ast.walk(cls):
        if not isinstance(f, ast.FunctionDef):
            continue
        calls = [x for x in ast.walk(f) if m.is_call(x, "generate_rename_path", 3)]
        if not calls:
            continue
        if len(calls) != 1:
            raise Unsupported("%s calls generate_rename_path %d times" % (f.name, len(calls)))
        r_, e_ = calls[0].args[0], calls[0].args[1]
        sx = [s for s in ast.walk(f) if isinstance(s, ast.Assign) and len(s.targets) == 1 and isinstance(s.targets[0], ast.Tuple)
              and len(s.targets[0].elts) == 2 and m.is_call(s.value, "os.path.splitext", 1)]
        if not (len(sx) == 1 and isinstance(r_, ast.Name) and isinstance(e_, ast.Name)
                and [getattr(t, "id", None) for t in sx[0].targets[0].elts] == [r_.id, e_.id]):
            raise Unsupported("%s: generate_rename_path is not fed by `root, ext = os.path.splitext(<old path>)`" % f.name)
        old = sx[0].value.args[0]
        ren = [x for x in ast.walk(f) if m.is_call(x, "os.rename", 2)]
        if not (len(ren) == 1 and isinstance(old, ast.Name) and isinstance(ren[0].args[0], ast.Name) and ren[0].args[0].id == old.id):
            raise Unsupported("%s: the file renamed is not the one whose name was split" % f.name)
        found = True
    if not found:
        raise Unsupported("no method of FileSink calls generate_rename_path")
    # _create_path: the template with its `time` field rendered, made absolute
    cp = find_func(m.tree, "_create_path", cls="FileSink")
    defs, rest = _block_defs(cp.body)
    if len(rest) != 1 or not isinstance(rest[0], ast.Return) or rest[0].value is None:
        raise Unsupported("_create_path: expected aliases and one return")
    v = inline(rest[0].value, defs)
    ok = m.is_call(v, "os.path.abspath", 1)
    if ok:
        fm = v.args[0]
        ok = (isinstance(fm, ast.Call) and isinstance(fm.func, ast.Attribute) and fm.func.attr == "format_map"
              and _norm(fm.func.value) == "self._path" and len(fm.args) == 1 and not fm.keywords
              and isinstance(fm.args[0], ast.Dict) and len(fm.args[0].keys) == 1
              and isinstance(fm.args[0].keys[0], ast.Constant) and fm.args[0].keys[0].value == "time"
              and m.is_call(fm.args[0].values[0], "FileDateFormatter", 0))
    if not ok:
        raise Unsupported("_create_path is not abspath(self._path.format_map({'time': FileDateFormatter()})): " + _norm(v))
    # FileDateFormatter.__format__: the default spec
    ff = find_func(m.tree, "__format__", cls="FileDateFormatter")
    _self, spec = arg_names(ff, 2)
    default = None
    body = ff.body
    if len(body) == 2 and isinstance(body[0], ast.If) and not body[0].orelse and len(body[0].body) == 1 \
            and cond_polarity(body[0].test, lambda e: isinstance(e, ast.Name) and e.id == spec) == -1 \
            and isinstance(body[0].body[0], ast.Assign) and len(body[0].body[0].targets) == 1 \
            and isinstance(body[0].body[0].targets[0], ast.Name) and body[0].body[0].targets[0].id == spec \
            and isinstance(body[0].body[0].value, ast.Constant) and isinstance(body[0].body[0].value.value, str) \
            and isinstance(body[1], ast.Return):
        default, used = body[0].body[0].value.value, body[1].value
        used_spec = spec
    elif len(body) == 1 and isinstance(body[0], ast.Return):
        used = body[0].value
        used_spec = None
    else:
        raise Unsupported("FileDateFormatter.__format__ shape")
    if not (isinstance(used, ast.Call) and isinstance(used.func, ast.Attribute) and used.func.attr == "__format__"
            and len(used.args) == 1 and not used.keywords):
        raise Unsupported("FileDateFormatter.__format__ does not delegate to the datetime's __format__")
    a0 = used.args[0]
    if used_spec is not None:
        if not (isinstance(a0, ast.Name) and a0.id == used_spec):
            raise Unsupported("FileDateFormatter.__format__: argument of the delegation")
    else:
        # `spec or "<default>"` / `"<default>" if not spec else spec`
        if isinstance(a0, ast.BoolOp) and isinstance(a0.op, ast.Or) and len(a0.values) == 2 and isinstance(a0.values[0], ast.Name) \
                and a0.values[0].id == spec and isinstance(a0.values[1], ast.Constant) and isinstance(a0.values[1].value, str):
            default = a0.values[1].value
        elif isinstance(a0, ast.IfExp):
            pol = cond_polarity(a0.test, lambda e: isinstance(e, ast.Name) and e.id == spec)
            yes, no = (a0.body, a0.orelse) if pol == 1 else (a0.orelse, a0.body)
            if pol is not None and isinstance(yes, ast.Name) and yes.id == spec and isinstance(no, ast.Constant) \
                    and isinstance(no.value, str):
                default = no.value
        if default is None:
            raise Unsupported("FileDateFormatter.__format__: default spec not found")
    out += "/-- the strftime format an empty `{time}` spec stands for -/\n"
    out += "def defaultTimeSpec : Py.Str := %s\n\n" % lean_chars(default)
    return out


# ----------------------------------------------------------------------------- _make_retention_function
US = 1000000


def _seconds_expr(node, arg):
    """translate the `seconds=` argument of the timedelta branch into a Lean Int term measured in
    MICROSECONDS, as a function of `us` = the timedelta's exact length in microseconds.  Accepted:
    `<arg>.total_seconds()`, `float(E)`, `int(E)` (truncation to whole seconds), `math.floor(E)`,
    `math.ceil(E)`, `E // k`/`E * k`/`E + k`/`E - k` for int literals k, `abs(E)`, `-E`.  `round`
    (half-even on floats) and anything else fail closed."""
    if isinstance(node, ast.Call) and isinstance(node.func, ast.Attribute) and node.func.attr == "total_seconds" \
            and isinstance(node.func.value, ast.Name) and node.func.value.id == arg and not node.args and not node.keywords:
        return "us"
    if isinstance(node, ast.Call) and not node.keywords and len(node.args) == 1:
        f = _norm(node.func)
        e = _seconds_expr(node.args[0], arg)
        if f == "float":
            return e
        if f == "int":
            return "(Int.tdiv %s %d * %d)" % (e, US, US)
        if f == "math.floor":
            return "(Int.fdiv %s %d * %d)" % (e, US, US)
        if f == "math.ceil":
            return "(-(Int.fdiv (-%s) %d) * %d)" % (e, US, US)
        if f == "abs":
            return "(Int.natAbs %s : Int)" % e
    if isinstance(node, ast.UnaryOp) and isinstance(node.op, ast.USub):
        return "(-%s)" % _seconds_expr(node.operand, arg)
    if isinstance(node, ast.BinOp) and isinstance(node.right, ast.Constant) and isinstance(node.right.value, int) \
            and not isinstance(node.right.value, bool):
        e, k = _seconds_expr(node.left, arg), node.right.value
        if isinstance(node.op, ast.Add):
            return "(%s + %d)" % (e, k * US)
        if isinstance(node.op, ast.Sub):
            return "(%s - %d)" % (e, k * US)
        if isinstance(node.op, ast.Mult):
            return "(%s * %d)" % (e, k)
        if isinstance(node.op, ast.FloorDiv) and k > 0:
            return "(Int.fdiv %s %d * %d)" % (e, k * US, US)
    raise Unsupported("seconds= expression of the timedelta branch: " + _norm(node))


def _dispatch(m):
    """`_make_retention_function`: None / str (parse_duration, ValueError when None, recursion on the
    interval) / int -> count(number=<expr>) / timedelta -> age(seconds=<expr>) / callable / TypeError,
    in this order; the two keyword expressions become kernels."""
    fn = find_func(m.tree, "_make_retention_function", cls="FileSink")
    (arg,) = arg_names(fn, 1)
    body = flatten_ifs(fn.body)
    if len(body) != 6 or not all(isinstance(s, ast.If) and not s.orelse for s in body[:5]) \
            or not isinstance(body[5], ast.Raise):
        raise Unsupported("_make_retention_function: expected five tests and a final raise")

    def is_inst(test, qualname):
        return m.is_call(test, "isinstance", 2) and isinstance(test.args[0], ast.Name) and test.args[0].id == arg \
            and m.qual(test.args[1]) == qualname

    t = [s.test for s in body[:5]]
    if not (none_polarity(t[0], arg) == -1 and is_inst(t[1], "str") and is_inst(t[2], "int")
            and is_inst(t[3], "datetime.timedelta")
            and m.is_call(t[4], "callable", 1) and isinstance(t[4].args[0], ast.Name) and t[4].args[0].id == arg):
        raise Unsupported("_make_retention_function dispatch tests/order changed: %r" % ([_norm(x) for x in t],))
    if not (len(body[0].body) == 1 and isinstance(body[0].body[0], ast.Return)
            and (body[0].body[0].value is None or _norm(body[0].body[0].value) == "None")):
        raise Unsupported("None branch")
    # str branch: I = parse_duration(arg); None -> ValueError; otherwise the function itself on I
    sb = body[1].body
    if not (len(sb) == 3 and isinstance(sb[0], ast.Assign) and len(sb[0].targets) == 1
            and isinstance(sb[0].targets[0], ast.Name)
            and m.is_call(sb[0].value, "loguru._string_parsers.parse_duration", 1)
            and isinstance(sb[0].value.args[0], ast.Name) and sb[0].value.args[0].id == arg):
        raise Unsupported("str branch does not start with `<interval> = parse_duration(retention)`")
    iv = sb[0].targets[0].id

    def is_rec(st):
        return isinstance(st, ast.Return) and isinstance(st.value, ast.Call) \
            and _norm(st.value.func) in ("FileSink._make_retention_function",) and len(st.value.args) == 1 \
            and not st.value.keywords and isinstance(st.value.args[0], ast.Name) and st.value.args[0].id == iv

    def is_verr(st):
        return isinstance(st, ast.Raise) and isinstance(st.exc, ast.Call) and m.qual(st.exc.func) == "ValueError"

    if not (isinstance(sb[1], ast.If) and not sb[1].orelse and len(sb[1].body) == 1):
        raise Unsupported("str branch: expected one `if` about the parsed interval")
    p = none_polarity(sb[1].test, iv)
    ok = (p == -1 and is_verr(sb[1].body[0]) and is_rec(sb[2])) or (p == 1 and is_rec(sb[1].body[0]) and is_verr(sb[2]))
    if not ok:
        raise Unsupported("str branch changed: %r" % ([_norm(s) for s in sb],))
    if not (isinstance(body[5].exc, ast.Call) and m.qual(body[5].exc.func) == "TypeError"):
        raise Unsupported("final raise is not a TypeError")
    if not (len(body[4].body) == 1 and isinstance(body[4].body[0], ast.Return)
            and isinstance(body[4].body[0].value, ast.Name) and body[4].body[0].value.id == arg):
        raise Unsupported("callable branch")

    def partial_kw(stmt, func, kw):
        if len(stmt.body) != 1 or not isinstance(stmt.body[0], ast.Return):
            raise Unsupported("branch is not a single return: " + _norm(stmt))
        call = stmt.body[0].value
        if not (m.is_call(call, "functools.partial", 1, 1) and _norm(call.args[0]) == func
                and call.keywords[0].arg == kw):
            raise Unsupported("expected partial(%s, %s=...): %s" % (func, kw, _norm(call)))
        return call.keywords[0].value

    num = partial_kw(body[2], "Retention.retention_count", "number")
    nterm, ntyp = Tr({arg: ("retention", "int")}).tr(num)
    if ntyp != "int":
        raise Unsupported("number= is not an int expression")
    sec = partial_kw(body[3], "Retention.retention_age", "seconds")
    sterm = _seconds_expr(sec, arg)
    out = "/-- int branch: `number=%s` -/\n" % _norm(num)
    out += "def countNumber (retention : Int) : Int := %s\n" % nterm
    out += "/-- timedelta branch: `seconds=%s`, in MICROSECONDS as a function of the timedelta's exact length\n" % _norm(sec)
    out += "in microseconds (total_seconds() is exact at this scale) -/\n"
    out += "def ageSecondsUs (us : Int) : Int := %s\n\n" % sterm
    return out


# ----------------------------------------------------------------------------- parse_duration
DURATION_REGEX = r"(?:([e\+\-\.\d]+)\s*([a-z]+)[\s\,]*)"


def expand_alternatives(rx):
    """strings matched by a regex made of literals, `c?`, `(?:abc)?` and top-level `|`"""
    out = []
    for alt in rx.split("|"):
        acc = [""]
        i = 0
        while i < len(alt):
            if alt.startswith("(?:", i):
                j = alt.index(")", i)
                grp = alt[i + 3:j]
                if not grp.isalpha() or j + 1 >= len(alt) or alt[j + 1] != "?":
                    raise Unsupported("unit regex " + rx)
                acc = acc + [a + grp for a in acc]
                i = j + 2
            elif alt[i].isalpha():
                if i + 1 < len(alt) and alt[i + 1] == "?":
                    acc = acc + [a + alt[i] for a in acc]
                    i += 2
                else:
                    acc = [a + alt[i] for a in acc]
                    i += 1
            else:
                raise Unsupported("unit regex " + rx)
        out += acc
    return sorted(set(out), key=lambda s: (len(s), s))


def _has_flag_I(m, call):
    return len(call.keywords) == 1 and call.keywords[0].arg == "flags" and m.qual(call.keywords[0].value) in ("re.I", "re.IGNORECASE")


def _parse_duration(m):
    """pin, independently of the names of locals: strip; the item regex; the full-match guard
    (`None` otherwise); for every `re.findall` item (V, N): A = float(V) (ValueError), F = first
    multiplier whose spelling regex full-matches N ignoring case (ValueError), total += A * F;
    `timedelta(seconds=total)`; and emit the unit table."""
    fn = find_func(m.tree, "parse_duration")
    (d0,) = arg_names(fn, 1)
    body = list(fn.body)
    cur = d0          # the name holding the stripped text
    reg = units = total = None
    i = 0

    def is_name(n, name):
        return isinstance(n, ast.Name) and n.id == name

    guard_seen = stripped = False
    while i < len(body) and not isinstance(body[i], ast.For):
        st = body[i]
        i += 1
        if isinstance(st, ast.If):
            # the full-match guard: `if not re.fullmatch(reg + "+", text, flags=re.I): return None`
            t = st.test
            if guard_seen or reg is None or not stripped or not (
                    isinstance(t, ast.UnaryOp) and isinstance(t.op, ast.Not) and m.is_call(t.operand, "re.fullmatch", 2, 1)
                    and _has_flag_I(m, t.operand) and is_name(t.operand.args[1], cur)
                    and isinstance(t.operand.args[0], ast.BinOp) and isinstance(t.operand.args[0].op, ast.Add)
                    and is_name(t.operand.args[0].left, reg) and isinstance(t.operand.args[0].right, ast.Constant)
                    and t.operand.args[0].right.value == "+" and not st.orelse and len(st.body) == 1
                    and isinstance(st.body[0], ast.Return)
                    and (st.body[0].value is None or _norm(st.body[0].value) == "None")):
                raise Unsupported("parse_duration: full-match guard changed or misplaced: " + _norm(st)[:160])
            guard_seen = True
            continue
        if not (isinstance(st, ast.Assign) and len(st.targets) == 1 and isinstance(st.targets[0], ast.Name)):
            raise Unsupported("parse_duration: unexpected statement " + _norm(st)[:120])
        tgt, val = st.targets[0].id, st.value
        if isinstance(val, ast.Call) and isinstance(val.func, ast.Attribute) and val.func.attr == "strip" \
                and is_name(val.func.value, cur) and not val.args and not val.keywords and not guard_seen and not stripped:
            cur, stripped = tgt, True
        elif isinstance(val, ast.Constant) and isinstance(val.value, str) and reg is None:
            if val.value != DURATION_REGEX:
                raise Unsupported("parse_duration regex changed: %r" % (val.value,))
            reg = tgt
        elif isinstance(val, ast.List) and units is None:
            units = (tgt, val)
        elif isinstance(val, ast.Constant) and not isinstance(val.value, bool) and val.value == 0 and total is None:
            total = tgt
        else:
            raise Unsupported("parse_duration: unexpected assignment " + _norm(st)[:120])
    if not guard_seen or not stripped or reg is None or units is None or total is None:
        raise Unsupported("parse_duration: strip / regex / units / accumulator / full-match guard missing")
    if len({cur, reg, units[0], total}) != 4:
        raise Unsupported("parse_duration: name clash")
    rest = body[i:]
    if len(rest) != 2 or not isinstance(rest[0], ast.For) or not isinstance(rest[1], ast.Return):
        raise Unsupported("parse_duration: expected one loop and a final return")
    loop, ret = rest
    if not (m.is_call(ret.value, "datetime.timedelta", 0, 1) and ret.value.keywords[0].arg == "seconds"
            and is_name(ret.value.keywords[0].value, total)):
        raise Unsupported("parse_duration: final return is not timedelta(seconds=<total>)")
    if not (isinstance(loop.target, ast.Tuple) and len(loop.target.elts) == 2
            and all(isinstance(e, ast.Name) for e in loop.target.elts) and not loop.orelse
            and m.is_call(loop.iter, "re.findall", 2, 1) and _has_flag_I(m, loop.iter)
            and is_name(loop.iter.args[0], reg) and is_name(loop.iter.args[1], cur)):
        raise Unsupported("parse_duration: loop is not `for V, N in re.findall(reg, text, flags=re.I)`")
    V, N = (e.id for e in loop.target.elts)
    lb = loop.body
    if len(lb) != 3 or not isinstance(lb[0], ast.Try) or not isinstance(lb[1], ast.Try) or not isinstance(lb[2], ast.AugAssign):
        raise Unsupported("parse_duration: loop body is not try / try / +=")

    def try_assign(t, exc):
        if not (len(t.body) == 1 and isinstance(t.body[0], ast.Assign) and len(t.body[0].targets) == 1
                and isinstance(t.body[0].targets[0], ast.Name) and not t.orelse and not t.finalbody
                and len(t.handlers) == 1 and t.handlers[0].type is not None and m.qual(t.handlers[0].type) == exc
                and len(t.handlers[0].body) == 1 and isinstance(t.handlers[0].body[0], ast.Raise)
                and isinstance(t.handlers[0].body[0].exc, ast.Call)
                and m.qual(t.handlers[0].body[0].exc.func) == "ValueError"):
            raise Unsupported("parse_duration: try block changed: " + _norm(t)[:120])
        return t.body[0].targets[0].id, t.body[0].value

    A, aval = try_assign(lb[0], "ValueError")
    if not (m.is_call(aval, "float", 1) and is_name(aval.args[0], V)):
        raise Unsupported("parse_duration: value is not float(<item value>)")
    F, fval = try_assign(lb[1], "StopIteration")
    # the unit name read inside the generator is the loop's N unless A rebinding shadows it (A != N required)
    if A == N:
        raise Unsupported("parse_duration: the float rebinding shadows the unit text")
    if not (m.is_call(fval, "next", 1) and isinstance(fval.args[0], ast.GeneratorExp)
            and len(fval.args[0].generators) == 1):
        raise Unsupported("parse_duration: multiplier is not next(<generator>)")
    g = fval.args[0]
    c = g.generators[0]
    if not (isinstance(c.target, ast.Tuple) and len(c.target.elts) == 2 and all(isinstance(e, ast.Name) for e in c.target.elts)
            and is_name(c.iter, units[0]) and len(c.ifs) == 1 and m.is_call(c.ifs[0], "re.fullmatch", 2, 1)
            and _has_flag_I(m, c.ifs[0]) and is_name(c.ifs[0].args[0], c.target.elts[0].id)
            and is_name(c.ifs[0].args[1], N) and is_name(g.elt, c.target.elts[1].id)
            and c.target.elts[0].id != c.target.elts[1].id and N not in (c.target.elts[0].id, c.target.elts[1].id)):
        raise Unsupported("parse_duration: unit lookup changed: " + _norm(fval))
    aug = lb[2]
    if not (isinstance(aug.op, ast.Add) and is_name(aug.target, total) and isinstance(aug.value, ast.BinOp)
            and isinstance(aug.value.op, ast.Mult)
            and {getattr(aug.value.left, "id", None), getattr(aug.value.right, "id", None)} == {A, F} and A != F):
        raise Unsupported("parse_duration: accumulation is not `<total> += <value> * <multiplier>`")
    rows = []
    for e in units[1].elts:
        if not (isinstance(e, ast.Tuple) and len(e.elts) == 2 and isinstance(e.elts[0], ast.Constant)
                and isinstance(e.elts[0].value, str) and isinstance(e.elts[1], ast.Constant)
                and isinstance(e.elts[1].value, (int, float)) and not isinstance(e.elts[1].value, bool)):
            raise Unsupported("units entry: " + _norm(e))
        alts = expand_alternatives(e.elts[0].value)
        us = Fraction(repr(e.elts[1].value)) * 1000000
        if us.denominator != 1:
            raise Unsupported("unit multiplier is not a whole number of microseconds: %r" % e.elts[1].value)
        rows.append("  ([%s], (%d : Int))" % (", ".join(lean_chars(a) for a in alts), us.numerator))
    out = "/-- `units` of parse_duration: spellings (lower case; matching ignores case), microseconds; first match wins -/\n"
    out += "def durationUnits : List (List Py.Str × Int) := [\n" + ",\n".join(rows) + "]\n\n"
    return out


def generate():
    errors = []
    body = "import LoguruModel.Retention.Base\nset_option linter.unusedVariables false\nnamespace Retention.Gen\n\n"
    try:
        tree, _ = parse_module("_file_sink.py")
        m = Mod(tree)
        m.alias.setdefault("partial", "functools.partial")
        body += _glob_patterns(m)
        body += _retention_count(m)
        body += _retention_age(m)
        body += _terminate(m)
        body += _own_names(m)
        body += _dispatch(m)
        sp, _ = parse_module("_string_parsers.py")
        body += _parse_duration(Mod(sp))
    except (Unsupported, SyntaxError, KeyError, AttributeError, IndexError, TypeError, ValueError) as e:
        errors.append("%s: %s" % (type(e).__name__, e))
    body += "end Retention.Gen\n"
    return emit("Retention", body, ["loguru/_file_sink.py", "loguru/_string_parsers.py"], errors)
