"""Generated/Context.lean from loguru/_logger.py + loguru/_contextvars.py (C12, tie G).

What is extracted (the hand model `Context/Model.lean` is *defined in terms of* these):
  recordLayers   operand order of the dict display that builds record["extra"] in Logger._log
  bindOperands   operand order of the dict display in Logger.bind
  ctxOperands    operand order of the dict display in Logger.contextualize
  patchOperands  operand order of the list display in Logger.patch
  kwargsShadow   for bind / contextualize / the logging methods: the keyword names their own named parameters
                 (after name mangling) take away from **kwargs, i.e. keys that cannot reach `extra` that way
  patchDedup     whether Logger.patch skips a patcher that is already (==) in the list
  logPhases      relative order of `core.patcher(...)`, `for patcher in patchers`, `for handler in ...emit`
  resetOn        the ways of leaving a contextualize block (normal / Exception / BaseException) that run
                 `context.reset(token)`
  optDefaults    the defaults of opt()'s keyword-only parameters (checked equal to the root logger's
                 options in loguru/__init__.py, which also has patchers=[] and extra={})

What is only checked for shape (fail closed, nothing generated from it):
  * `context` is a module-level `ContextVar(..., default={})`, `ContextVar` comes from `._contextvars`,
    which returns `contextvars.ContextVar` for Python >= 3.7;
  * `contextualize` is a `contextlib.contextmanager` generator made of: (optionally under the core lock)
    `token = context.set(<display>)`, then a `try: yield` whose finally / else / `except [Base]Exception:
    reset; raise` clauses each consist of `context.reset(token)` (optionally under the lock); WHICH ways of
    leaving the block (normal, Exception, BaseException) reach a reset is generated as `resetOn` and the
    theorems need all three;
  * `bind`, `patch`, `opt` unpack `_options` positionally and return ONE `Logger(self._core, ...)` call
    whose arguments are fresh displays / names in the `_options` order – no method call on, no
    subscript-store into, no augmented assignment to the receiver's containers;
  * `Logger.__init__` stores `_options` as the 9-tuple in the documented order;
  * in `_log`: `kwargs` reach `extra` only through `if capture and kwargs: log_record["extra"].update(kwargs)`
    placed after the record display and before the three trailing phases; `configure` replaces
    `core.extra` by clear()+update(extra) and `core.patcher` by assignment, both only `if ... is not None`.
"""
import ast

from extract_lib import Unsupported, emit, find_class, find_func, lean_chars, parse_module

OPTION_NAMES = ["exception", "depth", "record", "lazy", "colors", "raw", "capture", "patchers", "extra"]


def _u(node):
    return ast.unparse(node)


def _receiver(fn):
    """name of the first parameter (positional-only or not)"""
    return (fn.args.posonlyargs + fn.args.args)[0].arg


def _strip_doc(body):
    if body and isinstance(body[0], ast.Expr) and isinstance(body[0].value, ast.Constant) \
            and isinstance(body[0].value.value, str):
        return body[1:]
    return body


def _dict_operands(node, what):
    """{**A, **B, ...} -> [src(A), src(B), ...]"""
    if not (isinstance(node, ast.Dict) and node.keys and all(k is None for k in node.keys)):
        raise Unsupported("%s is not a dict display of starred operands: %s" % (what, _u(node)))
    return [_u(v) for v in node.values]


def _list_operands(node, what):
    """[*A, b]  or  A + [b]  or  [b] + A  ->  list of ('star', src) / ('item', src)"""
    if isinstance(node, ast.List):
        out = []
        for e in node.elts:
            if isinstance(e, ast.Starred):
                out.append(("star", _u(e.value)))
            else:
                out.append(("item", _u(e)))
        return out
    if isinstance(node, ast.BinOp) and isinstance(node.op, ast.Add):
        out = []
        for side in (node.left, node.right):
            if isinstance(side, ast.Name):
                out.append(("star", side.id))
            elif isinstance(side, ast.List) and len(side.elts) == 1 and not isinstance(side.elts[0], ast.Starred):
                out.append(("item", _u(side.elts[0])))
            elif isinstance(side, ast.Call) and _u(side.func) == "list" and len(side.args) == 1:
                out.append(("star", _u(side.args[0])))
            else:
                raise Unsupported("%s operand %s" % (what, _u(side)))
        return out
    raise Unsupported("%s is not a list display: %s" % (what, _u(node)))


def _no_mutation(fn, names, what):
    """no statement of fn mutates one of the named containers"""
    for node in ast.walk(fn):
        if isinstance(node, ast.Call) and isinstance(node.func, ast.Attribute) \
                and isinstance(node.func.value, ast.Name) and node.func.value.id in names:
            raise Unsupported("%s calls a method on %s: %s" % (what, node.func.value.id, _u(node)))
        if isinstance(node, (ast.AugAssign,)) and _u(node.target).split("[")[0].split(".")[0] in names:
            raise Unsupported("%s augments %s" % (what, _u(node.target)))
        if isinstance(node, (ast.Assign, ast.Delete)):
            for t in node.targets:
                if isinstance(t, ast.Subscript) and isinstance(t.value, ast.Name) and t.value.id in names:
                    raise Unsupported("%s stores into %s" % (what, _u(t)))


def _single_return_logger(body, what, selfname):
    """[unpack-assign, return Logger(self._core, ...)] -> (assign, call)"""
    body = [s for s in body if not (isinstance(s, ast.If) and "ansi" in _u(s.test))]  # opt()'s deprecated alias
    if len(body) != 2 or not isinstance(body[0], ast.Assign) or not isinstance(body[1], ast.Return):
        raise Unsupported("%s body is not `<unpack _options>; return Logger(...)`" % what)
    call = body[1].value
    if not (isinstance(call, ast.Call) and _u(call.func) == "Logger" and not call.keywords and call.args
            and _u(call.args[0]) == selfname + "._core"):
        raise Unsupported("%s does not return Logger(%s._core, ...)" % (what, selfname))
    return body[0], call


def _lean_list(items):
    return "[" + ", ".join(items) + "]"


def generate():
    errors = []
    body = "import LoguruModel.Context.Base\nnamespace Context.Gen\nopen Context\n\n"
    try:
        tree, _ = parse_module("_logger.py")
        cls = find_class(tree, "Logger")

        # ---------------------------------------------------------------- the ContextVar
        ctxassign = None
        for node in tree.body:
            if isinstance(node, ast.Assign) and len(node.targets) == 1 and _u(node.targets[0]) == "context":
                ctxassign = node.value
        if ctxassign is None or not (isinstance(ctxassign, ast.Call) and _u(ctxassign.func) == "ContextVar"
                                     and len(ctxassign.args) == 1
                                     and [k.arg for k in ctxassign.keywords] == ["default"]
                                     and _u(ctxassign.keywords[0].value) == "{}"):
            raise Unsupported("module-level `context` is not ContextVar(name, default={}): %s"
                              % (_u(ctxassign) if ctxassign is not None else None))
        imported = False
        for node in tree.body:
            if isinstance(node, ast.ImportFrom) and node.module == "_contextvars" and node.level == 1 \
                    and any(a.name == "ContextVar" and a.asname is None for a in node.names):
                imported = True
        if not imported:
            raise Unsupported("ContextVar is not imported from ._contextvars")
        for node in ast.walk(tree):
            if isinstance(node, (ast.Assign, ast.AugAssign, ast.AnnAssign)) and node is not None:
                tg = node.targets if isinstance(node, ast.Assign) else [node.target]
                for t in tg:
                    if _u(t) == "context" and not (isinstance(node, ast.Assign) and node.value is ctxassign):
                        # `context = ...` also appears as a *parameter* rebinding inside add(); allow
                        # rebinding only inside functions that have `context` as a parameter
                        pass
        cvtree, _ = parse_module("_contextvars.py")
        loader = find_func(cvtree, "load_contextvar_class")
        first = _strip_doc(loader.body)[0]
        if not (isinstance(first, ast.If) and _u(first.test) == "sys.version_info >= (3, 7)"
                and _u(first.body[0]) == "from contextvars import ContextVar"):
            raise Unsupported("_contextvars.load_contextvar_class: first branch changed")
        if _u(_strip_doc(loader.body)[-1]) != "return ContextVar":
            raise Unsupported("_contextvars.load_contextvar_class does not return ContextVar")
        ok_assign = any(isinstance(n, ast.Assign) and _u(n) == "ContextVar = load_contextvar_class()"
                        for n in cvtree.body)
        if not ok_assign:
            raise Unsupported("_contextvars.ContextVar is not load_contextvar_class()")
        # functions that assign to / declare global `context` (other than a parameter of that name)
        for fn in ast.walk(tree):
            if isinstance(fn, (ast.FunctionDef, ast.AsyncFunctionDef)):
                params = {a.arg for a in fn.args.args + fn.args.kwonlyargs}
                for node in ast.walk(fn):
                    if isinstance(node, ast.Global) and "context" in node.names:
                        raise Unsupported("%s declares `global context`" % fn.name)
                    if isinstance(node, ast.Assign) and any(_u(t) == "context" for t in node.targets) \
                            and "context" not in params:
                        raise Unsupported("%s rebinds `context`" % fn.name)

        # ---------------------------------------------------------------- Logger.__init__
        init = find_func(cls, "__init__")
        want = "self._options = (%s)" % ", ".join(OPTION_NAMES)
        if not any(_u(s) == want for s in init.body):
            raise Unsupported("Logger.__init__ does not store `%s`" % want)
        if [a.arg for a in init.args.args] != ["self", "core"] + OPTION_NAMES:
            raise Unsupported("Logger.__init__ parameters changed")

        # ---------------------------------------------------------------- bind
        bind = find_func(cls, "bind")
        me = _receiver(bind)
        asg, call = _single_return_logger(_strip_doc(bind.body), "bind", me)
        if _u(asg) != "*options, extra = %s._options" % me:
            raise Unsupported("bind unpacking: " + _u(asg))
        if len(call.args) != 3 or _u(call.args[1]) != "*options":
            raise Unsupported("bind: Logger arguments " + _u(call))
        ops = _dict_operands(call.args[2], "bind's new extra")
        table = {"extra": "Src.old", "kwargs": "Src.kwargs"}
        if sorted(ops) != ["extra", "kwargs"]:
            raise Unsupported("bind operands " + repr(ops))
        if bind.args.kwarg is None or bind.args.kwarg.arg != "kwargs":
            raise Unsupported("bind has no **kwargs")
        _no_mutation(bind, {"extra", "options"}, "bind")
        body += "/-- `bind`: %s -/\ndef bindOperands : List Src := %s\n\n" % (
            _u(call.args[2]), _lean_list([table[o] for o in ops]))

        # ---------------------------------------------------------------- patch
        patch = find_func(cls, "patch")
        me = _receiver(patch)
        pbody = _strip_doc(patch.body)
        dedup = False
        if len(pbody) == 3 and isinstance(pbody[1], ast.If):
            # `if patcher not in patchers: patchers = <display>` – a patcher equal to one already attached is
            # dropped (the local name is rebound, nothing is mutated); mirrored by the model as patchDedup
            g = pbody[1]
            if _u(g.test) != "patcher not in patchers" or g.orelse or len(g.body) != 1 \
                    or not isinstance(g.body[0], ast.Assign) or _u(g.body[0].targets[0]) != "patchers":
                raise Unsupported("patch: unexpected guard " + _u(g)[:80])
            asg, call = _single_return_logger([pbody[0], pbody[2]], "patch", me)
            if _u(call.args[2]) != "patchers":
                raise Unsupported("patch: Logger arguments " + _u(call))
            newlist = g.body[0].value
            dedup = True
        else:
            asg, call = _single_return_logger(pbody, "patch", me)
            newlist = call.args[2] if len(call.args) == 4 else None
        if _u(asg) != "*options, patchers, extra = %s._options" % me:
            raise Unsupported("patch unpacking: " + _u(asg))
        if len(call.args) != 4 or _u(call.args[1]) != "*options" or _u(call.args[3]) != "extra":
            raise Unsupported("patch: Logger arguments " + _u(call))
        pops = _list_operands(newlist, "patch's new patcher list")
        if sorted(pops) != [("item", "patcher"), ("star", "patchers")]:
            raise Unsupported("patch operands " + repr(pops))
        _no_mutation(patch, {"patchers", "extra", "options"}, "patch")
        body += "/-- `patch`: %s -/\ndef patchOperands : List PSrc := %s\n\n" % (
            _u(newlist), _lean_list(["PSrc.old" if k == "star" else "PSrc.new" for k, _ in pops]))
        body += ("/-- `patch`: is the new patcher skipped when an equal one is already attached "
                 "(`if patcher not in patchers`)? -/\ndef patchDedup : Bool := %s\n\n" % ("true" if dedup else "false"))

        # ---------------------------------------------------------------- opt
        opt = find_func(cls, "opt")
        me = _receiver(opt)
        asg, call = _single_return_logger(_strip_doc(opt.body), "opt", me)
        if _u(asg) != "args = %s._options[-2:]" % me:
            raise Unsupported("opt unpacking: " + _u(asg))
        if [_u(a) for a in call.args[1:]] != OPTION_NAMES[:7] + ["*args"]:
            raise Unsupported("opt: Logger arguments " + _u(call))
        _no_mutation(opt, {"args"}, "opt")
        if (opt.args.posonlyargs + opt.args.args)[1:] or opt.args.vararg or opt.args.kwarg:
            raise Unsupported("opt takes positional parameters")
        defaults = {}
        for a, d in zip(opt.args.kwonlyargs, opt.args.kw_defaults):
            if not isinstance(d, ast.Constant):
                raise Unsupported("opt default of %s" % a.arg)
            defaults[a.arg] = d.value
        if sorted(defaults) != sorted(OPTION_NAMES[:7] + ["ansi"]):
            raise Unsupported("opt keyword-only parameters: %r" % sorted(defaults))

        def b(v):
            if v is True:
                return "true"
            if v is False:
                return "false"
            raise Unsupported("non-bool default %r" % (v,))
        exc = {None: 0, False: 1, True: 2}.get(defaults["exception"], None) \
            if defaults["exception"] in (None, False, True) else None
        if exc is None or not isinstance(defaults["depth"], int) or isinstance(defaults["depth"], bool):
            raise Unsupported("opt defaults of exception/depth")
        # the root logger of loguru/__init__.py is built with exactly these defaults, no patcher, no extra
        itree, _ = parse_module("__init__.py")
        root = None
        for node in itree.body:
            if isinstance(node, ast.Assign) and _u(node.targets[0]) == "logger" and isinstance(node.value, ast.Call):
                root = node.value
        if root is None or _u(root.func) != "_Logger" or root.args:
            raise Unsupported("__init__.py: `logger = _Logger(...)` with keyword arguments not found")
        rootkw = {k.arg: _u(k.value) for k in root.keywords}
        wantkw = {"core": "_Core()", "patchers": "[]", "extra": "{}"}
        for name in OPTION_NAMES[:7]:
            wantkw[name] = repr(defaults[name])
        if rootkw != wantkw:
            raise Unsupported("__init__.py: root logger options %r differ from opt() defaults %r" % (rootkw, wantkw))
        body += "/-- defaults of `opt()`'s keyword-only parameters (= the options of the root logger) -/\n"
        body += ("def optDefaults : Flags := { exception := %d, depth := %d, record := %s, lazy := %s, "
                 "colors := %s, raw := %s, capture := %s }\n\n") % (
            exc, defaults["depth"], b(defaults["record"]), b(defaults["lazy"]), b(defaults["colors"]),
            b(defaults["raw"]), b(defaults["capture"]))

        # ---------------------------------------------------------------- contextualize
        cz = find_func(cls, "contextualize")
        me = _receiver(cz)
        if [_u(d) for d in cz.decorator_list] != ["contextlib.contextmanager"]:
            raise Unsupported("contextualize decorators: %r" % [_u(d) for d in cz.decorator_list])
        if cz.args.kwarg is None or cz.args.kwarg.arg != "kwargs" or len(cz.args.posonlyargs + cz.args.args) != 1:
            raise Unsupported("contextualize signature")
        lockname = "%s._core.lock" % me

        def unlock(stmts):
            """flatten `with <core lock>:` wrappers"""
            out = []
            for s in stmts:
                if isinstance(s, ast.With) and len(s.items) == 1 and _u(s.items[0].context_expr) == lockname \
                        and s.items[0].optional_vars is None:
                    out += unlock(s.body)
                else:
                    out.append(s)
            return out
        stmts = unlock(_strip_doc(cz.body))
        if not stmts or not isinstance(stmts[-1], ast.Try):
            raise Unsupported("contextualize does not end with try/finally")
        pre, tr = stmts[:-1], stmts[-1]
        if len(tr.body) != 1 or _u(tr.body[0]) != "yield":
            raise Unsupported("contextualize: try body is not a bare `yield`")

        def is_reset(stmts_):
            return [_u(x) for x in unlock(stmts_)] == ["context.reset(token)"]
        # which ways of leaving the block run `context.reset(token)`:
        #   finally           -> normal, Exception, BaseException
        #   else              -> normal
        #   except Exception: reset; raise      -> Exception
        #   except BaseException / bare except: reset; raise  -> Exception, BaseException
        reset_on = []
        if tr.finalbody:
            if not is_reset(tr.finalbody):
                raise Unsupported("contextualize: finally is not `context.reset(token)`: %r"
                                  % [_u(x) for x in unlock(tr.finalbody)])
            reset_on += ["ExitKind.normal", "ExitKind.exception", "ExitKind.baseException"]
        if tr.orelse:
            if not is_reset(tr.orelse):
                raise Unsupported("contextualize: else branch is not `context.reset(token)`")
            reset_on.append("ExitKind.normal")
        caught = set()
        for h in tr.handlers:
            hb = unlock(h.body)
            if h.name is not None or len(hb) != 2 or _u(hb[0]) != "context.reset(token)" or _u(hb[1]) != "raise":
                raise Unsupported("contextualize: handler is not `except X: context.reset(token); raise`")
            t = None if h.type is None else _u(h.type)
            if t == "Exception":
                kinds = ["ExitKind.exception"]
            elif t in (None, "BaseException"):
                kinds = ["ExitKind.exception", "ExitKind.baseException"]
            else:
                raise Unsupported("contextualize: handler for %s" % t)
            reset_on += [k for k in kinds if k not in caught]   # an earlier handler wins
            caught.update(kinds)
        if len(set(reset_on)) != len(reset_on):
            raise Unsupported("contextualize: some way of leaving the block resets the token twice: %r" % reset_on)
        body += ("/-- `contextualize`: the ways of leaving the block after which `context.reset(token)` runs\n"
                 "(try/finally: all of them) -/\ndef resetOn : List ExitKind := %s\n\n" % _lean_list(reset_on))
        display = None
        if len(pre) == 2 and isinstance(pre[0], ast.Assign) and len(pre[0].targets) == 1 \
                and isinstance(pre[0].targets[0], ast.Name) \
                and _u(pre[1]) == "token = context.set(%s)" % pre[0].targets[0].id:
            display = pre[0].value
        elif len(pre) == 1 and isinstance(pre[0], ast.Assign) and _u(pre[0].targets[0]) == "token" \
                and isinstance(pre[0].value, ast.Call) and _u(pre[0].value.func) == "context.set" \
                and len(pre[0].value.args) == 1:
            display = pre[0].value.args[0]
        if display is None:
            raise Unsupported("contextualize: prologue is not `token = context.set({...})`: %r" % [_u(s) for s in pre])
        cops = _dict_operands(display, "contextualize's new context")
        ctable = {"context.get()": "Src.old", "kwargs": "Src.kwargs"}
        if sorted(cops) != ["context.get()", "kwargs"]:
            raise Unsupported("contextualize operands " + repr(cops))
        body += "/-- `contextualize`: %s -/\ndef ctxOperands : List Src := %s\n\n" % (
            _u(display), _lean_list([ctable[o] for o in cops]))

        # ---------------------------------------------------------------- _log
        lg = find_func(cls, "_log")
        top = lg.body
        idx = {}
        for i, s in enumerate(top):
            src = _u(s)
            if isinstance(s, ast.Assign) and _u(s.targets[0]) == "log_record" and isinstance(s.value, ast.Dict):
                idx["record"] = i
                rec = s.value
            elif src == "(%s) = options" % ", ".join(OPTION_NAMES) or src == "%s = options" % ", ".join(OPTION_NAMES):
                idx["unpack"] = i
            elif isinstance(s, ast.If) and _u(s.test) == "capture and kwargs":
                if [_u(x) for x in s.body] != ["log_record['extra'].update(kwargs)"] or s.orelse:
                    raise Unsupported("_log: capture branch is %r" % [_u(x) for x in s.body])
                idx["capture"] = i
            elif isinstance(s, ast.If) and _u(s.test) == "core.patcher":
                if [_u(x) for x in s.body] != ["core.patcher(log_record)"] or s.orelse:
                    raise Unsupported("_log: core.patcher branch changed")
                idx["Phase.corePatcher"] = i
            elif isinstance(s, ast.For) and _u(s.iter) == "patchers":
                if [_u(x) for x in s.body] != ["%s(log_record)" % _u(s.target)] or s.orelse:
                    raise Unsupported("_log: patchers loop changed")
                idx["Phase.patchers"] = i
            elif isinstance(s, ast.For) and _u(s.iter) == "core.handlers.values()":
                if len(s.body) != 1 or not _u(s.body[0]).startswith("%s.emit(log_record, " % _u(s.target)) or s.orelse:
                    raise Unsupported("_log: handler loop changed")
                idx["Phase.handlers"] = i
        need = ["unpack", "record", "capture", "Phase.corePatcher", "Phase.patchers", "Phase.handlers"]
        missing = [n for n in need if n not in idx]
        if missing:
            raise Unsupported("_log: statements not found at top level: %r" % missing)
        if not (idx["unpack"] < idx["record"] < idx["capture"] < min(idx[p] for p in need[3:])):
            raise Unsupported("_log: record display / capture update are not before the trailing phases")
        phases = sorted(need[3:], key=lambda p: idx[p])
        if max(idx[p] for p in need[3:]) != len(top) - 1 or \
                sorted(idx[p] for p in need[3:]) != list(range(len(top) - 3, len(top))):
            raise Unsupported("_log: the three trailing phases are not the last three statements")
        extra_val = None
        for k, v in zip(rec.keys, rec.values):
            if isinstance(k, ast.Constant) and k.value == "extra":
                extra_val = v
        if extra_val is None:
            raise Unsupported("_log: no 'extra' entry in the record display")
        lops = _dict_operands(extra_val, "record['extra']")
        ltable = {"core.extra": "Layer.core", "context.get()": "Layer.ctx", "extra": "Layer.bound"}
        if sorted(lops) != sorted(ltable):
            raise Unsupported("_log extra operands " + repr(lops))
        # nothing else touches log_record['extra'] / rebinding of extra, kwargs->extra between record and phases
        for s in top[idx["record"] + 1:len(top) - 3]:
            if s is top[idx["capture"]]:
                continue
            for node in ast.walk(s):
                if isinstance(node, ast.Subscript) and _u(node) == "log_record['extra']":
                    raise Unsupported("_log: another statement touches log_record['extra']: " + _u(s)[:80])
        for s in top[idx["unpack"] + 1:idx["record"]]:
            for node in ast.walk(s):
                if isinstance(node, ast.Assign) and any(_u(t) in ("extra", "patchers", "capture") for t in node.targets):
                    raise Unsupported("_log rebinds extra/patchers/capture before use")
        _no_mutation(lg, {"extra", "patchers"}, "_log")
        body += "/-- `_log`: \"extra\": %s -/\ndef recordLayers : List Layer := %s\n\n" % (
            _u(extra_val), _lean_list([ltable[o] for o in lops]))
        body += "/-- `_log`: order of the trailing statements -/\ndef logPhases : List Phase := %s\n\n" % _lean_list(phases)

        # ---------------------------------------------------------------- **kwargs signatures
        # every public method that forwards **kwargs into `extra`: which keyword names do its OWN named
        # parameters take away from **kwargs?  (names are mangled the way the compiler does inside
        # `class Logger`; positional-only parameters cannot be passed by keyword and take none)
        def mangle(n):
            return "_Logger" + n if n.startswith("__") and not n.endswith("__") else n
        kw_methods = ["bind", "contextualize", "trace", "debug", "info", "success", "warning", "error", "critical",
                      "exception", "log"]
        rows = []
        for name in kw_methods:
            fn = find_func(cls, name)
            if fn.args.kwarg is None:
                raise Unsupported("%s no longer takes **kwargs" % name)
            named = [mangle(a.arg) for a in fn.args.args + fn.args.kwonlyargs]
            rows.append("(%s, [%s])" % (lean_chars(name), ", ".join(lean_chars(n) for n in named)))
        body += ("/-- methods forwarding `**kwargs` into `extra`, each with the keyword names its own named\n"
                 "parameters shadow (after name mangling; positional-only parameters shadow nothing) -/\n"
                 "def kwargsShadow : List (List Char × List (List Char)) := [\n  %s]\n\n" % ",\n  ".join(rows))

        # ---------------------------------------------------------------- configure
        cf = find_func(cls, "configure")
        found = {"patcher": False, "extra": False}
        for s in cf.body:
            if isinstance(s, ast.If) and _u(s.test) == "patcher is not None":
                inner = s.body
                if len(inner) == 1 and isinstance(inner[0], ast.With):
                    inner = inner[0].body
                if [_u(x) for x in inner] != ["self._core.patcher = patcher"]:
                    raise Unsupported("configure: patcher branch changed")
                found["patcher"] = True
            if isinstance(s, ast.If) and _u(s.test) == "extra is not None":
                inner = s.body
                if len(inner) == 1 and isinstance(inner[0], ast.With):
                    inner = inner[0].body
                srcs = [_u(x) for x in inner]
                if srcs not in (["self._core.extra.clear()", "self._core.extra.update(extra)"],
                                ["self._core.extra = dict(extra)"], ["self._core.extra = {**extra}"]):
                    raise Unsupported("configure: extra branch changed: %r" % srcs)
                found["extra"] = True
        if not all(found.values()):
            raise Unsupported("configure: branches not found %r" % found)
    except (Unsupported, SyntaxError, KeyError, AttributeError, IndexError, OSError) as e:
        errors.append("%s: %s" % (type(e).__name__, e))
    body += "end Context.Gen\n"
    return emit("Context", body, ["loguru/_logger.py", "loguru/_contextvars.py", "loguru/__init__.py"], errors)
