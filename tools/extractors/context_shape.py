"""Generated/Context.lean from loguru/_logger.py + loguru/_contextvars.py (C12, tie G).

What is extracted (the hand model `Context/Model.lean` is *defined in terms of* these):
  recordLayers   operand order of the dict display that builds record["extra"] in Logger._log
  bindOperands   operand order of the dict display in Logger.bind
  ctxOperands    operand order of the dict display in Logger.contextualize
  patchOperands  operand order of the list display in Logger.patch
  kwargsShadow   for bind / contextualize / the logging methods: the keyword names their own named parameters
                 (after name mangling) take away from **kwargs, i.e. keys that cannot reach `extra` that way
  configureCopies whether configure(extra=) stores a copy of its argument (never the caller's dict itself)
  patchDedup     whether Logger.patch skips a patcher that is already (==) in the list
  logPhases      relative order of `core.patcher(...)`, `for patcher in patchers`, `for handler in ...emit`
  resetOn        the ways of leaving a contextualize block (normal / Exception / BaseException) that run
                 `context.reset(token)`
  optDefaults    the defaults of opt()'s keyword-only parameters (checked equal to the root logger's
                 options in loguru/__init__.py, which also has patchers=[] and extra={})

What is only checked for shape (fail closed, nothing generated from it):
  * `context` is a module-level `ContextVar(..., default={})`, `ContextVar` comes from `._contextvars`,
    which returns `contextvars.ContextVar` for Python >= 3.7;
  * `contextualize` is a `contextlib.contextmanager` generator made of: (optionally under the core lock)
    `token = context.set(<display>)`, then a `try: yield` whose finally / else / `except [Base]Exception:
    reset; raise` clauses each consist of `context.reset(token)` (optionally under the lock); WHICH ways of
    leaving the block (normal, Exception, BaseException) reach a reset is generated as `resetOn` and the
    theorems need all three;
  * `bind`, `patch`, `opt` unpack `_options` positionally and return ONE `Logger(self._core, ...)` call
    whose arguments are fresh displays / names in the `_options` order – no method call on, no
    subscript-store into, no augmented assignment to the receiver's containers;
  * `Logger.__init__` stores `_options` as the 9-tuple in the documented order;
  * in `_log`: `kwargs` reach `extra` only through `if capture and kwargs: log_record["extra"].update(kwargs)`
    placed after the record display and before the three trailing phases; `configure` replaces
    `core.extra` by clear()+update(extra) and `core.patcher` by assignment, both only `if ... is not None`.
"""
import ast

from extract_lib import Unsupported, emit, find_class, find_func, lean_chars, parse_module

OPTION_NAMES = ["exception", "depth", "record", "lazy", "colors", "raw", "capture", "patchers", "extra"]


def _u(node):
    return ast.unparse(node)


import copy


class _Rename(ast.NodeTransformer):
    def __init__(self, mapping):
        self.m = mapping

    def visit_Name(self, node):
        if node.id in self.m:
            return ast.copy_location(ast.Name(id=self.m[node.id], ctx=node.ctx), node)
        return node

    def visit_arg(self, node):
        if node.arg in self.m:
            node.arg = self.m[node.arg]
        return node


def _names_in(fn):
    out = set()
    for n in ast.walk(fn):
        if isinstance(n, ast.Name):
            out.add(n.id)
        elif isinstance(n, ast.arg):
            out.add(n.arg)
    return out


def _rename(fn, mapping, what):
    """alpha-rename locals/parameters; refuses (fail closed) when a canonical name is already used for
    something else in the function – merging two variables could make a wrong body look right"""
    mapping = {a: b for a, b in mapping.items() if a != b}
    used = _names_in(fn)
    for a, b in mapping.items():
        if b in used and b not in mapping:
            raise Unsupported("%s: cannot normalise local `%s` to `%s` (name already in use)" % (what, a, b))
    if len(set(mapping.values())) != len(mapping):
        raise Unsupported("%s: ambiguous renaming %r" % (what, mapping))
    return ast.fix_missing_locations(_Rename(mapping).visit(fn))


class _Inline(ast.NodeTransformer):
    def __init__(self, name, expr):
        self.name, self.expr = name, expr

    def visit_Name(self, node):
        if node.id == self.name and isinstance(node.ctx, ast.Load):
            return copy.deepcopy(self.expr)
        return node


def _inline_receiver_aliases(fn, what):
    """`x = SELF._core` / `x = SELF._options` (assigned once, at the top level of the function, never
    rebound) is an alias of an attribute that only __init__ sets: replace x by the attribute"""
    changed = True
    while changed:
        changed = False
        for i, st in enumerate(fn.body):
            if isinstance(st, ast.Assign) and len(st.targets) == 1 and isinstance(st.targets[0], ast.Name) \
                    and _u(st.value) in ("SELF._core", "SELF._options"):
                name = st.targets[0].id
                stores = [n for n in ast.walk(fn) if isinstance(n, ast.Name) and n.id == name
                          and isinstance(n.ctx, (ast.Store, ast.Del))]
                params = [a for a in ast.walk(fn.args) if isinstance(a, ast.arg) and a.arg == name]
                if len(stores) != 1 or params:
                    raise Unsupported("%s: alias `%s` of %s is rebound" % (what, name, _u(st.value)))
                del fn.body[i]
                _Inline(name, st.value).visit(fn)
                ast.fix_missing_locations(fn)
                changed = True
                break
    return fn


def _normalise(fn, what, extra_map=None):
    """copy of fn with the receiver called SELF, **kwargs called kwargs, receiver aliases inlined"""
    fn = copy.deepcopy(fn)
    mapping = {_receiver(fn): "SELF"}
    if fn.args.kwarg is not None:
        mapping[fn.args.kwarg.arg] = "kwargs"
    mapping.update(extra_map or {})
    fn = _rename(fn, mapping, what)
    return _inline_receiver_aliases(fn, what)


def _import_table(tree):
    """module-level name -> dotted origin (`import m [as a]`, `from m import n [as a]`)"""
    tab = {}
    for node in tree.body:
        if isinstance(node, ast.Import):
            for a in node.names:
                tab[a.asname or a.name.split(".")[0]] = a.name if a.asname else a.name.split(".")[0]
        elif isinstance(node, ast.ImportFrom):
            for a in node.names:
                tab[a.asname or a.name] = "%s%s.%s" % ("." * node.level, node.module or "", a.name)
    for node in tree.body:   # a module-level rebinding of an imported name invalidates the entry
        tg = []
        if isinstance(node, ast.Assign):
            tg = [t.id for t in node.targets if isinstance(t, ast.Name)]
        elif isinstance(node, (ast.FunctionDef, ast.ClassDef, ast.AsyncFunctionDef)):
            tg = [node.name]
        for t in tg:
            tab.pop(t, None)
    return tab


def _origin(tree_tab, expr):
    """dotted origin of a Name / Attribute expression, through the import table"""
    parts = []
    while isinstance(expr, ast.Attribute):
        parts.append(expr.attr)
        expr = expr.value
    if not isinstance(expr, ast.Name) or expr.id not in tree_tab:
        return None
    return ".".join([tree_tab[expr.id]] + parts[::-1])


_VERSION_NODES = (ast.Expression, ast.Compare, ast.BoolOp, ast.And, ast.Or, ast.Not, ast.UnaryOp, ast.Tuple,
                  ast.Constant, ast.Attribute, ast.Name, ast.Load, ast.GtE, ast.Gt, ast.LtE, ast.Lt, ast.Eq,
                  ast.NotEq)


def _contextvar_origin(cvtree, version):
    """which module `load_contextvar_class()` imports ContextVar from on the given Python version: the
    function must be an if/elif/else chain over `sys.version_info` comparisons whose branches are single
    `from X import ContextVar` statements (possibly followed by / ending in `return ContextVar`)"""
    loader = find_func(cvtree, "load_contextvar_class")

    class _Sys:
        version_info = version

    def walk(stmts):
        for st in stmts:
            if isinstance(st, ast.If):
                for n in ast.walk(st.test):
                    if not isinstance(n, _VERSION_NODES) or (isinstance(n, ast.Name) and n.id != "sys") or \
                            (isinstance(n, ast.Attribute) and _u(n) != "sys.version_info"):
                        raise Unsupported("_contextvars: test %s is not a version comparison" % _u(st.test))
                taken = eval(compile(ast.Expression(st.test), "<test>", "eval"), {"__builtins__": {}, "sys": _Sys})
                r = walk(st.body if taken else st.orelse)
                if r is not None:
                    return r
            elif isinstance(st, ast.ImportFrom) and [a.name for a in st.names] == ["ContextVar"] \
                    and st.names[0].asname is None and st.level == 0:
                walk.src = st.module
            elif isinstance(st, ast.Return) and _u(st.value) == "ContextVar":
                return walk.src
            else:
                raise Unsupported("_contextvars.load_contextvar_class: unexpected statement " + _u(st)[:60])
        return None
    walk.src = None
    return walk(_strip_doc(loader.body))


def _unpack_map(fn, canon, what):
    """first statement `*a, b, … = SELF._options` -> {a: canon[0], b: canon[1], …}"""
    body = _strip_doc(fn.body)
    st = body[0] if body else None
    if not (isinstance(st, ast.Assign) and len(st.targets) == 1 and isinstance(st.targets[0], ast.Tuple)
            and _u(st.value) == "SELF._options"):
        raise Unsupported("%s does not start by unpacking its _options" % what)
    elts = st.targets[0].elts
    if len(elts) != len(canon) or not isinstance(elts[0], ast.Starred) or \
            not all(isinstance(e, ast.Name) for e in [elts[0].value] + elts[1:]):
        raise Unsupported("%s: unexpected unpacking %s" % (what, _u(st)))
    return dict(zip([elts[0].value.id] + [e.id for e in elts[1:]], canon))


def _receiver(fn):
    """name of the first parameter (positional-only or not)"""
    return (fn.args.posonlyargs + fn.args.args)[0].arg


def _strip_doc(body):
    if body and isinstance(body[0], ast.Expr) and isinstance(body[0].value, ast.Constant) \
            and isinstance(body[0].value.value, str):
        return body[1:]
    return body


def _dict_operands(node, what):
    """{**A, **B, ...} -> [src(A), src(B), ...]"""
    if not (isinstance(node, ast.Dict) and node.keys and all(k is None for k in node.keys)):
        raise Unsupported("%s is not a dict display of starred operands: %s" % (what, _u(node)))
    return [_u(v) for v in node.values]


def _list_operands(node, what):
    """[*A, b]  or  A + [b]  or  [b] + A  ->  list of ('star', src) / ('item', src)"""
    if isinstance(node, ast.List):
        out = []
        for e in node.elts:
            if isinstance(e, ast.Starred):
                out.append(("star", _u(e.value)))
            else:
                out.append(("item", _u(e)))
        return out
    if isinstance(node, ast.BinOp) and isinstance(node.op, ast.Add):
        out = []
        for side in (node.left, node.right):
            if isinstance(side, ast.Name):
                out.append(("star", side.id))
            elif isinstance(side, ast.List) and len(side.elts) == 1 and not isinstance(side.elts[0], ast.Starred):
                out.append(("item", _u(side.elts[0])))
            elif isinstance(side, ast.Call) and _u(side.func) == "list" and len(side.args) == 1:
                out.append(("star", _u(side.args[0])))
            else:
                raise Unsupported("%s operand %s" % (what, _u(side)))
        return out
    raise Unsupported("%s is not a list display: %s" % (what, _u(node)))


def _dexpr(node, table, what, listy=False):
    """shape of an expression yielding a container: a display (always a NEW object), a bare name (the very
    object), a conditional expression of such -> (Lean `DExpr` term, operands of the leftmost display or None)"""
    if isinstance(node, ast.IfExp):
        t, ops1 = _dexpr(node.body, table, what, listy)
        e, ops2 = _dexpr(node.orelse, table, what, listy)
        return "(DExpr.ite %s %s)" % (t, e), (ops1 if ops1 is not None else ops2)
    if isinstance(node, ast.Name) or (isinstance(node, (ast.Call, ast.Attribute)) and _u(node) in table):
        if _u(node) not in table:
            raise Unsupported("%s: unknown operand %s" % (what, _u(node)))
        return "(DExpr.alias %s)" % table[_u(node)], None
    if listy:
        pops = _list_operands(node, what)
        names = []
        for k, src in pops:
            if src not in table:
                raise Unsupported("%s: unknown operand %s" % (what, src))
            names.append(table[src])
        return "(DExpr.display %s)" % _lean_list(names), pops
    ops = _dict_operands(node, what)
    for o in ops:
        if o not in table:
            raise Unsupported("%s: unknown operand %s" % (what, o))
    return "(DExpr.display %s)" % _lean_list([table[o] for o in ops]), ops


def _is_lazy_comp(v):
    """{key: value() for key, value in kwargs.items()} – every callable called exactly once"""
    if not (isinstance(v, ast.DictComp) and len(v.generators) == 1 and not v.generators[0].ifs
            and not v.generators[0].is_async and _u(v.generators[0].iter) == "kwargs.items()"
            and isinstance(v.generators[0].target, ast.Tuple) and len(v.generators[0].target.elts) == 2):
        return False
    kn, vn = [_u(e) for e in v.generators[0].target.elts]
    return _u(v.key) == kn and _u(v.value) == vn + "()"


def _lazy_stage(s):
    """`if lazy: … kwargs = {k: v() for k, v in kwargs.items()}` or `kwargs = {…} if lazy else kwargs`; a statement
    that rebinds kwargs under `lazy` in any other way is refused (fail closed)"""
    if isinstance(s, ast.If) and _u(s.test) == "lazy" and not s.orelse:
        hits = [x for x in s.body if isinstance(x, ast.Assign) and _u(x.targets[0]) == "kwargs"]
        if not hits:
            return False
        if len(hits) != 1 or not _is_lazy_comp(hits[0].value):
            raise Unsupported("_log: lazy evaluation of kwargs changed: " + _u(hits[0])[:80])
        return True
    if isinstance(s, ast.Assign) and _u(s.targets[0]) == "kwargs" and isinstance(s.value, ast.IfExp) \
            and _u(s.value.test) == "lazy":
        if not (_is_lazy_comp(s.value.body) and _u(s.value.orelse) == "kwargs"):
            raise Unsupported("_log: lazy evaluation of kwargs changed: " + _u(s)[:80])
        return True
    return False


def _record_stage(s):
    """`if record: … kwargs.update(record=log_record)` (or `kwargs["record"] = log_record`)"""
    if isinstance(s, ast.If) and _u(s.test) == "record" and not s.orelse and s.body:
        return _u(s.body[-1]) in ("kwargs.update(record=log_record)", "kwargs['record'] = log_record")
    return False


def _no_mutation(fn, names, what):
    """no statement of fn mutates one of the named containers"""
    for node in ast.walk(fn):
        if isinstance(node, ast.Call) and isinstance(node.func, ast.Attribute) \
                and isinstance(node.func.value, ast.Name) and node.func.value.id in names:
            raise Unsupported("%s calls a method on %s: %s" % (what, node.func.value.id, _u(node)))
        if isinstance(node, (ast.AugAssign,)) and _u(node.target).split("[")[0].split(".")[0] in names:
            raise Unsupported("%s augments %s" % (what, _u(node.target)))
        if isinstance(node, (ast.Assign, ast.Delete)):
            for t in node.targets:
                if isinstance(t, ast.Subscript) and isinstance(t.value, ast.Name) and t.value.id in names:
                    raise Unsupported("%s stores into %s" % (what, _u(t)))


def _single_return_logger(body, what, selfname):
    """[unpack-assign, return Logger(self._core, ...)] -> (assign, call)"""
    body = [s for s in body if not (isinstance(s, ast.If) and "ansi" in _u(s.test))]  # opt()'s deprecated alias
    if len(body) != 2 or not isinstance(body[0], ast.Assign) or not isinstance(body[1], ast.Return):
        raise Unsupported("%s body is not `<unpack _options>; return Logger(...)`" % what)
    call = body[1].value
    if not (isinstance(call, ast.Call) and _u(call.func) == "Logger" and not call.keywords and call.args
            and _u(call.args[0]) == selfname + "._core"):
        raise Unsupported("%s does not return Logger(%s._core, ...)" % (what, selfname))
    return body[0], call


def _lean_list(items):
    return "[" + ", ".join(items) + "]"


def generate():
    errors = []
    body = "import LoguruModel.Context.Base\nnamespace Context.Gen\nopen Context\n\n"
    try:
        tree, _ = parse_module("_logger.py")
        cls = find_class(tree, "Logger")

        # ---------------------------------------------------------------- the ContextVar
        ctxassign = None
        for node in tree.body:
            if isinstance(node, ast.Assign) and len(node.targets) == 1 and _u(node.targets[0]) == "context":
                ctxassign = node.value
        if ctxassign is None or not (isinstance(ctxassign, ast.Call) and _u(ctxassign.func) == "ContextVar"
                                     and len(ctxassign.args) == 1
                                     and [k.arg for k in ctxassign.keywords] == ["default"]
                                     and _u(ctxassign.keywords[0].value) == "{}"):
            raise Unsupported("module-level `context` is not ContextVar(name, default={}): %s"
                              % (_u(ctxassign) if ctxassign is not None else None))
        imports = _import_table(tree)
        cv_origin = imports.get("ContextVar")
        if cv_origin == "._contextvars.ContextVar":
            cvtree, _ = parse_module("_contextvars.py")
            if not any(isinstance(n, ast.Assign) and _u(n) == "ContextVar = load_contextvar_class()"
                       for n in cvtree.body):
                raise Unsupported("_contextvars.ContextVar is not load_contextvar_class()")
            import sys as _sys
            for ver in sorted({(3, 7, 0), (3, 8, 0), (3, 11, 5), (3, 12, 0), (3, 13, 1), (3, 99, 0),
                               tuple(_sys.version_info[:3])}):
                if ver >= (3, 7) and _contextvar_origin(cvtree, ver) != "contextvars":
                    raise Unsupported("_contextvars.load_contextvar_class imports ContextVar from %r on Python %r"
                                      % (_contextvar_origin(cvtree, ver), ver))
        elif cv_origin != "contextvars.ContextVar":
            raise Unsupported("ContextVar comes from %r, not from contextvars (directly or via ._contextvars)"
                              % cv_origin)
        # functions that assign to / declare global `context` (other than a parameter of that name)
        for fn in ast.walk(tree):
            if isinstance(fn, (ast.FunctionDef, ast.AsyncFunctionDef)):
                params = {a.arg for a in fn.args.args + fn.args.kwonlyargs}
                for node in ast.walk(fn):
                    if isinstance(node, ast.Global) and "context" in node.names:
                        raise Unsupported("%s declares `global context`" % fn.name)
                    if isinstance(node, ast.Assign) and any(_u(t) == "context" for t in node.targets) \
                            and "context" not in params:
                        raise Unsupported("%s rebinds `context`" % fn.name)

        # ---------------------------------------------------------------- Logger.__init__
        init = find_func(cls, "__init__")
        want = "self._options = (%s)" % ", ".join(OPTION_NAMES)
        if not any(_u(s) == want for s in init.body):
            raise Unsupported("Logger.__init__ does not store `%s`" % want)
        if [a.arg for a in init.args.args] != ["self", "core"] + OPTION_NAMES:
            raise Unsupported("Logger.__init__ parameters changed")

        # ---------------------------------------------------------------- bind
        bind = _normalise(find_func(cls, "bind"), "bind")
        bind = _rename(bind, _unpack_map(bind, ["options", "extra"], "bind"), "bind")
        me = "SELF"
        asg, call = _single_return_logger(_strip_doc(bind.body), "bind", me)
        if _u(asg) != "*options, extra = %s._options" % me:
            raise Unsupported("bind unpacking: " + _u(asg))
        if len(call.args) != 3 or _u(call.args[1]) != "*options":
            raise Unsupported("bind: Logger arguments " + _u(call))
        table = {"extra": "Src.old", "kwargs": "Src.kwargs"}
        bind_expr, ops = _dexpr(call.args[2], table, "bind's new extra")
        if ops is None or sorted(ops) != ["extra", "kwargs"]:
            raise Unsupported("bind operands " + repr(ops))
        if bind.args.kwarg is None or bind.args.kwarg.arg != "kwargs":
            raise Unsupported("bind has no **kwargs")
        _no_mutation(bind, {"extra", "options"}, "bind")
        body += "/-- `bind`: %s -/\ndef bindOperands : List Src := %s\n\n" % (
            _u(call.args[2]), _lean_list([table[o] for o in ops]))
        body += ("/-- `bind`: shape of the expression that becomes the new logger's `extra` (a display builds a NEW "
                 "dict; a bare name would hand over the receiver's own dict) -/\n"
                 "def bindExtraExpr : DExpr Src := %s\n\n" % bind_expr)

        # ---------------------------------------------------------------- patch
        patch = find_func(cls, "patch")
        ppar = patch.args.posonlyargs + patch.args.args
        if len(ppar) != 2 or patch.args.vararg or patch.args.kwarg or patch.args.kwonlyargs:
            raise Unsupported("patch signature")
        patch = _normalise(patch, "patch", {ppar[1].arg: "patcher"})
        patch = _rename(patch, _unpack_map(patch, ["options", "patchers", "extra"], "patch"), "patch")
        me = "SELF"
        pbody = _strip_doc(patch.body)
        dedup = False
        if len(pbody) == 3 and isinstance(pbody[1], ast.If):
            # `if patcher not in patchers: patchers = <display>` – a patcher equal to one already attached is
            # dropped (the local name is rebound, nothing is mutated); mirrored by the model as patchDedup
            g = pbody[1]
            if _u(g.test) != "patcher not in patchers" or g.orelse or len(g.body) != 1 \
                    or not isinstance(g.body[0], ast.Assign) or _u(g.body[0].targets[0]) != "patchers":
                raise Unsupported("patch: unexpected guard " + _u(g)[:80])
            asg, call = _single_return_logger([pbody[0], pbody[2]], "patch", me)
            if _u(call.args[2]) != "patchers":
                raise Unsupported("patch: Logger arguments " + _u(call))
            newlist = g.body[0].value
            dedup = True
        else:
            asg, call = _single_return_logger(pbody, "patch", me)
            newlist = call.args[2] if len(call.args) == 4 else None
        if _u(asg) != "*options, patchers, extra = %s._options" % me:
            raise Unsupported("patch unpacking: " + _u(asg))
        if len(call.args) != 4 or _u(call.args[1]) != "*options" or _u(call.args[3]) != "extra":
            raise Unsupported("patch: Logger arguments " + _u(call))
        patch_expr, pops = _dexpr(newlist, {"patchers": "PSrc.old", "patcher": "PSrc.new"},
                                  "patch's new patcher list", listy=True)
        if pops is None or sorted(pops) != [("item", "patcher"), ("star", "patchers")]:
            raise Unsupported("patch operands " + repr(pops))
        _no_mutation(patch, {"patchers", "extra", "options"}, "patch")
        body += "/-- `patch`: %s -/\ndef patchOperands : List PSrc := %s\n\n" % (
            _u(newlist), _lean_list(["PSrc.old" if k == "star" else "PSrc.new" for k, _ in pops]))
        body += ("/-- `patch`: shape of the expression that becomes the new logger's patcher list -/\n"
                 "def patchListExpr : DExpr PSrc := %s\n\n" % patch_expr)
        body += ("/-- `patch`: is the new patcher skipped when an equal one is already attached "
                 "(`if patcher not in patchers`)? -/\ndef patchDedup : Bool := %s\n\n" % ("true" if dedup else "false"))

        # ---------------------------------------------------------------- opt
        opt = _normalise(find_func(cls, "opt"), "opt")
        for st in _strip_doc(opt.body):
            if isinstance(st, ast.Assign) and len(st.targets) == 1 and isinstance(st.targets[0], ast.Name) \
                    and _u(st.value) == "SELF._options[-2:]":
                opt = _rename(opt, {st.targets[0].id: "args"}, "opt")
                break
        me = "SELF"
        asg, call = _single_return_logger(_strip_doc(opt.body), "opt", me)
        if _u(asg) != "args = %s._options[-2:]" % me:
            raise Unsupported("opt unpacking: " + _u(asg))
        if [_u(a) for a in call.args[1:]] != OPTION_NAMES[:7] + ["*args"]:
            raise Unsupported("opt: Logger arguments " + _u(call))
        _no_mutation(opt, {"args"}, "opt")
        if (opt.args.posonlyargs + opt.args.args)[1:] or opt.args.vararg or opt.args.kwarg:
            raise Unsupported("opt takes positional parameters")
        defaults = {}
        for a, d in zip(opt.args.kwonlyargs, opt.args.kw_defaults):
            if not isinstance(d, ast.Constant):
                raise Unsupported("opt default of %s" % a.arg)
            defaults[a.arg] = d.value
        if sorted(defaults) != sorted(OPTION_NAMES[:7] + ["ansi"]):
            raise Unsupported("opt keyword-only parameters: %r" % sorted(defaults))

        def b(v):
            if v is True:
                return "true"
            if v is False:
                return "false"
            raise Unsupported("non-bool default %r" % (v,))
        exc = {None: 0, False: 1, True: 2}.get(defaults["exception"], None) \
            if defaults["exception"] in (None, False, True) else None
        if exc is None or not isinstance(defaults["depth"], int) or isinstance(defaults["depth"], bool):
            raise Unsupported("opt defaults of exception/depth")
        # the root logger of loguru/__init__.py is built with exactly these defaults, no patcher, no extra
        itree, _ = parse_module("__init__.py")
        root = None
        for node in itree.body:
            if isinstance(node, ast.Assign) and _u(node.targets[0]) == "logger" and isinstance(node.value, ast.Call):
                root = node.value
        if root is None or _u(root.func) != "_Logger" or root.args:
            raise Unsupported("__init__.py: `logger = _Logger(...)` with keyword arguments not found")
        rootkw = {k.arg: _u(k.value) for k in root.keywords}
        wantkw = {"core": "_Core()", "patchers": "[]", "extra": "{}"}
        for name in OPTION_NAMES[:7]:
            wantkw[name] = repr(defaults[name])
        if rootkw != wantkw:
            raise Unsupported("__init__.py: root logger options %r differ from opt() defaults %r" % (rootkw, wantkw))
        body += "/-- defaults of `opt()`'s keyword-only parameters (= the options of the root logger) -/\n"
        body += ("def optDefaults : Flags := { exception := %d, depth := %d, record := %s, lazy := %s, "
                 "colors := %s, raw := %s, capture := %s }\n\n") % (
            exc, defaults["depth"], b(defaults["record"]), b(defaults["lazy"]), b(defaults["colors"]),
            b(defaults["raw"]), b(defaults["capture"]))

        # ---------------------------------------------------------------- contextualize
        cz = _normalise(find_func(cls, "contextualize"), "contextualize")
        for st in ast.walk(cz):
            if isinstance(st, ast.Assign) and len(st.targets) == 1 and isinstance(st.targets[0], ast.Name) \
                    and isinstance(st.value, ast.Call) and _u(st.value.func) == "context.set":
                cz = _rename(cz, {st.targets[0].id: "token"}, "contextualize")
                break
        me = "SELF"
        if [_origin(imports, d) for d in cz.decorator_list] != ["contextlib.contextmanager"]:
            raise Unsupported("contextualize decorators: %r" % [_u(d) for d in cz.decorator_list])
        if cz.args.kwarg is None or cz.args.kwarg.arg != "kwargs" or len(cz.args.posonlyargs + cz.args.args) != 1:
            raise Unsupported("contextualize signature")
        lockname = "%s._core.lock" % me

        def unlock(stmts):
            """flatten `with <core lock>:` wrappers"""
            out = []
            for s in stmts:
                if isinstance(s, ast.With) and len(s.items) == 1 and _u(s.items[0].context_expr) == lockname \
                        and s.items[0].optional_vars is None:
                    out += unlock(s.body)
                else:
                    out.append(s)
            return out
        stmts = unlock(_strip_doc(cz.body))
        if not stmts or not isinstance(stmts[-1], ast.Try):
            raise Unsupported("contextualize does not end with try/finally")
        pre, tr = stmts[:-1], stmts[-1]
        if len(tr.body) != 1 or _u(tr.body[0]) != "yield":
            raise Unsupported("contextualize: try body is not a bare `yield`")

        def is_reset(stmts_):
            return [_u(x) for x in unlock(stmts_)] == ["context.reset(token)"]
        # which ways of leaving the block run `context.reset(token)`:
        #   finally           -> normal, Exception, BaseException
        #   else              -> normal
        #   except Exception: reset; raise      -> Exception
        #   except BaseException / bare except: reset; raise  -> Exception, BaseException
        reset_on = []
        if tr.finalbody:
            if not is_reset(tr.finalbody):
                raise Unsupported("contextualize: finally is not `context.reset(token)`: %r"
                                  % [_u(x) for x in unlock(tr.finalbody)])
            reset_on += ["ExitKind.normal", "ExitKind.exception", "ExitKind.baseException"]
        if tr.orelse:
            if not is_reset(tr.orelse):
                raise Unsupported("contextualize: else branch is not `context.reset(token)`")
            reset_on.append("ExitKind.normal")
        caught = set()
        for h in tr.handlers:
            hb = unlock(h.body)
            if h.name is not None or len(hb) != 2 or _u(hb[0]) != "context.reset(token)" or _u(hb[1]) != "raise":
                raise Unsupported("contextualize: handler is not `except X: context.reset(token); raise`")
            t = None if h.type is None else _u(h.type)
            if t == "Exception":
                kinds = ["ExitKind.exception"]
            elif t in (None, "BaseException"):
                kinds = ["ExitKind.exception", "ExitKind.baseException"]
            else:
                raise Unsupported("contextualize: handler for %s" % t)
            reset_on += [k for k in kinds if k not in caught]   # an earlier handler wins
            caught.update(kinds)
        if len(set(reset_on)) != len(reset_on):
            raise Unsupported("contextualize: some way of leaving the block resets the token twice: %r" % reset_on)
        body += ("/-- `contextualize`: the ways of leaving the block after which `context.reset(token)` runs\n"
                 "(try/finally: all of them) -/\ndef resetOn : List ExitKind := %s\n\n" % _lean_list(reset_on))
        display = None
        if len(pre) == 2 and isinstance(pre[0], ast.Assign) and len(pre[0].targets) == 1 \
                and isinstance(pre[0].targets[0], ast.Name) \
                and _u(pre[1]) == "token = context.set(%s)" % pre[0].targets[0].id:
            display = pre[0].value
        elif len(pre) == 1 and isinstance(pre[0], ast.Assign) and _u(pre[0].targets[0]) == "token" \
                and isinstance(pre[0].value, ast.Call) and _u(pre[0].value.func) == "context.set" \
                and len(pre[0].value.args) == 1:
            display = pre[0].value.args[0]
        if display is None:
            raise Unsupported("contextualize: prologue is not `token = context.set({...})`: %r" % [_u(s) for s in pre])
        ctable = {"context.get()": "Src.old", "kwargs": "Src.kwargs"}
        ctx_expr, cops = _dexpr(display, ctable, "contextualize's new context")
        if cops is None or sorted(cops) != ["context.get()", "kwargs"]:
            raise Unsupported("contextualize operands " + repr(cops))
        body += "/-- `contextualize`: %s -/\ndef ctxOperands : List Src := %s\n\n" % (
            _u(display), _lean_list([ctable[o] for o in cops]))
        body += ("/-- `contextualize`: shape of the expression handed to `context.set` -/\n"
                 "def ctxValueExpr : DExpr Src := %s\n\n" % ctx_expr)

        # ---------------------------------------------------------------- _log
        lg = find_func(cls, "_log")
        lpar = lg.args.posonlyargs + lg.args.args
        canon_par = ["SELF", "level", "from_decorator", "options", "message", "args", "kwargs"]
        if len(lpar) != len(canon_par) or lg.args.vararg or lg.args.kwarg or lg.args.kwonlyargs:
            raise Unsupported("_log signature")
        lg = _normalise(lg, "_log", dict(zip([a.arg for a in lpar[1:]], canon_par[1:])))
        lmap = {}
        for st in lg.body:
            if isinstance(st, ast.Assign) and len(st.targets) == 1 and _u(st.value) == "options" \
                    and isinstance(st.targets[0], ast.Tuple) and len(st.targets[0].elts) == len(OPTION_NAMES) \
                    and all(isinstance(e, ast.Name) for e in st.targets[0].elts):
                lmap.update(zip([e.id for e in st.targets[0].elts], OPTION_NAMES))
            if isinstance(st, ast.Assign) and len(st.targets) == 1 and isinstance(st.targets[0], ast.Name) \
                    and isinstance(st.value, ast.Dict) \
                    and {"extra", "message"} <= {k.value for k in st.value.keys if isinstance(k, ast.Constant)}:
                lmap[st.targets[0].id] = "log_record"
        # `exception` is rebound inside _log (RecordException) and `record`/`args`/`kwargs` are reused: the
        # renaming below only canonicalises the NAMES, all uses follow
        lg = _rename(lg, lmap, "_log")
        top = lg.body
        idx = {}
        for i, s in enumerate(top):
            src = _u(s)
            if isinstance(s, ast.Assign) and _u(s.targets[0]) == "log_record" and isinstance(s.value, ast.Dict):
                idx["record"] = i
                rec = s.value
            elif src == "(%s) = options" % ", ".join(OPTION_NAMES) or src == "%s = options" % ", ".join(OPTION_NAMES):
                idx["unpack"] = i
            elif isinstance(s, ast.If) and _u(s.test) == "capture and kwargs":
                if [_u(x) for x in s.body] != ["log_record['extra'].update(kwargs)"] or s.orelse:
                    raise Unsupported("_log: capture branch is %r" % [_u(x) for x in s.body])
                idx["capture"] = i
                idx["KwStage.capture"] = i
            elif isinstance(s, ast.If) and _u(s.test) in ("SELF._core.patcher", "SELF._core.patcher is not None"):
                if [_u(x) for x in s.body] != ["SELF._core.patcher(log_record)"] or s.orelse:
                    raise Unsupported("_log: core.patcher branch changed")
                idx["Phase.corePatcher"] = i
                guard_kind = "PatcherGuard.truthy" if _u(s.test) == "SELF._core.patcher" else "PatcherGuard.isNotNone"
            elif _lazy_stage(s):
                idx["KwStage.lazyEval"] = i
            elif _record_stage(s):
                idx["KwStage.recordInject"] = i
            elif isinstance(s, ast.For) and _u(s.iter) == "patchers":
                if [_u(x) for x in s.body] != ["%s(log_record)" % _u(s.target)] or s.orelse:
                    raise Unsupported("_log: patchers loop changed")
                idx["Phase.patchers"] = i
            elif isinstance(s, ast.For) and _u(s.iter) == "SELF._core.handlers.values()":
                if len(s.body) != 1 or not _u(s.body[0]).startswith("%s.emit(log_record, " % _u(s.target)) or s.orelse:
                    raise Unsupported("_log: handler loop changed")
                idx["Phase.handlers"] = i
        need = ["unpack", "record", "capture", "Phase.corePatcher", "Phase.patchers", "Phase.handlers"]
        missing = [n for n in need + ["KwStage.lazyEval", "KwStage.recordInject"] if n not in idx]
        if missing:
            raise Unsupported("_log: statements not found at top level: %r" % missing)
        if not (idx["record"] < min(idx["KwStage.lazyEval"], idx["KwStage.recordInject"])
                and max(idx["KwStage.lazyEval"], idx["KwStage.recordInject"]) < min(idx[p] for p in need[3:])):
            raise Unsupported("_log: lazy evaluation / record injection are not between the record display and the phases")
        if not (idx["unpack"] < idx["record"] < idx["capture"] < min(idx[p] for p in need[3:])):
            raise Unsupported("_log: record display / capture update are not before the trailing phases")
        phases = sorted(need[3:], key=lambda p: idx[p])
        if max(idx[p] for p in need[3:]) != len(top) - 1 or \
                sorted(idx[p] for p in need[3:]) != list(range(len(top) - 3, len(top))):
            raise Unsupported("_log: the three trailing phases are not the last three statements")
        extra_val = None
        for k, v in zip(rec.keys, rec.values):
            if isinstance(k, ast.Constant) and k.value == "extra":
                extra_val = v
        if extra_val is None:
            raise Unsupported("_log: no 'extra' entry in the record display")
        ltable = {"SELF._core.extra": "Layer.core", "context.get()": "Layer.ctx", "extra": "Layer.bound"}
        rec_expr, lops = _dexpr(extra_val, ltable, "record['extra']")
        if lops is None or sorted(lops) != sorted(ltable):
            raise Unsupported("_log extra operands " + repr(lops))
        # nothing else touches log_record['extra'] / rebinding of extra, kwargs->extra between record and phases
        for s in top[idx["record"] + 1:len(top) - 3]:
            if s is top[idx["capture"]]:
                continue
            for node in ast.walk(s):
                if isinstance(node, ast.Subscript) and _u(node) == "log_record['extra']":
                    raise Unsupported("_log: another statement touches log_record['extra']: " + _u(s)[:80])
        for s in top[idx["unpack"] + 1:idx["record"]]:
            for node in ast.walk(s):
                if isinstance(node, ast.Assign) and any(_u(t) in ("extra", "patchers", "capture") for t in node.targets):
                    raise Unsupported("_log rebinds extra/patchers/capture before use")
        _no_mutation(lg, {"extra", "patchers"}, "_log")
        body += "/-- `_log`: \"extra\": %s -/\ndef recordLayers : List Layer := %s\n\n" % (
            _u(extra_val), _lean_list([ltable[o] for o in lops]))
        body += "/-- `_log`: order of the trailing statements -/\ndef logPhases : List Phase := %s\n\n" % _lean_list(phases)
        body += ("/-- `_log`: shape of the expression stored as `log_record[\"extra\"]` (a display: a NEW dict for every "
                 "logging call) -/\ndef recordExtraExpr : DExpr Layer := %s\n\n" % rec_expr)
        body += ("/-- `_log`: the test that guards the call of the configured patcher (`if core.patcher:` is the truth "
                 "value of the callable) -/\ndef corePatcherGuard : PatcherGuard := %s\n\n" % guard_kind)
        stages = sorted(["KwStage.lazyEval", "KwStage.capture", "KwStage.recordInject"], key=lambda p: idx[p])
        body += ("/-- `_log`: order of the statements that evaluate lazy kwargs, copy kwargs into `extra`, and add the "
                 "record itself to kwargs -/\ndef kwStages : List KwStage := %s\n\n" % _lean_list(stages))

        # ---------------------------------------------------------------- **kwargs signatures
        # every public method that forwards **kwargs into `extra`: which keyword names do its OWN named
        # parameters take away from **kwargs?  (names are mangled the way the compiler does inside
        # `class Logger`; positional-only parameters cannot be passed by keyword and take none)
        def mangle(n):
            return "_Logger" + n if n.startswith("__") and not n.endswith("__") else n
        kw_methods = ["bind", "contextualize", "trace", "debug", "info", "success", "warning", "error", "critical",
                      "exception", "log"]
        rows = []
        for name in kw_methods:
            fn = find_func(cls, name)
            if fn.args.kwarg is None:
                raise Unsupported("%s no longer takes **kwargs" % name)
            named = [mangle(a.arg) for a in fn.args.args + fn.args.kwonlyargs]
            rows.append("(%s, [%s])" % (lean_chars(name), ", ".join(lean_chars(n) for n in named)))
        body += ("/-- methods forwarding `**kwargs` into `extra`, each with the keyword names its own named\n"
                 "parameters shadow (after name mangling; positional-only parameters shadow nothing) -/\n"
                 "def kwargsShadow : List (List Char × List (List Char)) := [\n  %s]\n\n" % ",\n  ".join(rows))

        # ---------------------------------------------------------------- configure
        cf = find_func(cls, "configure")
        found = {"patcher": False, "extra": False}
        for s in cf.body:
            if isinstance(s, ast.If) and _u(s.test) == "patcher is not None":
                inner = s.body
                if len(inner) == 1 and isinstance(inner[0], ast.With):
                    inner = inner[0].body
                if [_u(x) for x in inner] != ["self._core.patcher = patcher"]:
                    raise Unsupported("configure: patcher branch changed")
                found["patcher"] = True
            if isinstance(s, ast.If) and _u(s.test) == "extra is not None":
                inner = s.body
                if len(inner) == 1 and isinstance(inner[0], ast.With):
                    inner = inner[0].body
                srcs = [_u(x) for x in inner]
                # does the core end up with its OWN dict (a copy of the argument), or with the caller's?
                copies = None
                if srcs == ["self._core.extra.clear()", "self._core.extra.update(extra)"]:
                    copies = True
                elif len(inner) == 1 and isinstance(inner[0], ast.Assign) and _u(inner[0].targets[0]) == "self._core.extra":
                    def kind(v):
                        """copy / alias / None (not understood)"""
                        t = _u(v)
                        if t in ("dict(extra)", "{**extra}", "extra.copy()", "dict(**extra)"):
                            return "copy"
                        if t == "extra":
                            return "alias"
                        if isinstance(v, ast.IfExp):
                            ks = {kind(v.body), kind(v.orelse)}
                            if None in ks:
                                return None
                            return "alias" if "alias" in ks else "copy"   # some inputs are stored as they are
                        return None
                    kd = kind(inner[0].value)
                    copies = {"copy": True, "alias": False}.get(kd)
                if copies is None:
                    raise Unsupported("configure: extra branch changed: %r" % srcs)
                body += ("/-- `configure(extra=…)`: does the core keep its OWN dict (a copy of the argument) – or the very\n"
                         "dict object the caller passed (for some or all arguments)? -/\n"
                         "def configureCopies : Bool := %s\n\n" % ("true" if copies else "false"))
                found["extra"] = True
        if not all(found.values()):
            raise Unsupported("configure: branches not found %r" % found)

        # ---------------------------------------------------------------- tasks the LIBRARY creates (coroutine sinks)
        # AsyncSink.write: in which execution context does the task of a coroutine sink run?  `X.create_task(coro)`
        # (one positional argument, no keyword) copies the emitter's current context for every task; a `context=`
        # argument (or a helper that is handed more than loop + coroutine) is a fresh per-call `copy_context()` – the
        # same thing – or a stored object: then all tasks of the handler share ONE context.
        stree, _ = parse_module("_simple_sinks.py")
        wr = find_func(find_class(stree, "AsyncSink"), "write")
        calls = [n for n in ast.walk(wr) if isinstance(n, ast.Call) and (
            (isinstance(n.func, ast.Attribute) and n.func.attr == "create_task")
            or (isinstance(n.func, ast.Name) and "create_task" in n.func.id))]
        if len(calls) != 1:
            raise Unsupported("AsyncSink.write: expected exactly one create_task call, found %d" % len(calls))
        ct = calls[0]
        extra_args = list(ct.args[1:]) if isinstance(ct.func, ast.Attribute) else list(ct.args[2:])
        extra_args += [k.value for k in ct.keywords if k.arg in ("context", None)]
        if any(k.arg not in ("context", "name", None) for k in ct.keywords):
            raise Unsupported("AsyncSink.write: create_task keywords %r" % [k.arg for k in ct.keywords])
        if isinstance(ct.func, ast.Name) and len(ct.args) < 2:
            raise Unsupported("AsyncSink.write: helper create_task call " + _u(ct))

        def per_call_copy(v):
            return isinstance(v, ast.Call) and not v.args and not v.keywords and \
                _u(v.func) in ("copy_context", "contextvars.copy_context")
        task_ctx = "TaskCtx.copyOfCaller" if all(per_call_copy(v) for v in extra_args) else "TaskCtx.shared"
        body += ("/-- `AsyncSink.write`: %s – the context the task of a coroutine sink runs in -/\n"
                 "def sinkTaskContext : TaskCtx := %s\n\n" % (_u(ct), task_ctx))
    except (Unsupported, SyntaxError, KeyError, AttributeError, IndexError, OSError) as e:
        errors.append("%s: %s" % (type(e).__name__, e))
    body += "end Context.Gen\n"
    return emit("Context", body, ["loguru/_logger.py", "loguru/_contextvars.py", "loguru/__init__.py",
                                  "loguru/_simple_sinks.py"], errors)
