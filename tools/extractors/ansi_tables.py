"""Generated/Ansi.lean from loguru/_colorizer.py (C06): the three tag tables with the Style/Fore/Back
codes resolved, the escape template of `ansi_escape`, the tag regex source, the CLOSING sequence, the
`<level>` tag spellings and every constant of `AnsiParser._get_ansicode` (38/48, the 255 limits, the
8-bit and r,g,b templates, the hex regex source)."""
import ast

from extract_lib import Unsupported, emit, find_class, find_func, lean_chars, parse_module


def _class_consts(tree, name):
    cls = find_class(tree, name)
    out = {}
    for node in cls.body:
        if isinstance(node, ast.Assign) and len(node.targets) == 1 and isinstance(node.targets[0], ast.Name):
            v = node.value
            if isinstance(v, ast.Constant) and isinstance(v.value, int) and not isinstance(v.value, bool) and v.value >= 0:
                out[node.targets[0].id] = v.value
            else:
                raise Unsupported("%s.%s is not a non-negative int literal" % (name, node.targets[0].id))
    if not out:
        raise Unsupported("class %s has no constants" % name)
    return out


def _table(cls, attr, consts):
    for node in cls.body:
        if isinstance(node, ast.Assign) and len(node.targets) == 1 and isinstance(node.targets[0], ast.Name) \
                and node.targets[0].id == attr:
            v = node.value
            if not (isinstance(v, ast.Call) and ast.unparse(v.func) == "ansi_escape" and len(v.args) == 1
                    and not v.keywords and isinstance(v.args[0], ast.Dict)):
                raise Unsupported("%s is not ansi_escape({...})" % attr)
            rows = {}
            for k, val in zip(v.args[0].keys, v.args[0].values):
                if not (isinstance(k, ast.Constant) and isinstance(k.value, str)):
                    raise Unsupported("%s: key is not a string literal" % attr)
                if isinstance(val, ast.Attribute) and isinstance(val.value, ast.Name) and val.value.id in consts \
                        and val.attr in consts[val.value.id]:
                    code = consts[val.value.id][val.attr]
                elif isinstance(val, ast.Constant) and isinstance(val.value, int) and not isinstance(val.value, bool) \
                        and val.value >= 0:
                    code = val.value
                else:
                    raise Unsupported("%s[%r]: value %s" % (attr, k.value, ast.unparse(val)))
                rows.pop(k.value, None)      # dict literal: the last duplicate wins
                rows[k.value] = code
            return list(rows.items())
    raise Unsupported("AnsiParser.%s not found" % attr)


def _lean_table(name, rows, doc):
    s = "/-- %s -/\ndef %s : List (List Char × Nat) := [\n" % (doc, name)
    s += ",\n".join("  (%s, %d)" % (lean_chars(k), v) for k, v in rows)
    return s + "]\n\n"


def _split_template(fmt, ph):
    parts = fmt.split(ph)
    return "[" + ", ".join(lean_chars(p) for p in parts) + "]"


def generate():
    errors = []
    body = "namespace Markup.Gen\n\n"
    try:
        tree, _ = parse_module("_colorizer.py")
        consts = {n: _class_consts(tree, n) for n in ("Style", "Fore", "Back")}
        cls = find_class(tree, "AnsiParser")
        body += _lean_table("styleTable", _table(cls, "_style", consts), "`AnsiParser._style` (tag, SGR code)")
        body += _lean_table("fgTable", _table(cls, "_foreground", consts), "`AnsiParser._foreground`")
        body += _lean_table("bgTable", _table(cls, "_background", consts), "`AnsiParser._background`")

        # ansi_escape: {name: "\033[%dm" % code for name, code in codes.items()}
        fn = find_func(tree, "ansi_escape")
        if [a.arg for a in fn.args.args] != ["codes"] or len(fn.body) != 1 or not isinstance(fn.body[0], ast.Return):
            raise Unsupported("ansi_escape shape")
        dc = fn.body[0].value
        if not (isinstance(dc, ast.DictComp) and ast.unparse(dc.key) == "name" and isinstance(dc.value, ast.BinOp)
                and isinstance(dc.value.op, ast.Mod) and isinstance(dc.value.left, ast.Constant)
                and isinstance(dc.value.left.value, str) and ast.unparse(dc.value.right) == "code"
                and len(dc.generators) == 1 and ast.unparse(dc.generators[0].target) == "(name, code)"
                and ast.unparse(dc.generators[0].iter) == "codes.items()" and not dc.generators[0].ifs):
            raise Unsupported("ansi_escape body: " + ast.unparse(dc))
        tmpl = dc.value.left.value
        if tmpl.count("%d") != 1 or tmpl.replace("%d", "").count("%"):
            raise Unsupported("ansi_escape template %r" % tmpl)
        pre, post = tmpl.split("%d")
        body += "/-- `ansi_escape`: text before / after the decimal code -/\n"
        body += "def escPre : List Char := %s\ndef escPost : List Char := %s\n\n" % (lean_chars(pre), lean_chars(post))

        # the tag regex
        rx = None
        for node in cls.body:
            if isinstance(node, ast.Assign) and ast.unparse(node.targets[0]) == "_regex_tag":
                v = node.value
                if isinstance(v, ast.Call) and ast.unparse(v.func) == "re.compile" and len(v.args) == 1 \
                        and not v.keywords and isinstance(v.args[0], ast.Constant) and isinstance(v.args[0].value, str):
                    rx = v.args[0].value
        if rx is None:
            raise Unsupported("_regex_tag is not re.compile(<literal>) without flags")
        body += "/-- source of `AnsiParser._regex_tag` -/\ndef tagRegex : List Char := %s\n\n" % lean_chars(rx)

        # feed(): CLOSING sequence and the level tag spellings
        feed = find_func(tree, "feed", cls="AnsiParser")
        closing, level_tags = [], []
        for node in ast.walk(feed):
            if isinstance(node, ast.Tuple) and len(node.elts) == 2 and ast.unparse(node.elts[0]) == "TokenType.CLOSING" \
                    and isinstance(node.elts[1], ast.Constant) and isinstance(node.elts[1].value, str):
                closing.append(node.elts[1].value)
            if isinstance(node, ast.Compare) and ast.unparse(node.left) == "tag" and len(node.ops) == 1 \
                    and isinstance(node.ops[0], ast.In) and isinstance(node.comparators[0], (ast.Set, ast.Tuple, ast.List)):
                for e in node.comparators[0].elts:
                    if not (isinstance(e, ast.Constant) and isinstance(e.value, str)):
                        raise Unsupported("level tag set element")
                    level_tags.append(e.value)
        if len(closing) != 1:
            raise Unsupported("CLOSING token literal: %r" % (closing,))
        if not level_tags:
            raise Unsupported("level tag set not found in feed()")
        body += "def closingCode : List Char := %s\n" % lean_chars(closing[0])
        body += "def levelTags : List (List Char) := [%s]\n\n" % ", ".join(lean_chars(t) for t in sorted(level_tags))

        # _get_ansicode constants
        ga = find_func(tree, "_get_ansicode", cls="AnsiParser")
        fgbg, limits, tmpls, hexrx, prefixes = None, [], [], [], []
        for node in ast.walk(ga):
            if isinstance(node, ast.IfExp) and ast.unparse(node.test).replace("'", '"') == 'st == "fg"' \
                    and isinstance(node.body, ast.Constant) and isinstance(node.orelse, ast.Constant):
                fgbg = (node.body.value, node.orelse.value)
            if isinstance(node, ast.Compare) and len(node.ops) == 1 and isinstance(node.ops[0], ast.LtE) \
                    and isinstance(node.comparators[0], ast.Constant) and ast.unparse(node.left).startswith("int("):
                limits.append(node.comparators[0].value)
            if isinstance(node, ast.BinOp) and isinstance(node.op, ast.Mod) and isinstance(node.left, ast.Constant) \
                    and isinstance(node.left.value, str):
                tmpls.append(node.left.value)
            if isinstance(node, ast.Call) and ast.unparse(node.func) == "re.match" and isinstance(node.args[0], ast.Constant):
                hexrx.append(node.args[0].value)
            if isinstance(node, ast.Call) and ast.unparse(node.func) == "tag.startswith" and isinstance(node.args[0], ast.Constant):
                prefixes.append(node.args[0].value)
        if fgbg is None or not all(isinstance(x, str) for x in fgbg):
            raise Unsupported("fg/bg selector codes not found")
        if len(limits) != 2 or limits[0] != limits[1] or not isinstance(limits[0], int) or limits[0] < 0:
            raise Unsupported("the two `<= 255` limits: %r" % (limits,))
        t8 = [t for t in tmpls if t.count("%s") == 2]
        t24 = [t for t in tmpls if t.count("%s") == 4]
        if len(t8) != 1 or len(t24) != 2 or t24[0] != t24[1] or len(tmpls) != 3:
            raise Unsupported("colour templates: %r" % (tmpls,))
        if len(hexrx) != 1:
            raise Unsupported("hex regex: %r" % (hexrx,))
        if prefixes != ["fg ", "bg "]:
            raise Unsupported("fg/bg prefixes: %r" % (prefixes,))
        body += "def fgSel : List Char := %s\ndef bgSel : List Char := %s\n" % (lean_chars(fgbg[0]), lean_chars(fgbg[1]))
        body += "def limit8 : Nat := %d\n" % limits[0]
        body += "/-- `\"\\033[%%s;5;%%sm\"` split at the placeholders -/\ndef tmpl8 : List (List Char) := %s\n" % _split_template(t8[0], "%s")
        body += "def tmpl24 : List (List Char) := %s\n" % _split_template(t24[0], "%s")
        body += "def hexRegex : List Char := %s\n" % lean_chars(hexrx[0])
    except (Unsupported, SyntaxError, KeyError, AttributeError, IndexError, OSError) as e:
        errors.append("%s: %s" % (type(e).__name__, e))
    body += "\nend Markup.Gen\n"
    return emit("Ansi", body, ["loguru/_colorizer.py"], errors)


# ----------------------------------------------------------------------------- _handler.py / _logger.py shapes
def _resolve_name(stmts, idx, name):
    """source of the value last assigned to `name` before statement idx of the same block"""
    for st in reversed(stmts[:idx]):
        if isinstance(st, ast.Assign) and len(st.targets) == 1 and isinstance(st.targets[0], ast.Name) \
                and st.targets[0].id == name:
            return ast.unparse(st.value)
    return None


def _blocks(node):
    """every statement list inside node"""
    for n in ast.walk(node):
        for attr in ("body", "orelse", "finalbody"):
            b = getattr(n, attr, None)
            if isinstance(b, list) and b and isinstance(b[0], ast.stmt):
                yield b


def generate_emit():
    """Generated/MarkupEmit.lean: (a) what the memoised dynamic-format cache of a colourising handler is keyed on
    and what the memoised function computes, (b) where `Handler.emit` drops a coloured message that no longer
    is record["message"]."""
    errors = []
    body = "namespace Markup.GenEmit\n\n"
    try:
        tree, _ = parse_module("_handler.py")
        emit_fn = find_func(tree, "emit", cls="Handler")
        # (a) second argument of every two-argument call of the memoised function, resolved through the local
        # assignment that precedes it in the same block
        keys = []
        for blk in _blocks(emit_fn):
            for i, st in enumerate(blk):
                for node in ast.walk(st) if not isinstance(st, (ast.If, ast.Try, ast.With, ast.For, ast.While)) else []:
                    if isinstance(node, ast.Call) and ast.unparse(node.func) == "self._memoize_dynamic_format" \
                            and len(node.args) == 2 and not node.keywords:
                        a = node.args[1]
                        src = ast.unparse(a)
                        if isinstance(a, ast.Name):
                            src = _resolve_name(blk, i, a.id) or src
                        keys.append((ast.unparse(node.args[0]), src))
        if not keys:
            raise Unsupported("no two-argument call of self._memoize_dynamic_format in Handler.emit")
        body += "/-- (first, second) argument of every colourising use of the memoised dynamic-format cache in\n"
        body += "`Handler.emit`, the second resolved through its local assignment -/\n"
        body += "def dynCacheKeys : List (List Char × List Char) := [%s]\n\n" % ", ".join(
            "(%s, %s)" % (lean_chars(a), lean_chars(b)) for a, b in keys)
        # the memoised function
        init = find_func(tree, "__init__", cls="Handler")
        memo = []
        for node in ast.walk(init):
            if isinstance(node, ast.Assign) and ast.unparse(node.targets[0]) == "self._memoize_dynamic_format" \
                    and isinstance(node.value, ast.Call) and ast.unparse(node.value.func) == "memoize" \
                    and len(node.value.args) == 1:
                memo.append(ast.unparse(node.value.args[0]))
        colored_fn = [m for m in memo if "colored" in m]
        if len(colored_fn) != 1:
            raise Unsupported("memoised functions: %r" % (memo,))
        fname = colored_fn[0].split(".")[-1]
        fn = find_func(tree, fname)
        rets = [n for n in ast.walk(fn) if isinstance(n, ast.Return)]
        if len(rets) != 1 or rets[0].value is None:
            raise Unsupported("memoised function %s: return shape" % fname)
        params = [a.arg for a in fn.args.args if a.arg != "self"]
        body += "/-- parameters and returned expression of the memoised function -/\n"
        body += "def dynPrepParams : List (List Char) := [%s]\n" % ", ".join(lean_chars(p) for p in params)
        body += "def dynPrepReturn : List Char := %s\n\n" % lean_chars(ast.unparse(rets[0].value))

        # (b) the drop rule
        tries = [n for n in emit_fn.body if isinstance(n, ast.Try)]
        if len(tries) != 1:
            raise Unsupported("Handler.emit: expected one try block")
        top = tries[0].body
        want = "colored_message is not None and colored_message.stripped != record['message']"
        i_drop = i_filter = i_dyn = None
        for i, st in enumerate(top):
            if isinstance(st, ast.If):
                t = ast.unparse(st.test)
                if t == want and len(st.body) == 1 and ast.unparse(st.body[0]) == "colored_message = None" and not st.orelse:
                    i_drop = i
                if t == "self._filter is not None":
                    i_filter = i
                if t == "self._is_formatter_dynamic" and i_dyn is None and "self._formatter(record)" in ast.unparse(st):
                    i_dyn = i
        if i_filter is None or i_dyn is None:
            raise Unsupported("Handler.emit: filter / dynamic-format statements not found at top level")
        ncmp = sum(1 for n in ast.walk(emit_fn) if isinstance(n, ast.Compare) and ".stripped" in ast.unparse(n))
        ltree, _ = parse_module("_logger.py")
        log_fn = find_func(ltree, "_log", cls="Logger")
        nlog = sum(1 for n in ast.walk(log_fn) if isinstance(n, ast.Compare) and ".stripped" in ast.unparse(n))
        body += "/-- `if colored_message is not None and colored_message.stripped != record[\"message\"]: colored_message = None`\n"
        body += "is an unconditional top-level statement of `Handler.emit` … -/\n"
        body += "def dropRuleTopLevel : Bool := %s\n" % ("true" if i_drop is not None else "false")
        body += "/-- … placed after the calls of the user's filter and format function … -/\n"
        body += "def dropRuleAfterUserCode : Bool := %s\n" % (
            "true" if (i_drop is not None and i_drop > i_filter and i_drop > i_dyn) else "false")
        body += "/-- … and it is the only comparison with `.stripped` in `emit`; `Logger._log` has none -/\n"
        body += "def emitStrippedCompares : Nat := %d\ndef logStrippedCompares : Nat := %d\n\n" % (ncmp, nlog)

        # (c) Logger.level(): inside `with self._core.lock:` the ANSI prefix is stored and then EVERY handler's
        # update_format(name) is called, as unconditional direct statements of the block
        lvl_fn = find_func(ltree, "level", cls="Logger")
        withs = [n for n in ast.walk(lvl_fn) if isinstance(n, ast.With)
                 and any("levels_ansi_codes" in ast.unparse(x) for x in n.body)]
        if len(withs) != 1:
            raise Unsupported("Logger.level: the block storing levels_ansi_codes[name]")
        blk = withs[0].body
        i_ansi = i_upd = None
        for i, st in enumerate(blk):
            if isinstance(st, ast.Assign) and ast.unparse(st.targets[0]) == "self._core.levels_ansi_codes[name]":
                i_ansi = i
            if isinstance(st, ast.For) and ast.unparse(st.iter) == "self._core.handlers.values()" and not st.orelse \
                    and len(st.body) == 1 and ast.unparse(st.body[0]) == "%s.update_format(name)" % ast.unparse(st.target):
                i_upd = i
        nupd = sum(1 for n in ast.walk(lvl_fn) if isinstance(n, ast.Call) and ast.unparse(n.func).endswith(".update_format"))
        ansi_src = None
        for n in ast.walk(lvl_fn):
            if isinstance(n, ast.Assign) and ast.unparse(n.targets[0]) == "ansi":
                ansi_src = ast.unparse(n.value)
        body += "/-- `for handler in self._core.handlers.values(): handler.update_format(name)` is an unconditional\n"
        body += "direct statement of the locked block of `Logger.level` … -/\n"
        body += "def levelUpdatesEveryHandler : Bool := %s\n" % ("true" if i_upd is not None else "false")
        body += "/-- … after `levels_ansi_codes[name] = ansi` (which `update_format` reads), and it is the only call -/\n"
        body += "def levelAnsiStoredBeforeUpdate : Bool := %s\n" % (
            "true" if (i_upd is not None and i_ansi is not None and i_ansi < i_upd) else "false")
        body += "def levelUpdateCalls : Nat := %d\n" % nupd
        body += "def levelAnsiSource : List Char := %s\n" % lean_chars(ansi_src or "?")
    except (Unsupported, SyntaxError, KeyError, AttributeError, IndexError, OSError) as e:
        errors.append("%s: %s" % (type(e).__name__, e))
    body += "\nend Markup.GenEmit\n"
    return emit("MarkupEmit", body, ["loguru/_handler.py", "loguru/_logger.py"], errors)


_generate_tables = generate


def generate():  # noqa: F811  (both files; each fails closed on its own)
    a = _generate_tables()
    b = generate_emit()
    return a and b
