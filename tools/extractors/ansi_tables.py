"""Generated/Ansi.lean from loguru/_colorizer.py (C06): the three tag tables with the Style/Fore/Back
codes resolved, the escape template of `ansi_escape`, the tag regex source, the CLOSING sequence, the
`<level>` tag spellings and every constant of `AnsiParser._get_ansicode` (38/48, the 255 limits, the
8-bit and r,g,b templates, the hex regex source)."""
import ast

from extract_lib import Unsupported, emit, find_class, find_func, lean_chars, parse_module


def _class_consts(tree, name):
    cls = find_class(tree, name)
    out = {}
    for node in cls.body:
        if isinstance(node, ast.Assign) and len(node.targets) == 1 and isinstance(node.targets[0], ast.Name):
            v = node.value
            if isinstance(v, ast.Constant) and isinstance(v.value, int) and not isinstance(v.value, bool) and v.value >= 0:
                out[node.targets[0].id] = v.value
            else:
                raise Unsupported("%s.%s is not a non-negative int literal" % (name, node.targets[0].id))
    if not out:
        raise Unsupported("class %s has no constants" % name)
    return out


def _table(cls, attr, consts):
    for node in cls.body:
        if isinstance(node, ast.Assign) and len(node.targets) == 1 and isinstance(node.targets[0], ast.Name) \
                and node.targets[0].id == attr:
            v = node.value
            if not (isinstance(v, ast.Call) and ast.unparse(v.func) == "ansi_escape" and len(v.args) == 1
                    and not v.keywords and isinstance(v.args[0], ast.Dict)):
                raise Unsupported("%s is not ansi_escape({...})" % attr)
            rows = {}
            for k, val in zip(v.args[0].keys, v.args[0].values):
                if not (isinstance(k, ast.Constant) and isinstance(k.value, str)):
                    raise Unsupported("%s: key is not a string literal" % attr)
                if isinstance(val, ast.Attribute) and isinstance(val.value, ast.Name) and val.value.id in consts \
                        and val.attr in consts[val.value.id]:
                    code = consts[val.value.id][val.attr]
                elif isinstance(val, ast.Constant) and isinstance(val.value, int) and not isinstance(val.value, bool) \
                        and val.value >= 0:
                    code = val.value
                else:
                    raise Unsupported("%s[%r]: value %s" % (attr, k.value, ast.unparse(val)))
                rows.pop(k.value, None)      # dict literal: the last duplicate wins
                rows[k.value] = code
            return list(rows.items())
    raise Unsupported("AnsiParser.%s not found" % attr)


def _lean_table(name, rows, doc):
    s = "/-- %s -/\ndef %s : List (List Char × Nat) := [\n" % (doc, name)
    s += ",\n".join("  (%s, %d)" % (lean_chars(k), v) for k, v in rows)
    return s + "]\n\n"


def _split_template(fmt, ph):
    parts = fmt.split(ph)
    return "[" + ", ".join(lean_chars(p) for p in parts) + "]"


def generate():
    errors = []
    body = "namespace Markup.Gen\n\n"
    try:
        tree, _ = parse_module("_colorizer.py")
        consts = {n: _class_consts(tree, n) for n in ("Style", "Fore", "Back")}
        cls = find_class(tree, "AnsiParser")
        body += _lean_table("styleTable", _table(cls, "_style", consts), "`AnsiParser._style` (tag, SGR code)")
        body += _lean_table("fgTable", _table(cls, "_foreground", consts), "`AnsiParser._foreground`")
        body += _lean_table("bgTable", _table(cls, "_background", consts), "`AnsiParser._background`")

        # ansi_escape(codes): {k: "<template>" % v for (k, v) in codes.items()}  (any names)
        fn = find_func(tree, "ansi_escape")
        rets = [n for n in ast.walk(fn) if isinstance(n, ast.Return)]
        if len(fn.args.args) != 1 or len(rets) != 1:
            raise Unsupported("ansi_escape shape")
        par = fn.args.args[0].arg
        dc = rets[0].value
        if isinstance(dc, ast.Name):        # result = {...}; return result
            src = [n.value for n in ast.walk(fn) if isinstance(n, ast.Assign) and len(n.targets) == 1
                   and isinstance(n.targets[0], ast.Name) and n.targets[0].id == dc.id]
            dc = src[0] if len(src) == 1 else dc
        ok = isinstance(dc, ast.DictComp) and len(dc.generators) == 1 and not dc.generators[0].ifs
        if ok:
            g = dc.generators[0]
            ok = isinstance(g.target, ast.Tuple) and len(g.target.elts) == 2 and all(isinstance(e, ast.Name) for e in g.target.elts) \
                and ast.unparse(g.iter) == par + ".items()"
        if ok:
            kname, vname = g.target.elts[0].id, g.target.elts[1].id
            ok = isinstance(dc.key, ast.Name) and dc.key.id == kname and isinstance(dc.value, ast.BinOp) \
                and isinstance(dc.value.op, ast.Mod) and isinstance(dc.value.left, ast.Constant) \
                and isinstance(dc.value.left.value, str) and ast.unparse(dc.value.right) in (vname, "(%s,)" % vname)
        if not ok:
            raise Unsupported("ansi_escape body: " + ast.unparse(rets[0].value))
        tmpl = dc.value.left.value
        if tmpl.count("%d") != 1 or tmpl.replace("%d", "").count("%"):
            raise Unsupported("ansi_escape template %r" % tmpl)
        pre, post = tmpl.split("%d")
        body += "/-- `ansi_escape`: text before / after the decimal code -/\n"
        body += "def escPre : List Char := %s\ndef escPost : List Char := %s\n\n" % (lean_chars(pre), lean_chars(post))

        # the tag regex
        rx = None
        for node in cls.body:
            if isinstance(node, ast.Assign) and ast.unparse(node.targets[0]) == "_regex_tag":
                v = node.value
                if isinstance(v, ast.Call) and ast.unparse(v.func) in ("re.compile", "compile") and len(v.args) == 1 \
                        and not v.keywords and isinstance(v.args[0], ast.Constant) and isinstance(v.args[0].value, str):
                    rx = v.args[0].value
        if rx is None:
            raise Unsupported("_regex_tag is not re.compile(<literal>) without flags")
        body += "/-- source of `AnsiParser._regex_tag` -/\ndef tagRegex : List Char := %s\n\n" % lean_chars(rx)

        # feed(): CLOSING sequence and the level tag spellings
        feed = find_func(tree, "feed", cls="AnsiParser")
        closing, level_tags = [], []
        for node in ast.walk(feed):
            if isinstance(node, ast.Tuple) and len(node.elts) == 2 and ast.unparse(node.elts[0]).split(".")[-1] == "CLOSING" \
                    and isinstance(node.elts[1], ast.Constant) and isinstance(node.elts[1].value, str):
                closing.append(node.elts[1].value)
            if isinstance(node, ast.Compare) and isinstance(node.left, ast.Name) and len(node.ops) == 1 \
                    and isinstance(node.ops[0], ast.In) and isinstance(node.comparators[0], (ast.Set, ast.Tuple, ast.List)) \
                    and node.comparators[0].elts and all(isinstance(e, ast.Constant) for e in node.comparators[0].elts):
                for e in node.comparators[0].elts:
                    if not (isinstance(e, ast.Constant) and isinstance(e.value, str)):
                        raise Unsupported("level tag set element")
                    level_tags.append(e.value)
        if len(closing) != 1:
            raise Unsupported("CLOSING token literal: %r" % (closing,))
        if not level_tags:
            raise Unsupported("level tag set not found in feed()")
        body += "def closingCode : List Char := %s\n" % lean_chars(closing[0])
        body += "def levelTags : List (List Char) := [%s]\n\n" % ", ".join(lean_chars(t) for t in sorted(level_tags))

        # _get_ansicode constants
        ga = find_func(tree, "_get_ansicode", cls="AnsiParser")
        fgbg, limits, tmpls, hexrx, prefixes = None, [], [], [], []
        for node in ast.walk(ga):
            # `sel = "38" if layer == "fg" else "48"` as a conditional expression or as an if/else assignment,
            # whatever the local names; `== "bg"` / `!=` forms are read accordingly
            cand = None
            if isinstance(node, ast.IfExp) and isinstance(node.body, ast.Constant) and isinstance(node.orelse, ast.Constant):
                cand = (node.test, node.body.value, node.orelse.value)
            if isinstance(node, ast.If) and len(node.body) == 1 and len(node.orelse) == 1 \
                    and isinstance(node.body[0], ast.Assign) and isinstance(node.orelse[0], ast.Assign) \
                    and ast.unparse(node.body[0].targets[0]) == ast.unparse(node.orelse[0].targets[0]) \
                    and isinstance(node.body[0].value, ast.Constant) and isinstance(node.orelse[0].value, ast.Constant):
                cand = (node.test, node.body[0].value.value, node.orelse[0].value.value)
            if cand and isinstance(cand[0], ast.Compare) and len(cand[0].ops) == 1 and isinstance(cand[0].left, ast.Name) \
                    and isinstance(cand[0].comparators[0], ast.Constant) and cand[0].comparators[0].value in ("fg", "bg") \
                    and isinstance(cand[0].ops[0], (ast.Eq, ast.NotEq)) and isinstance(cand[1], str) and isinstance(cand[2], str):
                flip = (cand[0].comparators[0].value == "bg") != isinstance(cand[0].ops[0], ast.NotEq)
                if fgbg is not None:
                    raise Unsupported("two fg/bg selector expressions")
                fgbg = (cand[2], cand[1]) if flip else (cand[1], cand[2])
            if isinstance(node, ast.Compare) and len(node.ops) == 1 and isinstance(node.ops[0], ast.LtE) \
                    and isinstance(node.comparators[0], ast.Constant) and ast.unparse(node.left).startswith("int("):
                limits.append(node.comparators[0].value)
            if isinstance(node, ast.BinOp) and isinstance(node.op, ast.Mod) and isinstance(node.left, ast.Constant) \
                    and isinstance(node.left.value, str):
                tmpls.append(node.left.value)
            if isinstance(node, ast.Call) and ast.unparse(node.func) in ("re.match", "match") and node.args \
                    and isinstance(node.args[0], ast.Constant):
                hexrx.append(node.args[0].value)
            if isinstance(node, ast.Call) and isinstance(node.func, ast.Attribute) and node.func.attr == "startswith" \
                    and isinstance(node.func.value, ast.Name) and len(node.args) == 1 and isinstance(node.args[0], ast.Constant):
                prefixes.append(node.args[0].value)
        if fgbg is None or not all(isinstance(x, str) for x in fgbg):
            raise Unsupported("fg/bg selector codes not found")
        if len(limits) != 2 or limits[0] != limits[1] or not isinstance(limits[0], int) or limits[0] < 0:
            raise Unsupported("the two `<= 255` limits: %r" % (limits,))
        t8 = [t for t in tmpls if t.count("%s") == 2]
        t24 = [t for t in tmpls if t.count("%s") == 4]
        if len(t8) != 1 or len(t24) != 2 or t24[0] != t24[1] or len(tmpls) != 3:
            raise Unsupported("colour templates: %r" % (tmpls,))
        if len(hexrx) != 1:
            raise Unsupported("hex regex: %r" % (hexrx,))
        if prefixes != ["fg ", "bg "]:
            raise Unsupported("fg/bg prefixes: %r" % (prefixes,))
        body += "def fgSel : List Char := %s\ndef bgSel : List Char := %s\n" % (lean_chars(fgbg[0]), lean_chars(fgbg[1]))
        body += "def limit8 : Nat := %d\n" % limits[0]
        body += "/-- `\"\\033[%%s;5;%%sm\"` split at the placeholders -/\ndef tmpl8 : List (List Char) := %s\n" % _split_template(t8[0], "%s")
        body += "def tmpl24 : List (List Char) := %s\n" % _split_template(t24[0], "%s")
        body += "def hexRegex : List Char := %s\n" % lean_chars(hexrx[0])
    except (Unsupported, SyntaxError, KeyError, AttributeError, IndexError, OSError) as e:
        errors.append("%s: %s" % (type(e).__name__, e))
    body += "\nend Markup.Gen\n"
    return emit("Ansi", body, ["loguru/_colorizer.py"], errors)


# ----------------------------------------------------------------------------- _handler.py / _logger.py shapes
import copy


class _Subst(ast.NodeTransformer):
    def __init__(self, mapping):
        self.mapping = mapping

    def visit_Name(self, node):
        if node.id in self.mapping and isinstance(node.ctx, ast.Load):
            return copy.deepcopy(self.mapping[node.id])
        return node


def _normalise(fn, canon_params):
    """A copy of the function with (1) its parameters renamed to canonical names by position and (2) every local
    that is assigned ONE value expression in the whole function (possibly at several places, e.g. in each branch)
    and is not a parameter replaced by that expression wherever it is read – so that renamed locals, extracted
    aliases (`core = self._core`) and renamed parameters leave the shapes below unchanged.  Locals assigned
    different expressions, augmented/tuple/loop targets are left alone."""
    fn = copy.deepcopy(fn)
    params = [a.arg for a in fn.args.args]
    if len(params) != len(canon_params):
        raise Unsupported("%s: %d parameters, expected %d" % (fn.name, len(params), len(canon_params)))
    ren = {o: ast.Name(id=n, ctx=ast.Load()) for o, n in zip(params, canon_params) if o != n}
    for a, n in zip(fn.args.args, canon_params):
        a.arg = n
    if ren:
        for node in ast.walk(fn):
            if isinstance(node, ast.Name) and node.id in ren:
                node.id = ren[node.id].id
    for _round in range(4):          # aliases of aliases
        values, bad = {}, set(canon_params)
        for node in ast.walk(fn):
            if isinstance(node, ast.Assign):
                for t in node.targets:
                    if isinstance(t, ast.Name):
                        values.setdefault(t.id, set()).add(ast.dump(node.value))
                        values.setdefault("\0" + t.id, []).append(node.value)
                    else:
                        for n in ast.walk(t):
                            if isinstance(n, ast.Name) and isinstance(n.ctx, ast.Store):
                                bad.add(n.id)
            elif isinstance(node, (ast.AugAssign, ast.AnnAssign)):
                for n in ast.walk(node.target):
                    if isinstance(n, ast.Name):
                        bad.add(n.id)
            elif isinstance(node, (ast.For, ast.comprehension)):
                for n in ast.walk(node.target):
                    if isinstance(n, ast.Name):
                        bad.add(n.id)
            elif isinstance(node, (ast.With,)):
                for it in node.items:
                    if it.optional_vars is not None:
                        for n in ast.walk(it.optional_vars):
                            if isinstance(n, ast.Name):
                                bad.add(n.id)
            elif isinstance(node, ast.ExceptHandler) and node.name:
                bad.add(node.name)
        mapping = {}
        for k, v in values.items():
            if k.startswith("\0") or k in bad or len(v) != 1:
                continue
            val = values["\0" + k][0]
            # the value must not read the local itself, nor a local that is re-assigned with several values
            reads = {n.id for n in ast.walk(val) if isinstance(n, ast.Name)}
            if k in reads or any(len(values.get(r, ())) > 1 for r in reads if not r.startswith("\0")):
                continue
            if any(r in bad and r in values for r in reads):   # reads a parameter / loop variable that is re-assigned
                continue
            mapping[k] = val
        if not mapping:
            break
        fn = _Subst(mapping).visit(fn)
    ast.fix_missing_locations(fn)
    return fn


def _strip_module(src):
    """`mod.Colorizer.ansify(x)` and `Colorizer.ansify(x)` alike (import form)"""
    import re as _re
    return _re.sub(r"\b(?:\w+\.)+(Colorizer\.)", r"\1", src)


def _method_or_function(tree, cls_name, name):
    name = name.split(".")[-1]
    try:
        return find_func(tree, name, cls=cls_name), True
    except Unsupported:
        return find_func(tree, name), False


def generate_emit():
    """Generated/MarkupEmit.lean: (a) what the memoised dynamic-format cache of a colourising handler is keyed on
    and what the memoised function computes, (b) where `Handler.emit` drops a coloured message that no longer
    is record["message"], (c) `Logger.level` updates every handler.  Shapes are taken modulo renaming of locals
    and parameters, single-value local aliases, and `if a: if b:` vs `if a and b:`."""
    errors = []
    body = "namespace Markup.GenEmit\n\n"
    try:
        tree, _ = parse_module("_handler.py")
        EP = ["self", "record", "level_id", "from_decorator", "is_raw", "colored_message"]
        emit_fn = _normalise(find_func(tree, "emit", cls="Handler"), EP)
        # (a) both arguments of every two-argument call of the memoised function (locals inlined)
        keys = []
        for node in ast.walk(emit_fn):
            if isinstance(node, ast.Call) and ast.unparse(node.func) == "self._memoize_dynamic_format" \
                    and len(node.args) == 2 and not node.keywords:
                keys.append((ast.unparse(node.args[0]), ast.unparse(node.args[1])))
        if not keys:
            raise Unsupported("no two-argument call of self._memoize_dynamic_format in Handler.emit")
        body += "/-- (first, second) argument of every colourising use of the memoised dynamic-format cache in\n"
        body += "`Handler.emit`, locals inlined -/\n"
        body += "def dynCacheKeys : List (List Char × List Char) := [%s]\n\n" % ", ".join(
            "(%s, %s)" % (lean_chars(a), lean_chars(b)) for a, b in keys)
        # the memoised functions: every `memoize(f)` anywhere in class Handler; the colourising one is the one
        # whose result calls `.colorize(`
        cls = find_class(tree, "Handler")
        memo = set()
        for node in ast.walk(cls):
            if isinstance(node, ast.Call) and ast.unparse(node.func).split(".")[-1] == "memoize" and len(node.args) == 1 \
                    and isinstance(node.args[0], (ast.Name, ast.Attribute)):
                memo.add(ast.unparse(node.args[0]))
        found = []
        for m in sorted(memo):
            f, is_method = _method_or_function(tree, "Handler", m)
            npar = len(f.args.args)
            canon = (["self"] if is_method else []) + ["format_", "ansi_level"][: npar - (1 if is_method else 0)]
            f = _normalise(f, canon)
            rets = [n for n in ast.walk(f) if isinstance(n, ast.Return) and n.value is not None]
            if len(rets) != 1:
                raise Unsupported("memoised function %s: return shape" % m)
            src = _strip_module(ast.unparse(rets[0].value))
            if ".colorize(" in src:
                found.append(([c for c in canon if c != "self"], src))
        if len(found) != 1:
            raise Unsupported("memoised colourising functions: %r of %r" % (found, sorted(memo)))
        body += "/-- parameters (canonical names by position) and returned expression (locals inlined) of the memoised\n"
        body += "colourising function -/\n"
        body += "def dynPrepParams : List (List Char) := [%s]\n" % ", ".join(lean_chars(p) for p in found[0][0])
        body += "def dynPrepReturn : List Char := %s\n\n" % lean_chars(found[0][1])

        # (b) the drop rule: an UNCONDITIONAL statement of emit's try block (that is its content), after the
        # statements that call the user's filter and format function (wherever inside those statements)
        tries = [n for n in emit_fn.body if isinstance(n, ast.Try)]
        if len(tries) != 1:
            raise Unsupported("Handler.emit: expected one try block")
        top = tries[0].body

        def is_drop(st):
            if not (isinstance(st, ast.If) and not st.orelse and len(st.body) == 1
                    and ast.unparse(st.body[0]) == "colored_message = None"):
                return False
            parts = st.test.values if isinstance(st.test, ast.BoolOp) and isinstance(st.test.op, ast.And) else [st.test]
            srcs = sorted(ast.unparse(x) for x in parts)
            cmp_ok = {"colored_message.stripped != record['message']", "record['message'] != colored_message.stripped"}
            return len(srcs) == 2 and "colored_message is not None" in srcs and any(x in cmp_ok for x in srcs)

        def calls(st, what):
            return any(isinstance(n, ast.Call) and ast.unparse(n) == what for n in ast.walk(st))

        i_drop = next((i for i, st in enumerate(top) if is_drop(st)), None)
        i_filter = next((i for i, st in enumerate(top) if calls(st, "self._filter(record)")), None)
        i_dyn = next((i for i, st in enumerate(top) if calls(st, "self._formatter(record)")), None)
        if i_filter is None or i_dyn is None:
            raise Unsupported("Handler.emit: calls of the filter / format function not found in the try block")
        ncmp = sum(1 for n in ast.walk(emit_fn) if isinstance(n, ast.Compare) and ".stripped" in ast.unparse(n))
        ltree, _ = parse_module("_logger.py")
        log_fn = find_func(ltree, "_log", cls="Logger")
        nlog = sum(1 for n in ast.walk(log_fn) if isinstance(n, ast.Compare) and ".stripped" in ast.unparse(n))
        body += "/-- `if colored_message is not None and colored_message.stripped != record[\"message\"]: colored_message = None`\n"
        body += "is an unconditional top-level statement of `Handler.emit` … -/\n"
        body += "def dropRuleTopLevel : Bool := %s\n" % ("true" if i_drop is not None else "false")
        body += "/-- … placed after the calls of the user's filter and format function … -/\n"
        body += "def dropRuleAfterUserCode : Bool := %s\n" % (
            "true" if (i_drop is not None and i_drop > i_filter and i_drop > i_dyn) else "false")
        body += "/-- … and it is the only comparison with `.stripped` in `emit`; `Logger._log` has none -/\n"
        body += "def emitStrippedCompares : Nat := %d\ndef logStrippedCompares : Nat := %d\n\n" % (ncmp, nlog)

        # (c) Logger.level(): inside the locked block the ANSI prefix is stored and then EVERY handler's
        # update_format(name) is called, as unconditional direct statements of the block
        lvl_fn = _normalise(find_func(ltree, "level", cls="Logger"), ["self", "name", "no", "color", "icon"])
        withs = [n for n in ast.walk(lvl_fn) if isinstance(n, ast.With)
                 and any("levels_ansi_codes" in ast.unparse(x) for x in n.body)]
        if len(withs) != 1 or "lock" not in ast.unparse(withs[0].items[0].context_expr):
            raise Unsupported("Logger.level: the locked block storing levels_ansi_codes[name]")
        blk = withs[0].body
        i_ansi = i_upd = None
        ansi_src = None
        for i, st in enumerate(blk):
            if isinstance(st, ast.Assign) and ast.unparse(st.targets[0]) == "self._core.levels_ansi_codes[name]":
                i_ansi = i
                val = st.value
                if isinstance(val, ast.Name):
                    # straight-line resolution: the last assignment to that local before the locked block, among
                    # the direct statements of the function (its value may read the re-assigned parameter `color`,
                    # which is why the global alias inlining leaves it alone)
                    k = next((j for j, x in enumerate(lvl_fn.body) if x is withs[0]), None)
                    if k is not None:
                        for x in reversed(lvl_fn.body[:k]):
                            if isinstance(x, ast.Assign) and len(x.targets) == 1 and isinstance(x.targets[0], ast.Name) \
                                    and x.targets[0].id == val.id:
                                val = x.value
                                break
                ansi_src = _strip_module(ast.unparse(val))
            if isinstance(st, ast.For) and ast.unparse(st.iter) == "self._core.handlers.values()" and not st.orelse \
                    and len(st.body) == 1 and ast.unparse(st.body[0]) == "%s.update_format(name)" % ast.unparse(st.target):
                i_upd = i
        nupd = sum(1 for n in ast.walk(lvl_fn) if isinstance(n, ast.Call) and ast.unparse(n.func).endswith(".update_format"))
        body += "/-- `for handler in self._core.handlers.values(): handler.update_format(name)` is an unconditional\n"
        body += "direct statement of the locked block of `Logger.level` … -/\n"
        body += "def levelUpdatesEveryHandler : Bool := %s\n" % ("true" if i_upd is not None else "false")
        body += "/-- … after `levels_ansi_codes[name] = ansi` (which `update_format` reads), and it is the only call -/\n"
        body += "def levelAnsiStoredBeforeUpdate : Bool := %s\n" % (
            "true" if (i_upd is not None and i_ansi is not None and i_ansi < i_upd) else "false")
        body += "def levelUpdateCalls : Nat := %d\n" % nupd
        body += "def levelAnsiSource : List Char := %s\n" % lean_chars(ansi_src or "?")

        # (d) Colorizer._parse_with_formatting / _parse_without_formatting: which text is fed to the markup parser
        # how – the literal text of the string with `raw=recursive` (so: raw inside format specs), values and
        # re-serialised fields with `raw=True`; the format spec is parsed by a call with `recursive=True`
        ctree, _ = parse_module("_colorizer.py")
        for fname, lean in (("_parse_with_formatting", "msg"), ("_parse_without_formatting", "fmt")):
            raw_fn = find_func(ctree, fname, cls="Colorizer")
            kwdef = {a.arg: ast.unparse(d) for a, d in zip(raw_fn.args.kwonlyargs, raw_fn.args.kw_defaults) if d is not None}
            pf = _normalise(raw_fn, [a.arg for a in raw_fn.args.args])
            loops = [n for n in ast.walk(pf) if isinstance(n, ast.For) and ast.unparse(n.iter).endswith(".parse(%s)" % pf.args.args[0].arg)]
            if len(loops) != 1 or not isinstance(loops[0].target, ast.Tuple) or not isinstance(loops[0].target.elts[0], ast.Name):
                raise Unsupported("%s: loop over Formatter.parse" % fname)
            lit = loops[0].target.elts[0].id
            feeds = []
            for node in ast.walk(loops[0]):
                if isinstance(node, ast.Call) and isinstance(node.func, ast.Attribute) and node.func.attr == "feed" and node.args:
                    if node.keywords and not (len(node.keywords) == 1 and node.keywords[0].arg == "raw"):
                        raise Unsupported("%s: feed() keywords" % fname)
                    rawsrc = ast.unparse(node.keywords[0].value) if node.keywords else "absent"
                    kind = "literal" if (isinstance(node.args[0], ast.Name) and node.args[0].id == lit) else "value"
                    feeds.append((node.lineno, kind, rawsrc))
            feeds.sort()
            rec = []
            for node in ast.walk(loops[0]):
                if isinstance(node, ast.Call) and ast.unparse(node.func).split(".")[-1] == fname:
                    kw = {k.arg: ast.unparse(k.value) for k in node.keywords}
                    rec.append(kw.get("recursive", "absent"))
            body += "\n/-- `%s`: (what is fed, its `raw=` argument) in source order; the `recursive=` argument of the\n" % fname
            body += "call that parses a format spec; the default of `recursive` -/\n"
            body += "def %sFeeds : List (List Char × List Char) := [%s]\n" % (
                lean, ", ".join("(%s, %s)" % (lean_chars(k), lean_chars(r)) for _l, k, r in feeds))
            body += "def %sSpecCalls : List (List Char) := [%s]\n" % (lean, ", ".join(lean_chars(r) for r in rec))
            body += "def %sRecursiveDefault : List Char := %s\n" % (lean, lean_chars(kwdef.get("recursive", "absent")))
    except (Unsupported, SyntaxError, KeyError, AttributeError, IndexError, OSError) as e:
        errors.append("%s: %s" % (type(e).__name__, e))
    body += "\nend Markup.GenEmit\n"
    return emit("MarkupEmit", body, ["loguru/_handler.py", "loguru/_logger.py", "loguru/_colorizer.py"], errors)


# ----------------------------------------------------------------------------- escape kernels, shared level table
def _bool_fun(name, doc, expr):
    return "/-- %s -/\ndef %s (colorize dynamic : Bool) : Bool := %s\n" % (doc, name, expr)


def generate_share():
    """Generated/MarkupShare.lean: (a) the escape arithmetic of `AnsiParser.feed` as expression kernels,
    (b) `Handler.update_format`: its early-return guard as a Boolean function of (colorize, dynamic) and what it
    stores, (c) `Handler.__init__`: under which flags it pre-colours the format for EVERY level of the table, and
    that it keeps the table it was given (no copy), (d) `Logger.add` hands the core's own table to the handler,
    (e) what `Core.__getstate__` / `Handler.__getstate__` drop from the pickled state."""
    from extract_lib import Tr
    errors = []
    body = "namespace Markup.GenShare\n\n"
    try:
        ctree, _ = parse_module("_colorizer.py")
        feed = _normalise(find_func(ctree, "feed", cls="AnsiParser"), ["self", "text"])

        def len_call(tr, node):
            if len(node.args) == 1 and not node.keywords and isinstance(node.args[0], (ast.Name, ast.Call, ast.Attribute)):
                return ("n", "int")
            raise Unsupported("len() argument")

        tr = Tr({}, calls={"len": len_call})

        def mentions_len(node):
            return any(isinstance(n, ast.Call) and ast.unparse(n.func) == "len" for n in ast.walk(node))

        # "\\" * (count // 2)
        keeps = [n.right if isinstance(n.left, ast.Constant) else n.left for n in ast.walk(feed)
                 if isinstance(n, ast.BinOp) and isinstance(n.op, ast.Mult)
                 and ((isinstance(n.left, ast.Constant) and n.left.value == "\\") or
                      (isinstance(n.right, ast.Constant) and n.right.value == "\\"))]
        keeps = [k for k in keeps if mentions_len(k)]
        if not keeps or len({ast.dump(k) for k in keeps}) != 1:
            raise Unsupported("feed: the backslash-halving expression")
        keep_src, keep_t = tr.tr(keeps[0])
        Tr.need(keep_t, "int")
        # `if <count is odd>: …; continue`  and  `if <count positive>: append(TEXT, backslashes)`
        odd = [n for n in ast.walk(feed) if isinstance(n, ast.If) and mentions_len(n.test)
               and any(isinstance(x, ast.Continue) for x in n.body)]
        pos = [n for n in ast.walk(feed) if isinstance(n, ast.If) and mentions_len(n.test) and not n.orelse
               and not any(isinstance(x, ast.Continue) for x in ast.walk(n))]
        if len(odd) != 1 or len(pos) != 1:
            raise Unsupported("feed: the odd / positive tests on the backslash count (%d, %d)" % (len(odd), len(pos)))
        odd_src, t1 = tr.tr(odd[0].test)
        pos_src, t2 = tr.tr(pos[0].test)
        Tr.need(t1, "bool")
        Tr.need(t2, "bool")
        body += "/-- `\"\\\\\" * (escaping_count // 2)`: how many backslashes are printed for a run of `n` -/\n"
        body += "def escKeep (n : Int) : Int := %s\n" % keep_src
        body += "/-- `if escaping_count % 2 == 1`: the tag is literal text -/\n"
        body += "def escLiteral (n : Int) : Bool := %s\n" % odd_src
        body += "/-- `if escaping_count > 0`: a TEXT token with the kept backslashes is emitted before the tag -/\n"
        body += "def escEmits (n : Int) : Bool := %s\n\n" % pos_src

        htree, _ = parse_module("_handler.py")
        flags = {"self._colorize": ("colorize", "bool"), "self._is_formatter_dynamic": ("dynamic", "bool"),
                 "colorize": ("colorize", "bool"), "is_formatter_dynamic": ("dynamic", "bool")}
        ftr = Tr(flags)

        # (b) update_format
        uf = _normalise(find_func(htree, "update_format", cls="Handler"), ["self", "level_id"])
        stmts = [x for x in uf.body if not (isinstance(x, ast.Expr) and isinstance(x.value, ast.Constant))]
        guard = None
        rest = stmts
        if stmts and isinstance(stmts[0], ast.If) and len(stmts[0].body) == 1 and isinstance(stmts[0].body[0], ast.Return) \
                and stmts[0].body[0].value is None and not stmts[0].orelse:
            guard = ftr.tr(stmts[0].test)
            rest = stmts[1:]
        elif len(stmts) == 1 and isinstance(stmts[0], ast.If) and not stmts[0].orelse:       # if <do>: store
            g = ftr.tr(stmts[0].test)
            guard = ("(!%s)" % g[0], g[1])
            rest = stmts[0].body
        if guard is None:
            raise Unsupported("update_format: guard shape")
        Tr.need(guard[1], "bool")
        stores = [x for x in rest if isinstance(x, ast.Assign) and isinstance(x.targets[0], ast.Subscript)]
        others = [x for x in rest if x not in stores and not (isinstance(x, ast.Assign) and isinstance(x.targets[0], ast.Name))]
        if len(stores) != 1 or others:
            raise Unsupported("update_format: body shape")
        body += _bool_fun("updateSkips", "`Handler.update_format` returns without touching the cache when this holds", guard[0])
        body += "/-- … otherwise it executes exactly this store (locals inlined) -/\n"
        body += "def updateStores : List Char := %s\n\n" % lean_chars(ast.unparse(stores[0]))

        # (c) __init__: path condition of `for n in self._levels_ansi_codes: self.update_format(n)`; the table is kept
        init = find_func(htree, "__init__", cls="Handler")
        loops = []

        def walk(stmts, path):
            for st in stmts:
                if isinstance(st, ast.If):
                    walk(st.body, path + [(st.test, True)])
                    walk(st.orelse, path + [(st.test, False)])
                elif isinstance(st, ast.For):
                    it = ast.unparse(st.iter)
                    if it in ("self._levels_ansi_codes", "levels_ansi_codes", "self._levels_ansi_codes.keys()",
                              "levels_ansi_codes.keys()", "list(self._levels_ansi_codes)", "list(levels_ansi_codes)") \
                            and isinstance(st.target, ast.Name) and len(st.body) == 1 and not st.orelse \
                            and ast.unparse(st.body[0]) == "self.update_format(%s)" % st.target.id:
                        loops.append(path)
                    else:
                        walk(st.body, path)
                elif isinstance(st, (ast.With, ast.Try)):
                    walk(st.body, path)

        walk(init.body, [])
        nupd = sum(1 for n in ast.walk(init) if isinstance(n, ast.Call) and ast.unparse(n.func) == "self.update_format")
        if len(loops) != 1:
            raise Unsupported("Handler.__init__: the loop pre-colouring every level (%d found)" % len(loops))
        conj = []
        for test, pol in loops[0]:
            t, ty = ftr.tr(test)
            Tr.need(ty, "bool")
            conj.append(t if pol else "(!%s)" % t)
        body += _bool_fun("initUpdates", "`Handler.__init__` calls `update_format` for EVERY level name of the table exactly when this holds",
                          "(" + " && ".join(conj) + ")" if conj else "true")
        body += "def initUpdateCalls : Nat := %d\n" % nupd
        keeps_ref = [n for n in ast.walk(init) if isinstance(n, ast.Assign) and len(n.targets) == 1
                     and ast.unparse(n.targets[0]) == "self._levels_ansi_codes"]
        params = [a.arg for a in init.args.args + init.args.kwonlyargs]
        body += "/-- `self._levels_ansi_codes = levels_ansi_codes`: the handler keeps the very table it is given -/\n"
        body += "def handlerKeepsTableRef : Bool := %s\n\n" % (
            "true" if (len(keeps_ref) == 1 and isinstance(keeps_ref[0].value, ast.Name) and keeps_ref[0].value.id in params
                       and keeps_ref[0].value.id == "levels_ansi_codes") else "false")

        # (d) Logger.add passes the core's own table
        ltree, _ = parse_module("_logger.py")
        add = _normalise(find_func(ltree, "add", cls="Logger"), [a.arg for a in find_func(ltree, "add", cls="Logger").args.args])
        passed = []
        for n in ast.walk(add):
            if isinstance(n, ast.Call) and ast.unparse(n.func).split(".")[-1] == "Handler":
                for k in n.keywords:
                    if k.arg == "levels_ansi_codes":
                        passed.append(ast.unparse(k.value))
        if len(passed) != 1:
            raise Unsupported("Logger.add: Handler(levels_ansi_codes=…)")
        body += "/-- what `Logger.add` passes as `levels_ansi_codes` (locals inlined) -/\n"
        body += "def addPassesTable : List Char := %s\n\n" % lean_chars(passed[0])

        # (e) pickled state
        def dropped(fn):
            """every key of the state dict that `__getstate__` assigns (whatever the value), resolving loops over
            literal tuples; any other way of changing the state (update/pop/del/comprehension, a non-literal key,
            returning something else than the copied dict) is outside the subset: fail closed"""
            out = []
            stv = [ast.unparse(n.targets[0]) for n in ast.walk(fn) if isinstance(n, ast.Assign) and len(n.targets) == 1
                   and isinstance(n.targets[0], ast.Name) and isinstance(n.value, ast.Call)
                   and "__dict__" in ast.unparse(n.value)]
            if len(stv) != 1:
                raise Unsupported("%s: the state variable" % fn.name)
            st = stv[0]
            rets = [n for n in ast.walk(fn) if isinstance(n, ast.Return)]
            if len(rets) != 1 or ast.unparse(rets[0].value) != st:
                raise Unsupported("%s: returns something else than the copied __dict__" % fn.name)

            def keys_of(node, env):
                if isinstance(node, ast.Constant) and isinstance(node.value, str):
                    return [node.value]
                if isinstance(node, ast.Name) and node.id in env:
                    return env[node.id]
                raise Unsupported("%s: state key %s" % (fn.name, ast.unparse(node)))

            def walk_st(stmts, env):
                for x in stmts:
                    if isinstance(x, ast.Assign):
                        for t in x.targets:
                            if isinstance(t, ast.Subscript) and ast.unparse(t.value) == st:
                                out.extend(keys_of(t.slice, env))
                            elif isinstance(t, ast.Name) and t.id == st and "__dict__" not in ast.unparse(x.value):
                                raise Unsupported("%s: state re-bound" % fn.name)
                    elif isinstance(x, ast.For):
                        if isinstance(x.target, ast.Name) and isinstance(x.iter, (ast.Tuple, ast.List, ast.Set)) \
                                and all(isinstance(e, ast.Constant) and isinstance(e.value, str) for e in x.iter.elts):
                            walk_st(x.body, dict(env, **{x.target.id: [e.value for e in x.iter.elts]}))
                        else:
                            raise Unsupported("%s: loop %s" % (fn.name, ast.unparse(x.iter)))
                    elif isinstance(x, ast.If):
                        walk_st(x.body, env)
                        walk_st(x.orelse, env)
                    elif isinstance(x, (ast.With, ast.Try)):
                        walk_st(x.body, env)
                    elif isinstance(x, ast.Return) or (isinstance(x, ast.Expr) and isinstance(x.value, ast.Constant)):
                        pass
                    else:
                        if st in {n.id for n in ast.walk(x) if isinstance(n, ast.Name)}:
                            raise Unsupported("%s: statement touching the state: %s" % (fn.name, ast.unparse(x)[:60]))

            walk_st(fn.body, {})
            return sorted(set(out))

        def dict_copy(fn):
            return any(isinstance(n, ast.Call) and ast.unparse(n) in ("self.__dict__.copy()", "dict(self.__dict__)",
                                                                      "copy.copy(self.__dict__)", "copy(self.__dict__)")
                       for n in ast.walk(fn))

        cg = find_func(ltree, "__getstate__", cls="Core")
        hg = find_func(htree, "__getstate__", cls="Handler")
        hs = find_func(htree, "__setstate__", cls="Handler")
        body += "/-- keys `Core.__getstate__` overwrites in the (shallow) copy of `__dict__` -/\n"
        body += "def coreStateDropped : List (List Char) := [%s]\n" % ", ".join(lean_chars(k) for k in dropped(cg))
        body += "def coreStateIsDictCopy : Bool := %s\n" % ("true" if dict_copy(cg) else "false")
        body += "def handlerStateDropped : List (List Char) := [%s]\n" % ", ".join(lean_chars(k) for k in dropped(hg))
        body += "def handlerStateIsDictCopy : Bool := %s\n" % ("true" if dict_copy(hg) else "false")
        def memo_sources(v):
            """functions a value expression memoises afresh: `memoize(f)`, or `self.helper()` all of whose returns are
            such calls (the place where `memoize(...)` is written does not matter)"""
            if isinstance(v, ast.Call) and ast.unparse(v.func).split(".")[-1] == "memoize" and len(v.args) == 1:
                return [ast.unparse(v.args[0])]
            if isinstance(v, ast.Call) and isinstance(v.func, ast.Attribute) and isinstance(v.func.value, ast.Name) \
                    and v.func.value.id == "self" and not v.args and not v.keywords:
                try:
                    helper = find_func(htree, v.func.attr, cls="Handler")
                except Unsupported:
                    return []
                out = []
                for r in ast.walk(helper):
                    if isinstance(r, ast.Return):
                        if r.value is None:
                            return []
                        got = memo_sources(r.value) if not (isinstance(r.value, ast.Call) and isinstance(r.value.func, ast.Attribute)
                                                            and ast.unparse(r.value.func).startswith("self.")) else []
                        if not got:
                            return []
                        out.extend(got)
                return out
            return []

        memo = []
        for n in ast.walk(hs):
            if isinstance(n, ast.Assign) and ast.unparse(n.targets[0]) == "self._memoize_dynamic_format":
                memo.extend(memo_sources(n.value))
        memo = sorted(set(memo))
        body += "/-- `__setstate__` starts every dynamic handler with a FRESH memo (functions it memoises) -/\n"
        body += "def setstateFreshMemo : List (List Char) := [%s]\n" % ", ".join(lean_chars(m.split(".")[-1]) for m in sorted(memo))
    except (Unsupported, SyntaxError, KeyError, AttributeError, IndexError, OSError) as e:
        errors.append("%s: %s" % (type(e).__name__, e))
    body += "\nend Markup.GenShare\n"
    return emit("MarkupShare", body, ["loguru/_colorizer.py", "loguru/_handler.py", "loguru/_logger.py"], errors)


_generate_tables = generate


def generate():  # noqa: F811  (both files; each fails closed on its own)
    a = _generate_tables()
    b = generate_emit()
    c = generate_share()
    return a and b and c
