"""Generated/Buffer.lean (C09) from loguru/_file_sink.py, _simple_sinks.py, _handler.py, _logger.py,
__init__.py: the open() defaults of FileSink, the terminator / "{exception}" composition of
Logger.add, and the small methods the durability argument rests on, rendered as lists of primitive
operations that Buffer/Model.lean interprets (StreamSink.write, FileSink.write, FileSink._close_file,
Handler.stop, the loop body of Logger.remove, the atexit registration).  Fails closed."""
import ast

from extract_lib import Unsupported, emit, find_class, find_func, lean_chars, parse_module


def _u(node):
    return ast.unparse(node)


def _kwonly_defaults(fn):
    out = {}
    for a, d in zip(fn.args.kwonlyargs, fn.args.kw_defaults):
        out[a.arg] = d
    pos = fn.args.args
    for a, d in zip(pos[len(pos) - len(fn.args.defaults):], fn.args.defaults):
        out[a.arg] = d
    return out


def _const(node, typ, what):
    if isinstance(node, ast.UnaryOp) and isinstance(node.op, ast.USub) and isinstance(node.operand, ast.Constant) \
            and typ is int and isinstance(node.operand.value, int):
        return -node.operand.value
    if not isinstance(node, ast.Constant) or not isinstance(node.value, typ) or isinstance(node.value, bool):
        raise Unsupported("%s is not a %s literal: %s" % (what, typ.__name__, _u(node) if node is not None else None))
    return node.value


def _strip_doc(body):
    if body and isinstance(body[0], ast.Expr) and isinstance(body[0].value, ast.Constant) \
            and isinstance(body[0].value.value, str):
        return body[1:]
    return body


def _is_single_call_if(stmt, test_src, call_src):
    return (isinstance(stmt, ast.If) and not stmt.orelse and _u(stmt.test) == test_src
            and len(stmt.body) == 1 and isinstance(stmt.body[0], ast.Expr) and _u(stmt.body[0].value) == call_src)


def _bool_kernel(node, names):
    """tiny translator for conditions made of and/or/not over `X is None` / `X is not None` / names"""
    if isinstance(node, ast.BoolOp):
        sym = " && " if isinstance(node.op, ast.And) else " || "
        return "(" + sym.join(_bool_kernel(v, names) for v in node.values) + ")"
    if isinstance(node, ast.UnaryOp) and isinstance(node.op, ast.Not):
        return "(!" + _bool_kernel(node.operand, names) + ")"
    if isinstance(node, ast.Compare) and len(node.ops) == 1 and isinstance(node.comparators[0], ast.Constant) \
            and node.comparators[0].value is None and isinstance(node.ops[0], (ast.Is, ast.IsNot)):
        src = _u(node.left)
        if src in names:
            # names[src] is the Lean Bool "src is not None"
            return names[src] if isinstance(node.ops[0], ast.IsNot) else "(!" + names[src] + ")"
    if isinstance(node, (ast.Name, ast.Attribute)) and _u(node) in names:
        return names[_u(node)]
    raise Unsupported("condition outside the subset: " + _u(node))


def _file_sink(body):
    tree, _ = parse_module("_file_sink.py")
    init = find_func(tree, "__init__", cls="FileSink")
    d = _kwonly_defaults(init)
    for k in ("mode", "buffering", "encoding"):
        if k not in d:
            raise Unsupported("FileSink.__init__ has no default for " + k)
    body.append("/-- `FileSink.__init__(…, buffering=%s)` -/" % _u(d["buffering"]))
    body.append("def fileBuffering : Int := (%d : Int)" % _const(d["buffering"], int, "buffering"))
    body.append("/-- `FileSink.__init__(…, mode=%s)` -/" % _u(d["mode"]))
    body.append("def fileMode : Py.Str := %s" % lean_chars(_const(d["mode"], str, "mode")))
    body.append("def fileEncoding : Py.Str := %s" % lean_chars(_const(d["encoding"], str, "encoding")))
    # the defaults really reach open(): self._kwargs = {**kwargs, "mode": mode, "buffering": buffering, ...}
    kw = None
    for node in ast.walk(init):
        if isinstance(node, ast.Assign) and _u(node.targets[0]) == "self._kwargs" and isinstance(node.value, ast.Dict):
            kw = node.value
    if kw is None:
        raise Unsupported("self._kwargs assignment not found in FileSink.__init__")
    pairs = {}
    for k, v in zip(kw.keys, kw.values):
        if k is not None:
            pairs[_u(k).strip("'\"")] = _u(v)
    if pairs.get("mode") != "mode" or pairs.get("buffering") != "buffering" \
            or pairs.get("encoding") not in ("self.encoding", "encoding"):
        raise Unsupported("self._kwargs no longer forwards mode/buffering/encoding: %r" % (pairs,))
    cf = find_func(tree, "_create_file", cls="FileSink")
    first = _strip_doc(cf.body)[0]
    if not (isinstance(first, ast.Assign) and _u(first.targets[0]) == "self._file"
            and _u(first.value) == "open(path, **self._kwargs)"):
        raise Unsupported("_create_file no longer starts with self._file = open(path, **self._kwargs)")

    # FileSink.write as a list of operations
    w = find_func(tree, "write", cls="FileSink")
    ops = []
    for st in _strip_doc(w.body):
        src = _u(st)
        if isinstance(st, ast.If) and _u(st.test) == "self._file is None" and not st.orelse \
                and _u(st.body[-1]) == "self._create_file(path)":
            ops.append(".openIfNone")
        elif _is_single_call_if(st, "self._watch", "self._reopen_if_needed()"):
            ops.append(".reopenIfWatched")
        elif _is_single_call_if(st, "self._rotation_function is not None and self._rotation_function(message, self._file)",
                                "self._terminate_file(is_rotating=True)"):
            ops.append(".rotateIfDue")
        elif src == "self._file.write(message)":
            ops.append(".fileWrite")
        else:
            raise Unsupported("FileSink.write: unexpected statement: " + src.splitlines()[0])
    body.append("/-- the statements of `FileSink.write` -/")
    body.append("def fileWriteOps : List WriteOp := [%s]" % ", ".join(ops))

    # FileSink._close_file
    c = find_func(tree, "_close_file", cls="FileSink")
    ops = []
    bound = False  # since e6154e8: `file = self._file` first, then file.flush(), resets, file.close()
    for st in _strip_doc(c.body):
        src = _u(st)
        if src == "file = self._file" and not ops:
            bound = True
        elif src == "self._file.flush()" or (bound and src == "file.flush()"):
            ops.append(".flush")
        elif src == "self._file.close()" or (bound and src == "file.close()"):
            ops.append(".close")
        elif isinstance(st, ast.Assign) and len(st.targets) == 1 and _u(st.targets[0]).startswith("self._file") \
                and isinstance(st.value, (ast.Constant, ast.UnaryOp)):
            pass  # attribute resets
        else:
            raise Unsupported("FileSink._close_file: unexpected statement: " + src.splitlines()[0])
    body.append("/-- the statements of `FileSink._close_file` (attribute resets omitted) -/")
    body.append("def closeFileOps : List CloseOp := [%s]" % ", ".join(ops))

    # FileSink.stop : [if self._watch: reopen] ; self._terminate_file(is_rotating=False)
    s = find_func(tree, "stop", cls="FileSink")
    sts = _strip_doc(s.body)
    if sts and _is_single_call_if(sts[0], "self._watch", "self._reopen_if_needed()"):
        sts = sts[1:]
    term = None
    if len(sts) == 1 and isinstance(sts[0], ast.Expr) and isinstance(sts[0].value, ast.Call) \
            and _u(sts[0].value.func) == "self._terminate_file":
        call = sts[0].value
        if not call.args and len(call.keywords) == 1 and call.keywords[0].arg == "is_rotating" \
                and isinstance(call.keywords[0].value, ast.Constant) and isinstance(call.keywords[0].value.value, bool):
            term = call.keywords[0].value.value
        elif not call.args and not call.keywords:
            t = find_func(tree, "_terminate_file", cls="FileSink")
            dd = _kwonly_defaults(t)
            if isinstance(dd.get("is_rotating"), ast.Constant) and isinstance(dd["is_rotating"].value, bool):
                term = dd["is_rotating"].value
    if term is None:
        raise Unsupported("FileSink.stop is not a single call of _terminate_file: " + "; ".join(_u(x) for x in sts))
    body.append("/-- `FileSink.stop` = `self._terminate_file(is_rotating=%s)`; `some b` = that call -/" % term)
    body.append("def fileStopTerminate : Option Bool := some %s" % ("true" if term else "false"))

    # _terminate_file: closes the open file first; the end-of-life condition
    t = find_func(tree, "_terminate_file", cls="FileSink")
    sts = _strip_doc(t.body)
    closes_first = False
    for st in sts[:3]:
        if _is_single_call_if(st, "self._file is not None", "self._close_file()"):
            closes_first = True
    body.append("/-- `_terminate_file` begins with `if self._file is not None: self._close_file()` -/")
    body.append("def terminateClosesOpenFile : Bool := %s" % ("true" if closes_first else "false"))
    eol = None
    for st in sts:
        if isinstance(st, ast.If) and any("self._compression_function(old_path)" in _u(x) for x in st.body):
            eol = st
    if eol is None:
        raise Unsupported("_terminate_file: the compression/retention block was not found")
    names = {"is_rotating": "isRotating", "self._rotation_function": "hasRotation"}
    body.append("/-- `%s` : compression / retention run under this condition -/" % _u(eol.test))
    body.append("def endOfLife (isRotating hasRotation : Bool) : Bool := %s" % _bool_kernel(eol.test, names))
    comp = ret = None
    for st in eol.body:
        if isinstance(st, ast.If) and "self._compression_function(old_path)" in _u(st):
            comp = _bool_kernel(st.test, {"self._compression_function": "hasCompression", "old_path": "hasOldPath"})
        if isinstance(st, ast.If) and "self._retention_function(" in _u(st):
            ret = _bool_kernel(st.test, {"self._retention_function": "hasRetention"})
    if comp is None or ret is None:
        raise Unsupported("_terminate_file: compression / retention guards not found")
    body.append("def compressionGuard (hasCompression hasOldPath : Bool) : Bool := %s" % comp)
    body.append("def retentionGuard (hasRetention : Bool) : Bool := %s" % ret)


def _stream_sink(body):
    tree, _ = parse_module("_simple_sinks.py")
    init = find_func(tree, "__init__", cls="StreamSink")
    fl = None
    for st in init.body:
        if isinstance(st, ast.Assign) and _u(st.targets[0]) == "self._flushable":
            fl = st.value
    if fl is None:
        raise Unsupported("StreamSink.__init__: self._flushable not assigned")

    def kern(node):
        """the decision as a Bool kernel over what can be observed of a stream: has a callable flush,
        reports line_buffering, reports write_through, is a tty"""
        src = _u(node).replace('"', "'")
        atoms = {
            "callable(getattr(stream, 'flush', None))": "hasFlush",
            "hasattr(stream, 'flush')": "hasFlush",
            "getattr(stream, 'line_buffering', False)": "lineBuffering",
            "stream.line_buffering": "lineBuffering",
            "getattr(stream, 'write_through', False)": "writeThrough",
            "stream.write_through": "writeThrough",
        }
        if src in atoms:
            return atoms[src]
        if isinstance(node, ast.Constant) and isinstance(node.value, bool):
            return "true" if node.value else "false"
        if isinstance(node, ast.BoolOp):
            sym = " && " if isinstance(node.op, ast.And) else " || "
            return "(" + sym.join(kern(v) for v in node.values) + ")"
        if isinstance(node, ast.UnaryOp) and isinstance(node.op, ast.Not):
            return "(!" + kern(node.operand) + ")"
        raise Unsupported("StreamSink._flushable: condition outside the subset: " + src)

    body.append("/-- `self._flushable = %s` as a function of what the stream exposes -/" % _u(fl).replace("-/", "- /"))
    body.append("def flushableOf (hasFlush lineBuffering writeThrough : Bool) : Bool := %s" % kern(fl))
    w = find_func(tree, "write", cls="StreamSink")
    ops = []
    for st in _strip_doc(w.body):
        src = _u(st)
        if src == "self._stream.write(message)":
            ops.append(".write")
        elif _is_single_call_if(st, "self._flushable", "self._stream.flush()"):
            ops.append(".flushIfFlushable")
        elif src == "self._stream.flush()":
            ops.append(".flush")
        else:
            raise Unsupported("StreamSink.write: unexpected statement: " + src.splitlines()[0])
    body.append("/-- the statements of `StreamSink.write` -/")
    body.append("def streamWriteOps : List StreamOp := [%s]" % ", ".join(ops))


def _handler(body):
    tree, _ = parse_module("_handler.py")
    s = find_func(tree, "stop", cls="Handler")
    sts = _strip_doc(s.body)
    if not (len(sts) == 1 and isinstance(sts[0], ast.With) and len(sts[0].items) == 1
            and _u(sts[0].items[0].context_expr) == "self._protected_lock()"):
        raise Unsupported("Handler.stop is not a single `with self._protected_lock():` block")
    ops = []

    def one(st, enq):
        src = _u(st)
        tag = "true" if enq else "false"
        if src == "self._stopped = True":
            ops.append("(%s, .setStopped)" % tag)
        elif isinstance(st, ast.If) and _u(st.test) == "self._owner_process_pid != os.getpid()" \
                and len(st.body) == 1 and isinstance(st.body[0], ast.Return) and not st.orelse:
            ops.append("(%s, .returnIfNotOwner)" % tag)
        elif src == "self._queue.put(None)":
            ops.append("(%s, .putSentinel)" % tag)
        elif src == "self._thread.join()":
            ops.append("(%s, .joinWorker)" % tag)
        elif src == "self._queue.close()" or _is_single_call_if(st, "hasattr(self._queue, 'close')", "self._queue.close()"):
            ops.append("(%s, .closeQueue)" % tag)
        elif src == "self._sink.stop()":
            ops.append("(%s, .sinkStop)" % tag)
        elif isinstance(st, ast.If) and _u(st.test) == "self._enqueue" and not st.orelse and not enq:
            for x in st.body:
                one(x, True)
        else:
            raise Unsupported("Handler.stop: unexpected statement: " + src.splitlines()[0])

    for st in sts[0].body:
        one(st, False)
    body.append("/-- the statements of `Handler.stop` inside its lock; `true` = only under `if self._enqueue:` -/")
    body.append("def handlerStopOps : List (Bool × StopOp) := [%s]" % ", ".join(ops))

    # the worker loop of an enqueued handler: which queue items end it, which are written
    qw = find_func(tree, "_queued_writer", cls="Handler")
    loop = [st for st in qw.body if isinstance(st, ast.While)]
    if len(loop) != 1 or _u(loop[0].test) != "True" or loop[0].orelse:
        raise Unsupported("_queued_writer: expected a single `while True:` loop")
    for st in qw.body:
        if st is not loop[0] and not isinstance(st, ast.Assign):
            raise Unsupported("_queued_writer: unexpected statement outside the loop: " + _u(st).splitlines()[0])
    wops = []
    for st in loop[0].body:
        src = _u(st)
        if isinstance(st, ast.Try) and len(st.body) == 1 and _u(st.body[0]) == "message = queue.get()" \
                and len(st.handlers) == 1 and isinstance(st.handlers[0].body[-1], ast.Continue):
            wops.append(".get")
        elif src == "message = queue.get()":
            wops.append(".get")
        elif isinstance(st, ast.If) and not st.orelse and len(st.body) == 1 and isinstance(st.body[0], ast.Break):
            t = _u(st.test)
            if t == "message is None":
                wops.append(".breakIfNone")
            elif t in ("not message", "message is None or not message", "not message or message is None"):
                wops.append(".breakIfFalsy")
            else:
                raise Unsupported("_queued_writer: unknown end-of-loop test: " + t)
        elif isinstance(st, ast.If) and not st.orelse and _u(st.test) == "message is True" \
                and isinstance(st.body[-1], ast.Continue) and _u(st.body[0]) == "self._confirmation_event.set()":
            wops.append(".confirmIfTrue")
        elif isinstance(st, ast.With) and len(st.body) == 1 and isinstance(st.body[0], ast.Try) \
                and len(st.body[0].body) == 1 and _u(st.body[0].body[0]) == "self._sink.write(message)":
            wops.append(".write")
        elif src == "self._sink.write(message)":
            wops.append(".write")
        else:
            raise Unsupported("_queued_writer: unexpected statement in the loop: " + src.splitlines()[0])
    body.append("/-- the loop body of `Handler._queued_writer` (the worker thread of an enqueued handler) -/")
    body.append("def workerOps : List WorkerOp := [%s]" % ", ".join(wops))

    # the serialized text ends with a newline:  return json.dumps(...) + "\n"
    f = find_func(tree, "_serialize_record", cls="Handler")
    ret = [st for st in f.body if isinstance(st, ast.Return)]
    suffix = ""
    if ret and isinstance(ret[-1].value, ast.BinOp) and isinstance(ret[-1].value.op, ast.Add) \
            and isinstance(ret[-1].value.right, ast.Constant) and isinstance(ret[-1].value.right.value, str) \
            and _u(ret[-1].value.left).startswith("json.dumps("):
        suffix = ret[-1].value.right.value
    elif ret and isinstance(ret[-1].value, ast.Call) and _u(ret[-1].value.func) == "json.dumps":
        suffix = ""
    else:
        raise Unsupported("_serialize_record: return shape")
    body.append("/-- `_serialize_record` returns `json.dumps(...) + %r` -/" % suffix)
    body.append("def serializeSuffix : Py.Str := %s" % lean_chars(suffix))


def _logger(body):
    tree, _ = parse_module("_logger.py")
    add = find_func(tree, "add", cls="Logger")
    term = {}

    def scan(stmts):
        kind, t = None, None
        for st in stmts:
            if isinstance(st, ast.Assign) and _u(st.targets[0]) == "wrapped_sink" and isinstance(st.value, ast.Call):
                kind = _u(st.value.func)
            if isinstance(st, ast.Assign) and _u(st.targets[0]) == "terminator":
                t = st.value
        if kind is not None and t is not None:
            term[kind] = _const(t, str, "terminator of " + kind)

    for node in ast.walk(add):
        if isinstance(node, ast.If):
            scan(node.body)
            scan(node.orelse)
    for k in ("FileSink", "StreamSink"):
        if k not in term:
            raise Unsupported("Logger.add: terminator of the %s branch not found" % k)
    body.append("/-- `terminator` in the `FileSink` branch of `Logger.add` -/")
    body.append("def fileTerminator : Py.Str := %s" % lean_chars(term["FileSink"]))
    body.append("/-- `terminator` in the `StreamSink` branch of `Logger.add` -/")
    body.append("def streamTerminator : Py.Str := %s" % lean_chars(term["StreamSink"]))
    comp = None
    for node in ast.walk(add):
        if isinstance(node, ast.Assign) and _u(node.targets[0]) == "formatter" and isinstance(node.value, ast.Call) \
                and _u(node.value.func) == "Colorizer.prepare_format" and len(node.value.args) == 1:
            comp = node.value.args[0]
    if comp is None:
        raise Unsupported("Logger.add: formatter = Colorizer.prepare_format(...) not found")
    parts = []

    def flat(e):
        if isinstance(e, ast.BinOp) and isinstance(e.op, ast.Add):
            flat(e.left)
            flat(e.right)
        elif isinstance(e, ast.Name) and e.id == "format":
            parts.append(".format")
        elif isinstance(e, ast.Name) and e.id == "terminator":
            parts.append(".terminator")
        elif isinstance(e, ast.Constant) and isinstance(e.value, str):
            parts.append(".lit %s" % lean_chars(e.value))
        else:
            raise Unsupported("Logger.add: template operand " + _u(e))

    flat(comp)
    body.append("/-- operands of `%s` -/" % _u(comp))
    body.append("def templateParts : List FmtPart := [%s]" % ", ".join(parts))

    # Logger.remove: `handler_ids = list(self._core.handlers)` when no id is given; each id: … handler.stop()
    rm = find_func(tree, "remove", cls="Logger")
    all_ids = False
    loop = None
    for node in ast.walk(rm):
        if isinstance(node, ast.If) and _u(node.test) == "handler_id is None" and len(node.body) == 1 \
                and _u(node.body[0]) in ("handler_ids = list(self._core.handlers)",
                                         "handler_ids = list(self._core.handlers.keys())"):
            all_ids = True
        if isinstance(node, ast.For) and _u(node.iter) == "handler_ids":
            loop = node
    if loop is None:
        raise Unsupported("Logger.remove: loop over handler_ids not found")
    ops = []
    popped = published = False
    for st in loop.body:
        src = _u(st)
        if src == "handler = handlers.pop(handler_id)":
            popped = True
        elif src == "self._core.handlers = handlers":
            published = True
            ops.append(".unregister")
        elif src == "handler.stop()":
            if not popped:
                raise Unsupported("Logger.remove: handler.stop() before the handler is looked up")
            ops.append(".handlerStop")
        elif isinstance(st, ast.Assign):
            pass  # handlers copy, levelnos, min_level
        else:
            raise Unsupported("Logger.remove: unexpected statement in the loop: " + src.splitlines()[0])
    body.append("/-- `remove(None)` iterates over every registered handler id -/")
    body.append("def removeNoneTakesAll : Bool := %s" % ("true" if all_ids else "false"))
    body.append("/-- loop body of `Logger.remove` (per handler) -/")
    body.append("def removeOps : List RemoveOp := [%s]" % ", ".join(ops))


def _init(body):
    tree, _ = parse_module("__init__.py")
    alias = None
    logger_assigned = False
    hooks = []
    for st in tree.body:
        if isinstance(st, ast.Import):
            for a in st.names:
                if a.name == "atexit":
                    alias = a.asname or "atexit"
        if isinstance(st, ast.Assign) and _u(st.targets[0]) == "logger":
            logger_assigned = True
        if isinstance(st, ast.Expr) and isinstance(st.value, ast.Call) and alias is not None \
                and _u(st.value.func) == alias + ".register":
            c = st.value
            if logger_assigned and len(c.args) == 1 and not c.keywords and _u(c.args[0]) == "logger.remove":
                hooks.append(".loggerRemove")
            else:
                raise Unsupported("__init__: unexpected atexit registration: " + _u(st))
    body.append("/-- module level of `loguru/__init__.py`: what is registered with `atexit`, in order -/")
    body.append("def atexitHooks : List Hook := [%s]" % ", ".join(hooks))


def generate():
    errors = []
    body = ["import LoguruModel.Buffer.Base", "set_option linter.unusedVariables false", "namespace Buffer.Gen", ""]
    for part in (_file_sink, _stream_sink, _handler, _logger, _init):
        try:
            part(body)
            body.append("")
        except (Unsupported, SyntaxError, KeyError, AttributeError, IndexError, TypeError, OSError) as e:
            errors.append("%s: %s: %s" % (part.__name__, type(e).__name__, e))
    body.append("end Buffer.Gen")
    return emit("Buffer", "\n".join(body) + "\n",
                ["loguru/_file_sink.py", "loguru/_simple_sinks.py", "loguru/_handler.py", "loguru/_logger.py",
                 "loguru/__init__.py"], errors)
