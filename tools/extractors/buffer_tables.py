"""Generated/Buffer.lean (C09) from loguru/_file_sink.py, _simple_sinks.py, _handler.py, _logger.py,
__init__.py: the open() defaults of FileSink, the terminator / "{exception}" composition of
Logger.add, and the small methods the durability argument rests on, rendered as lists of primitive
operations that Buffer/Model.lean interprets (StreamSink.write, FileSink.write, FileSink._close_file,
Handler.stop, the loop body of Logger.remove, the atexit registration).  Fails closed."""
import ast

from extract_lib import Unsupported, emit, find_class, find_func, lean_chars, parse_module


def _u(node):
    return ast.unparse(node)


def _kwonly_defaults(fn):
    out = {}
    for a, d in zip(fn.args.kwonlyargs, fn.args.kw_defaults):
        out[a.arg] = d
    pos = fn.args.args
    for a, d in zip(pos[len(pos) - len(fn.args.defaults):], fn.args.defaults):
        out[a.arg] = d
    return out


def _const(node, typ, what):
    if isinstance(node, ast.UnaryOp) and isinstance(node.op, ast.USub) and isinstance(node.operand, ast.Constant) \
            and typ is int and isinstance(node.operand.value, int):
        return -node.operand.value
    if not isinstance(node, ast.Constant) or not isinstance(node.value, typ) or isinstance(node.value, bool):
        raise Unsupported("%s is not a %s literal: %s" % (what, typ.__name__, _u(node) if node is not None else None))
    return node.value


def _strip_doc(body):
    if body and isinstance(body[0], ast.Expr) and isinstance(body[0].value, ast.Constant) \
            and isinstance(body[0].value.value, str):
        return body[1:]
    return body


# ----------------------------------------------------------------------------- normalisation
# Shapes are compared modulo behaviour-preserving rewrites: alpha-renaming of parameters / locals,
# single-assignment local aliases of `self.…` attribute chains (inlined when the attribute is not
# re-assigned in the function), `if c: x = a else: x = b` vs `x = a if c else b`, a call of a
# private straight-line helper of the same class in statement position (inlined one level deep).
# What is compared afterwards is still exact: which call, which argument, which order, under
# which guard / lock / try.  Anything else fails closed.
_BLOCKS = ("body", "orelse", "finalbody")


def _map_blocks(stmts, f):
    """apply f (list -> list) to every statement list, innermost first"""
    out = []
    for st in stmts:
        for fld in _BLOCKS:
            if isinstance(getattr(st, fld, None), list) and getattr(st, fld) and isinstance(getattr(st, fld)[0], ast.stmt):
                setattr(st, fld, _map_blocks(getattr(st, fld), f))
        if isinstance(st, ast.Try):
            for h in st.handlers:
                h.body = _map_blocks(h.body, f)
        out.append(st)
    return f(out)


def _stores(node):
    """names bound in `node`, in source order (assignment / for / with-as / except-as / comprehension targets)"""
    out = []

    def visit(n):
        if isinstance(n, ast.Name) and isinstance(n.ctx, ast.Store):
            out.append(n.id)
        if isinstance(n, ast.ExceptHandler) and n.name:
            out.append(n.name)
        if isinstance(n, (ast.FunctionDef, ast.AsyncFunctionDef, ast.Lambda, ast.ClassDef)) and n is not node:
            return
        for c in ast.iter_child_nodes(n):
            visit(c)

    visit(node)
    return out


class _Rename(ast.NodeTransformer):
    def __init__(self, mapping):
        self.mapping = mapping

    def visit_Name(self, n):
        v = self.mapping.get(n.id)
        if v is None:
            return n
        if isinstance(v, str):
            return ast.copy_location(ast.Name(id=v, ctx=n.ctx), n)
        return ast.copy_location(__import__("copy").deepcopy(v), n) if isinstance(n.ctx, ast.Load) else n

    def visit_ExceptHandler(self, n):
        if n.name and isinstance(self.mapping.get(n.name), str):
            n.name = self.mapping[n.name]
        self.generic_visit(n)
        return n


def _pure_self_chain(e):
    while isinstance(e, ast.Attribute):
        e = e.value
    return isinstance(e, ast.Name) and e.id == "self"


KEEP = ("_close_file", "_create_file", "_create_dirs", "_create_path", "_reopen_if_needed", "_terminate_file",
        "_protected_lock", "_queued_writer")


def canon(cls, fn, keep=KEEP):
    """canonical statement list of method `fn` of class node `cls` (see above); parameters become
    p0, p1, … (keyword-only ones keep their API names), locals v0, v1, … in order of first binding"""
    import copy
    fn = copy.deepcopy(fn)
    methods = {m.name: m for m in (cls.body if cls is not None else []) if isinstance(m, ast.FunctionDef)}

    def inline_helpers(stmts):
        out = []
        for st in stmts:
            h = None
            if isinstance(st, ast.Expr) and isinstance(st.value, ast.Call) and not st.value.args and not st.value.keywords \
                    and isinstance(st.value.func, ast.Attribute) and isinstance(st.value.func.value, ast.Name) \
                    and st.value.func.value.id == "self" and st.value.func.attr.startswith("_"):
                h = methods.get(st.value.func.attr)
            if h is not None and h is not fn and [a.arg for a in h.args.args] == ["self"] and not h.args.kwonlyargs \
                    and not h.args.vararg and not h.args.kwarg and not h.decorator_list \
                    and all(isinstance(x, (ast.Assign, ast.Expr, ast.AugAssign)) for x in _strip_doc(h.body)) \
                    and h.name not in keep:
                hb = copy.deepcopy(_strip_doc(h.body))
                ren = {n: "_%s_%s" % (h.name, n) for n in set(sum((_stores(x) for x in hb), []))}
                out += [_Rename(ren).visit(x) for x in hb]
            else:
                out.append(st)
        return out

    def ifelse(stmts):
        out = []
        for st in stmts:
            if isinstance(st, ast.If) and len(st.body) == 1 and len(st.orelse) == 1 \
                    and all(isinstance(x, ast.Assign) and len(x.targets) == 1 and isinstance(x.targets[0], ast.Name)
                            for x in (st.body[0], st.orelse[0])) \
                    and st.body[0].targets[0].id == st.orelse[0].targets[0].id:
                out.append(ast.copy_location(ast.Assign(
                    targets=[st.body[0].targets[0]],
                    value=ast.IfExp(test=st.test, body=st.body[0].value, orelse=st.orelse[0].value)), st))
            else:
                out.append(st)
        return out

    body = _map_blocks(_strip_doc(fn.body), inline_helpers)
    body = _map_blocks(body, ifelse)
    mod = ast.Module(body=body, type_ignores=[])
    # single-assignment aliases of self.… chains whose attribute is never re-bound in this function
    stores = _stores(mod)
    rebound = set()
    for n in ast.walk(mod):
        if isinstance(n, (ast.Assign, ast.AugAssign, ast.AnnAssign, ast.Delete)):
            for t in (n.targets if isinstance(n, (ast.Assign, ast.Delete)) else [n.target]):
                if isinstance(t, ast.Attribute):
                    rebound.add(_u(t))
    alias = {}
    for st in body:
        if isinstance(st, ast.Assign) and len(st.targets) == 1 and isinstance(st.targets[0], ast.Name) \
                and stores.count(st.targets[0].id) == 1 and isinstance(st.value, ast.Attribute) \
                and _pure_self_chain(st.value) and not any(r == _u(st.value) or _u(st.value).startswith(r + ".")
                                                            for r in rebound):
            alias[st.targets[0].id] = st.value
    params = [a.arg for a in fn.args.args if a.arg != "self"]
    body = [st for st in body if not (isinstance(st, ast.Assign) and isinstance(st.targets[0], ast.Name)
                                      and st.targets[0].id in alias and st.value is alias[st.targets[0].id])]
    mod = ast.Module(body=body, type_ignores=[])
    _Rename(alias).visit(mod)
    mapping = {n: "p%d" % i for i, n in enumerate(params)}
    keep = {a.arg for a in fn.args.kwonlyargs} | {"self"}
    k = 0
    for n in _stores(mod):
        if n not in mapping and n not in keep:
            mapping[n] = "v%d" % k
            k += 1
    _Rename(mapping).visit(mod)
    ast.fix_missing_locations(mod)
    return mod.body, mapping


class Match:
    """pattern matching on canonical source text: `$x` stands for one canonical parameter / local
    (p0, v3, …), bound consistently across all patterns matched through the same object"""

    def __init__(self):
        self.b = {}

    def __call__(self, node_or_src, pat):
        import re
        src = node_or_src if isinstance(node_or_src, str) else _u(node_or_src)
        rx, local = "", set()
        for part in re.split(r"(\$\w+)", pat):
            if part.startswith("$"):
                n = part[1:]
                if n in self.b:
                    rx += re.escape(self.b[n])
                elif n in local:
                    rx += "(?P=%s)" % n
                else:
                    local.add(n)
                    rx += "(?P<%s>[pv]\\d+|_\\w+)" % n
            else:
                rx += re.escape(part)
        m = re.fullmatch(rx, src)
        if m:
            self.b.update(m.groupdict())
            return True
        return False


def _single_call_if(M, stmt, test_pat, call_pat):
    return (isinstance(stmt, ast.If) and not stmt.orelse and len(stmt.body) == 1 and isinstance(stmt.body[0], ast.Expr)
            and M(stmt.test, test_pat) and M(stmt.body[0].value, call_pat))


def _is_single_call_if(stmt, test_src, call_src):
    return (isinstance(stmt, ast.If) and not stmt.orelse and _u(stmt.test) == test_src
            and len(stmt.body) == 1 and isinstance(stmt.body[0], ast.Expr) and _u(stmt.body[0].value) == call_src)


def _bool_kernel(node, names):
    """tiny translator for conditions made of and/or/not over `X is None` / `X is not None` / names"""
    if isinstance(node, ast.BoolOp):
        sym = " && " if isinstance(node.op, ast.And) else " || "
        return "(" + sym.join(_bool_kernel(v, names) for v in node.values) + ")"
    if isinstance(node, ast.UnaryOp) and isinstance(node.op, ast.Not):
        return "(!" + _bool_kernel(node.operand, names) + ")"
    if isinstance(node, ast.Compare) and len(node.ops) == 1 and isinstance(node.comparators[0], ast.Constant) \
            and node.comparators[0].value is None and isinstance(node.ops[0], (ast.Is, ast.IsNot)):
        src = _u(node.left)
        if src in names:
            # names[src] is the Lean Bool "src is not None"
            return names[src] if isinstance(node.ops[0], ast.IsNot) else "(!" + names[src] + ")"
    if isinstance(node, (ast.Name, ast.Attribute)) and _u(node) in names:
        return names[_u(node)]
    raise Unsupported("condition outside the subset: " + _u(node))


def _file_sink(body):
    tree, _ = parse_module("_file_sink.py")
    init = find_func(tree, "__init__", cls="FileSink")
    d = _kwonly_defaults(init)
    for k in ("mode", "buffering", "encoding"):
        if k not in d:
            raise Unsupported("FileSink.__init__ has no default for " + k)
    body.append("/-- `FileSink.__init__(…, buffering=%s)` -/" % _u(d["buffering"]))
    body.append("def fileBuffering : Int := (%d : Int)" % _const(d["buffering"], int, "buffering"))
    body.append("/-- `FileSink.__init__(…, mode=%s)` -/" % _u(d["mode"]))
    body.append("def fileMode : Py.Str := %s" % lean_chars(_const(d["mode"], str, "mode")))
    body.append("def fileEncoding : Py.Str := %s" % lean_chars(_const(d["encoding"], str, "encoding")))
    # the defaults really reach open(): self._kwargs = {**kwargs, "mode": mode, "buffering": buffering, ...}
    kw = None
    for node in ast.walk(init):
        if isinstance(node, ast.Assign) and _u(node.targets[0]) == "self._kwargs" and isinstance(node.value, ast.Dict):
            kw = node.value
    if kw is None:
        raise Unsupported("self._kwargs assignment not found in FileSink.__init__")
    pairs = {}
    for k, v in zip(kw.keys, kw.values):
        if k is not None:
            pairs[_u(k).strip("'\"")] = _u(v)
    if pairs.get("mode") != "mode" or pairs.get("buffering") != "buffering" \
            or pairs.get("encoding") not in ("self.encoding", "encoding"):
        raise Unsupported("self._kwargs no longer forwards mode/buffering/encoding: %r" % (pairs,))
    cls = find_class(tree, "FileSink")
    # the constructor opens the file at once unless `delay`: its last statement is
    # `if not delay: …; self._create_file(path)` (or the unconditional tail `…; self._create_file(path)`)
    ini, _m = canon(cls, init)
    M = Match()
    opens = None
    if ini and isinstance(ini[-1], ast.If) and not ini[-1].orelse and ini[-1].body \
            and M(ini[-1].body[-1], "self._create_file($path)"):
        opens = _bool_kernel(ini[-1].test, {"delay": "delay"})
    elif ini and M(ini[-1], "self._create_file($path)"):
        opens = "true"
    if opens is None:
        raise Unsupported("FileSink.__init__ does not end with [if not delay:] … self._create_file(path)")
    for st in ini[:-1]:
        if any(isinstance(n, ast.Call) and _u(n.func) in ("self._create_file", "open") for n in ast.walk(st)):
            raise Unsupported("FileSink.__init__ opens a file before its last statement: " + _u(st).splitlines()[0])
    body.append("/-- does `FileSink.__init__` open the file at once?  (`if not delay: … self._create_file(path)`) -/")
    body.append("def initOpens (delay : Bool) : Bool := %s" % opens)
    cf, _m = canon(cls, find_func(tree, "_create_file", cls="FileSink"))
    M = Match()
    if not (cf and isinstance(cf[0], ast.Assign) and M(cf[0], "self._file = open($path, **self._kwargs)")
            and M.b["path"] == "p0"):
        raise Unsupported("_create_file no longer starts with self._file = open(path, **self._kwargs)")

    # FileSink.write as a list of operations
    w, _m = canon(cls, find_func(tree, "write", cls="FileSink"))
    M = Match()
    ops = []
    for st in w:
        if isinstance(st, ast.If) and _u(st.test) == "self._file is None" and not st.orelse \
                and M(st.body[-1], "self._create_file($newpath)"):
            ops.append(".openIfNone")
        elif _single_call_if(M, st, "self._watch", "self._reopen_if_needed()"):
            ops.append(".reopenIfWatched")
        elif _single_call_if(M, st, "self._rotation_function is not None and self._rotation_function($msg, self._file)",
                             "self._terminate_file(is_rotating=True)") and M.b["msg"] == "p0":
            ops.append(".rotateIfDue")
        elif M(st, "self._file.write($msg)") and M.b["msg"] == "p0":
            ops.append(".fileWrite")
        else:
            raise Unsupported("FileSink.write: unexpected statement: " + _u(st).splitlines()[0])
    body.append("/-- the statements of `FileSink.write` -/")
    body.append("def fileWriteOps : List WriteOp := [%s]" % ", ".join(ops))

    # FileSink._close_file: flush / close of the file object that was open on entry (directly, or through a
    # local bound to it before `self._file` is reset - since e6154e8)
    c, _m = canon(cls, find_func(tree, "_close_file", cls="FileSink"))
    M = Match()
    ops = []
    reset = False
    for st in c:
        if M(st, "$f = self._file") and not ops and not reset:
            pass
        elif (M(st, "self._file.flush()") and not reset) or ("f" in M.b and M(st, "$f.flush()")):
            ops.append(".flush")
        elif (M(st, "self._file.close()") and not reset) or ("f" in M.b and M(st, "$f.close()")):
            ops.append(".close")
        elif isinstance(st, ast.Assign) and len(st.targets) == 1 and _u(st.targets[0]).startswith("self._file") \
                and isinstance(st.value, (ast.Constant, ast.UnaryOp)):
            reset = reset or _u(st.targets[0]) == "self._file"   # attribute resets
        else:
            raise Unsupported("FileSink._close_file: unexpected statement: " + _u(st).splitlines()[0])
    body.append("/-- the statements of `FileSink._close_file` (attribute resets omitted) -/")
    body.append("def closeFileOps : List CloseOp := [%s]" % ", ".join(ops))

    # FileSink.stop : [if self._watch: reopen] ; self._terminate_file(is_rotating=False)
    sts, _m = canon(cls, find_func(tree, "stop", cls="FileSink"))
    M = Match()
    if sts and _single_call_if(M, sts[0], "self._watch", "self._reopen_if_needed()"):
        sts = sts[1:]
    term = None
    if len(sts) == 1 and isinstance(sts[0], ast.Expr) and isinstance(sts[0].value, ast.Call) \
            and _u(sts[0].value.func) == "self._terminate_file":
        call = sts[0].value
        if not call.args and len(call.keywords) == 1 and call.keywords[0].arg == "is_rotating" \
                and isinstance(call.keywords[0].value, ast.Constant) and isinstance(call.keywords[0].value.value, bool):
            term = call.keywords[0].value.value
        elif not call.args and not call.keywords:
            t = find_func(tree, "_terminate_file", cls="FileSink")
            dd = _kwonly_defaults(t)
            if isinstance(dd.get("is_rotating"), ast.Constant) and isinstance(dd["is_rotating"].value, bool):
                term = dd["is_rotating"].value
    if term is None:
        raise Unsupported("FileSink.stop is not a single call of _terminate_file: " + "; ".join(_u(x) for x in sts))
    body.append("/-- `FileSink.stop` = `self._terminate_file(is_rotating=%s)`; `some b` = that call -/" % term)
    body.append("def fileStopTerminate : Option Bool := some %s" % ("true" if term else "false"))

    # _terminate_file: closes the open file first; the end-of-life condition
    sts, _m = canon(cls, find_func(tree, "_terminate_file", cls="FileSink"))
    M = Match()
    closes_first = False
    for st in sts[:3]:
        if _single_call_if(M, st, "self._file is not None", "self._close_file()"):
            closes_first = True
    body.append("/-- `_terminate_file` begins with `if self._file is not None: self._close_file()` -/")
    body.append("def terminateClosesOpenFile : Bool := %s" % ("true" if closes_first else "false"))
    # the ORDER of the steps of _terminate_file: close / rename aside (rotating) / compression+retention / create (rotating)
    helpers = {m.name: m for m in cls.body if isinstance(m, ast.FunctionDef)}

    def calls(node, name):
        """does `node` call `name` - directly or through one private helper of the class?"""
        for n in ast.walk(node):
            if isinstance(n, ast.Call):
                f = _u(n.func)
                if f == name:
                    return True
                if f.startswith("self.") and f[5:] in helpers and f[5:] not in ("_terminate_file",) \
                        and any(isinstance(y, ast.Call) and _u(y.func) == name for y in ast.walk(helpers[f[5:]])):
                    return True
        return False

    tops = []
    for st in sts:
        if _single_call_if(M, st, "self._file is not None", "self._close_file()"):
            tops.append(".closeIfOpen")
        elif isinstance(st, ast.If) and _u(st.test) == "is_rotating" and not st.orelse and calls(st, "self._create_file"):
            if calls(st, "os.rename"):
                raise Unsupported("_terminate_file: rename and create in one block")
            tops.append(".createIfRotating")
        elif isinstance(st, ast.If) and _u(st.test) == "is_rotating" and not st.orelse and calls(st, "os.rename"):
            tops.append(".renameIfRotating")
        elif isinstance(st, ast.If) and (calls(st, "self._compression_function") or calls(st, "self._retention_function")):
            tops.append(".endOfLife")
        elif isinstance(st, ast.Assign) and not calls(st, "os.rename") and not calls(st, "self._create_file") \
                and not calls(st, "self._close_file") and not calls(st, "open"):
            pass            # old_path = self._file_path and the like
        else:
            raise Unsupported("_terminate_file: unexpected statement: " + _u(st).splitlines()[0])
    body.append("/-- the steps of `_terminate_file`, in source order -/")
    body.append("def terminateOps : List TermOp := [%s]" % ", ".join(tops))
    eol = None
    for st in sts:
        if isinstance(st, ast.If) and any(isinstance(y, ast.Expr) and M(y, "self._compression_function($old)")
                                          for x in st.body for y in ast.walk(x)):
            eol = st
    if eol is None:
        raise Unsupported("_terminate_file: the compression/retention block was not found")
    names = {"is_rotating": "isRotating", "self._rotation_function": "hasRotation"}
    body.append("/-- `%s` : compression / retention run under this condition -/" % _u(eol.test))
    body.append("def endOfLife (isRotating hasRotation : Bool) : Bool := %s" % _bool_kernel(eol.test, names))
    comp = ret = None
    for st in eol.body:
        if isinstance(st, ast.If) and any(isinstance(y, ast.Expr) and M(y, "self._compression_function($old)") for y in st.body):
            comp = _bool_kernel(st.test, {"self._compression_function": "hasCompression", M.b["old"]: "hasOldPath"})
        if isinstance(st, ast.If) and "self._retention_function(" in _u(st):
            ret = _bool_kernel(st.test, {"self._retention_function": "hasRetention"})
    if comp is None or ret is None:
        raise Unsupported("_terminate_file: compression / retention guards not found")
    body.append("def compressionGuard (hasCompression hasOldPath : Bool) : Bool := %s" % comp)
    body.append("def retentionGuard (hasRetention : Bool) : Bool := %s" % ret)


def _stream_sink(body):
    tree, _ = parse_module("_simple_sinks.py")
    cls = find_class(tree, "StreamSink")
    init, _m = canon(cls, find_func(tree, "__init__", cls="StreamSink"))
    # the attribute holding the stream (`self.X = <the constructor's parameter>`), whatever it is called
    stream_attr = None
    attrs = {}
    for st in init:
        if isinstance(st, ast.Assign) and len(st.targets) == 1 and isinstance(st.targets[0], ast.Attribute) \
                and _u(st.targets[0].value) == "self":
            attrs[st.targets[0].attr] = st.value
            if _u(st.value) == "p0" and stream_attr is None:
                stream_attr = st.targets[0].attr
    if stream_attr is None:
        raise Unsupported("StreamSink.__init__: the stream is not stored in an attribute")
    S = "self." + stream_attr
    w, _m = canon(cls, find_func(tree, "write", cls="StreamSink"))
    M = Match()
    ops = []
    guard = None
    for st in w:
        if M(st, S + ".write($msg)") and M.b["msg"] == "p0":
            ops.append(".write")
        elif isinstance(st, ast.If) and not st.orelse and len(st.body) == 1 and _u(st.body[0]) == S + ".flush()" \
                and isinstance(st.test, ast.Attribute) and _u(st.test.value) == "self" and st.test.attr in attrs \
                and guard in (None, st.test.attr):
            guard = st.test.attr          # the private flag deciding the flush, whatever it is called
            ops.append(".flushIfFlushable")
        elif _u(st) == S + ".flush()":
            ops.append(".flush")
        else:
            raise Unsupported("StreamSink.write: unexpected statement: " + _u(st).splitlines()[0])
    if guard is None:
        guard = "_flushable" if "_flushable" in attrs else None
    if guard is None:
        raise Unsupported("StreamSink: no attribute decides whether the stream is flushed")
    fl = attrs[guard]

    # StreamSink.stop
    sp, _m = canon(cls, find_func(tree, "stop", cls="StreamSink"))
    sops = []
    sguard = None
    for st in sp:
        if isinstance(st, ast.If) and not st.orelse and len(st.body) == 1 and _u(st.body[0]) == S + ".stop()" \
                and isinstance(st.test, ast.Attribute) and _u(st.test.value) == "self" and st.test.attr in attrs \
                and sguard in (None, st.test.attr):
            sguard = st.test.attr
            sops.append(".stopIfStoppable")
        elif _u(st) == S + ".stop()":
            sops.append(".stop")
        else:
            raise Unsupported("StreamSink.stop: unexpected statement: " + _u(st).splitlines()[0])
    if sguard is None:
        sguard = "_stoppable" if "_stoppable" in attrs else None
    if sguard is None:
        raise Unsupported("StreamSink: no attribute decides whether the stream is stopped")
    if sguard == guard:
        raise Unsupported("StreamSink: one attribute decides both flush and stop")

    depth = [0]

    def kern(node):
        """the decision as a Bool kernel over what can be observed of a stream (p0 = the constructor's
        parameter): has a callable flush, reports line_buffering, reports write_through"""
        src = _u(node).replace('"', "'")
        atoms = {
            "callable(getattr(p0, 'flush', None))": "hasFlush",
            "hasattr(p0, 'flush')": "hasFlush",
            "callable(inspect.getattr_static(p0, 'flush', None))": "hasStaticFlush",
            "callable(getattr_static(p0, 'flush', None))": "hasStaticFlush",
            "getattr(p0, 'line_buffering', False)": "lineBuffering",
            "p0.line_buffering": "lineBuffering",
            "getattr(p0, 'write_through', False)": "writeThrough",
            "p0.write_through": "writeThrough",
            "callable(getattr(p0, 'stop', None))": "hasStop",
            "hasattr(p0, 'stop')": "hasStop",
            "callable(inspect.getattr_static(p0, 'stop', None))": "hasStaticStop",
            "callable(getattr_static(p0, 'stop', None))": "hasStaticStop",
        }
        if src in atoms:
            return atoms[src]
        # a module-level private helper whose body is a single `return <expr>`: followed one level deep
        if isinstance(node, ast.Call) and isinstance(node.func, ast.Name) and not node.keywords:
            h = [f for f in tree.body if isinstance(f, ast.FunctionDef) and f.name == node.func.id]
            if len(h) == 1 and len(_strip_doc(h[0].body)) == 1 and isinstance(_strip_doc(h[0].body)[0], ast.Return) \
                    and len(h[0].args.args) == len(node.args) and not h[0].args.kwonlyargs and depth[0] == 0:
                import copy
                sub = {a.arg: v for a, v in zip(h[0].args.args, node.args)}
                depth[0] += 1
                try:
                    return kern(_Rename(sub).visit(copy.deepcopy(_strip_doc(h[0].body)[0].value)))
                finally:
                    depth[0] -= 1
        if isinstance(node, ast.Constant) and isinstance(node.value, bool):
            return "true" if node.value else "false"
        if isinstance(node, ast.Compare) and len(node.ops) == 1 and isinstance(node.comparators[0], ast.Constant) \
                and isinstance(node.comparators[0].value, bool) and isinstance(node.ops[0], (ast.Is, ast.IsNot, ast.Eq, ast.NotEq)) \
                and _u(node.left).replace('"', "'") in atoms:
            # `<atom> is True`, `<atom> is not True`, … (the atoms are Bool-valued for every object of the grid)
            a = atoms[_u(node.left).replace('"', "'")]
            same = isinstance(node.ops[0], (ast.Is, ast.Eq)) == node.comparators[0].value
            return a if same else "(!" + a + ")"
        if isinstance(node, ast.BoolOp):
            sym = " && " if isinstance(node.op, ast.And) else " || "
            return "(" + sym.join(kern(v) for v in node.values) + ")"
        if isinstance(node, ast.UnaryOp) and isinstance(node.op, ast.Not):
            return "(!" + kern(node.operand) + ")"
        raise Unsupported("StreamSink flush decision: condition outside the subset: " + src)

    body.append("/-- `self.%s = %s` (p0 = the stream) as a function of what the stream exposes -/"
                % (guard, _u(fl).replace("-/", "- /")))
    body.append("def flushableOf (hasFlush hasStaticFlush lineBuffering writeThrough : Bool) : Bool := %s" % kern(fl))
    body.append("/-- the statements of `StreamSink.write` -/")
    body.append("def streamWriteOps : List StreamOp := [%s]" % ", ".join(ops))
    body.append("/-- `self.%s = %s` (p0 = the stream) as a function of what the stream exposes -/"
                % (sguard, _u(attrs[sguard]).replace("-/", "- /")))
    body.append("def stoppableOf (hasStop hasStaticStop hasFlush hasStaticFlush lineBuffering writeThrough : Bool) : Bool := %s"
                % kern(attrs[sguard]))
    body.append("/-- the statements of `StreamSink.stop` -/")
    body.append("def streamStopOps : List StreamStopOp := [%s]" % ", ".join(sops))


def _handler(body):
    tree, _ = parse_module("_handler.py")
    cls = find_class(tree, "Handler")
    sts, _m = canon(cls, find_func(tree, "stop", cls="Handler"))
    if not (len(sts) == 1 and isinstance(sts[0], ast.With) and len(sts[0].items) == 1
            and _u(sts[0].items[0].context_expr) == "self._protected_lock()"):
        raise Unsupported("Handler.stop is not a single `with self._protected_lock():` block")
    ops = []
    M = Match()

    def one(st, enq):
        src = _u(st)
        tag = "true" if enq else "false"
        if src == "self._stopped = True":
            ops.append("(%s, .setStopped)" % tag)
        elif isinstance(st, ast.If) and _u(st.test) in ("self._owner_process_pid != os.getpid()",
                                                         "os.getpid() != self._owner_process_pid",
                                                         "self._owner_process_pid != getpid()") \
                and len(st.body) == 1 and isinstance(st.body[0], ast.Return) and st.body[0].value is None and not st.orelse:
            ops.append("(%s, .returnIfNotOwner)" % tag)
        elif src == "self._queue.put(None)":
            ops.append("(%s, .putSentinel)" % tag)
        elif src == "self._thread.join()" or src == "self._thread.join(None)" or src == "self._thread.join(timeout=None)":
            ops.append("(%s, .joinWorker)" % tag)
        elif isinstance(st, ast.Expr) and isinstance(st.value, ast.Call) and _u(st.value.func) == "self._thread.join":
            ops.append("(%s, .joinWorkerTimeout)" % tag)      # a bounded wait
        elif src == "self._queue.close()" or _single_call_if(M, st, "hasattr(self._queue, 'close')", "self._queue.close()"):
            ops.append("(%s, .closeQueue)" % tag)
        elif src == "self._sink.stop()":
            ops.append("(%s, .sinkStop)" % tag)
        elif isinstance(st, ast.If) and _u(st.test) == "self._enqueue" and not st.orelse and not enq:
            for x in st.body:
                one(x, True)
        else:
            raise Unsupported("Handler.stop: unexpected statement: " + src.splitlines()[0])

    for st in sts[0].body:
        one(st, False)
    body.append("/-- the statements of `Handler.stop` inside its lock; `true` = only under `if self._enqueue:` -/")
    body.append("def handlerStopOps : List (Bool × StopOp) := [%s]" % ", ".join(ops))

    # the tail of Handler.emit: what happens to the formatted message under the handler's lock
    em, _m = canon(cls, find_func(tree, "emit", cls="Handler"))
    withs = [n for n in ast.walk(ast.Module(body=em, type_ignores=[])) if isinstance(n, ast.With)
             and len(n.items) == 1 and _u(n.items[0].context_expr) == "self._protected_lock()"]
    if len(withs) != 1:
        raise Unsupported("Handler.emit: expected exactly one `with self._protected_lock():` block")
    M = Match()

    def acts(stmts):
        out = []
        for x in stmts:
            if M(x, "self._queue.put($m)"):
                out.append(".queuePut")
            elif M(x, "self._sink.write($m)"):
                out.append(".sinkWrite")
            else:
                raise Unsupported("Handler.emit: unexpected statement under the lock: " + _u(x).splitlines()[0])
        return "[%s]" % ", ".join(out)

    eops = []
    for st in withs[0].body:
        if isinstance(st, ast.If) and _u(st.test) == "self._stopped" and not st.orelse and len(st.body) == 1 \
                and isinstance(st.body[0], ast.Return) and st.body[0].value is None:
            eops.append(".returnIfStopped")
        elif isinstance(st, ast.If) and _u(st.test) == "self._enqueue":
            eops.append(".ifEnqueue %s %s" % (acts(st.body), acts(st.orelse)))
        elif isinstance(st, ast.If) and _u(st.test) == "not self._enqueue":
            eops.append(".ifEnqueue %s %s" % (acts(st.orelse), acts(st.body)))
        elif isinstance(st, ast.Expr):
            a = acts([st])
            eops.append(".act " + a[1:-1])
        else:
            raise Unsupported("Handler.emit: unexpected statement under the lock: " + _u(st).splitlines()[0])
    # nothing else in emit may hand the message over
    for n in ast.walk(ast.Module(body=em, type_ignores=[])):
        if isinstance(n, ast.Call) and _u(n.func) in ("self._queue.put", "self._sink.write") \
                and not any(n is y for y in ast.walk(withs[0])):
            raise Unsupported("Handler.emit: the message is handed over outside the lock: " + _u(n))
    body.append("/-- the statements of `Handler.emit` under `with self._protected_lock():` -/")
    body.append("def emitOps : List EmitOp := [%s]" % ", ".join(eops))

    # the worker loop of an enqueued handler: which queue items end it, which are written
    qw, _m = canon(cls, find_func(tree, "_queued_writer", cls="Handler"))
    loop = [st for st in qw if isinstance(st, ast.While)]
    if len(loop) != 1 or _u(loop[0].test) != "True" or loop[0].orelse:
        raise Unsupported("_queued_writer: expected a single `while True:` loop")
    for st in qw:
        if st is not loop[0] and not isinstance(st, ast.Assign):
            raise Unsupported("_queued_writer: unexpected statement outside the loop: " + _u(st).splitlines()[0])
    wops = []
    M = Match()
    for st in loop[0].body:
        if isinstance(st, ast.Try) and len(st.body) == 1 and M(st.body[0], "$item = self._queue.get()") \
                and st.handlers and not st.orelse and not st.finalbody:
            # every error of get() (it also un-pickles the item) must be caught and the loop must go on:
            # all handlers end with `continue`, and one of them catches Exception (or everything)
            goes_on = all(isinstance(h.body[-1], ast.Continue) for h in st.handlers)
            catches_all = any(h.type is None or _u(h.type) in ("Exception", "BaseException") for h in st.handlers)
            wops.append(".get" if (goes_on and catches_all) else ".getBreakOnError")
        elif M(st, "$item = self._queue.get()"):
            wops.append(".get")
        elif isinstance(st, ast.If) and not st.orelse and len(st.body) == 1 and isinstance(st.body[0], ast.Break):
            if M(st.test, "$item is None"):
                wops.append(".breakIfNone")
            elif M(st.test, "not $item") or M(st.test, "$item is None or not $item") or M(st.test, "not $item or $item is None"):
                wops.append(".breakIfFalsy")
            else:
                raise Unsupported("_queued_writer: unknown end-of-loop test: " + _u(st.test))
        elif isinstance(st, ast.If) and not st.orelse and M(st.test, "$item is True") \
                and isinstance(st.body[-1], ast.Continue) and _u(st.body[0]) == "self._confirmation_event.set()":
            wops.append(".confirmIfTrue")
        elif isinstance(st, ast.With) and len(st.body) == 1 and isinstance(st.body[0], ast.Try) \
                and len(st.body[0].body) == 1 and M(st.body[0].body[0], "self._sink.write($item)"):
            # an error of the sink is reported and the loop goes on: no handler may leave the loop
            for h in st.body[0].handlers:
                if any(isinstance(n, (ast.Break, ast.Return, ast.Raise)) for x in h.body for n in ast.walk(x)):
                    raise Unsupported("_queued_writer: an error of sink.write ends the worker loop")
            if st.body[0].finalbody or st.body[0].orelse:
                raise Unsupported("_queued_writer: unexpected else/finally around sink.write")
            wops.append(".write")
        elif M(st, "self._sink.write($item)"):
            wops.append(".write")
        else:
            raise Unsupported("_queued_writer: unexpected statement in the loop: " + _u(st).splitlines()[0])
    body.append("/-- the loop body of `Handler._queued_writer` (the worker thread of an enqueued handler) -/")
    body.append("def workerOps : List WorkerOp := [%s]" % ", ".join(wops))

    # the serialized text ends with a newline:  return json.dumps(...) + "\n"
    f = find_func(tree, "_serialize_record", cls="Handler")
    ret = [st for st in f.body if isinstance(st, ast.Return)]
    suffix = ""
    if ret and isinstance(ret[-1].value, ast.BinOp) and isinstance(ret[-1].value.op, ast.Add) \
            and isinstance(ret[-1].value.right, ast.Constant) and isinstance(ret[-1].value.right.value, str) \
            and _u(ret[-1].value.left).startswith("json.dumps("):
        suffix = ret[-1].value.right.value
    elif ret and isinstance(ret[-1].value, ast.Call) and _u(ret[-1].value.func) == "json.dumps":
        suffix = ""
    else:
        raise Unsupported("_serialize_record: return shape")
    body.append("/-- `_serialize_record` returns `json.dumps(...) + %r` -/" % suffix)
    body.append("def serializeSuffix : Py.Str := %s" % lean_chars(suffix))


def _logger(body):
    tree, _ = parse_module("_logger.py")
    add = find_func(tree, "add", cls="Logger")
    term = {}

    # the terminator in force in the branch that builds each kind of sink: assigned in the branch itself, or
    # the last assignment at function level before the if/elif chain (a default the branch does not override)
    def branches(node):
        yield node.body
        if len(node.orelse) == 1 and isinstance(node.orelse[0], ast.If):
            yield from branches(node.orelse[0])
        elif node.orelse:
            yield node.orelse

    default = None
    for st in _strip_doc(add.body):
        if isinstance(st, ast.Assign) and any(_u(t) == "terminator" for t in st.targets):
            default = st.value
        elif isinstance(st, ast.If):
            for br in branches(st):
                kind, t = None, default
                for x in br:
                    if isinstance(x, ast.Assign) and _u(x.targets[0]) == "wrapped_sink" and isinstance(x.value, ast.Call):
                        kind = _u(x.value.func)
                    if isinstance(x, ast.Assign) and any(_u(tt) == "terminator" for tt in x.targets):
                        t = x.value
                    elif not isinstance(x, ast.Assign) and "terminator" in _stores(x):
                        t = None      # assigned under a condition inside the branch: not understood
                if kind is not None and kind not in term and t is not None:
                    term[kind] = _const(t, str, "terminator of " + kind)
        elif "terminator" in _stores(st):
            default = None
    for k in ("FileSink", "StreamSink"):
        if k not in term:
            raise Unsupported("Logger.add: terminator of the %s branch not found" % k)
    body.append("/-- `terminator` in the `FileSink` branch of `Logger.add` -/")
    body.append("def fileTerminator : Py.Str := %s" % lean_chars(term["FileSink"]))
    body.append("/-- `terminator` in the `StreamSink` branch of `Logger.add` -/")
    body.append("def streamTerminator : Py.Str := %s" % lean_chars(term["StreamSink"]))
    comp = None
    for node in ast.walk(add):
        if isinstance(node, ast.Assign) and _u(node.targets[0]) == "formatter" and isinstance(node.value, ast.Call) \
                and _u(node.value.func) == "Colorizer.prepare_format" and len(node.value.args) == 1:
            comp = node.value.args[0]
    if comp is None:
        raise Unsupported("Logger.add: formatter = Colorizer.prepare_format(...) not found")
    parts = []

    def flat(e):
        if isinstance(e, ast.BinOp) and isinstance(e.op, ast.Add):
            flat(e.left)
            flat(e.right)
        elif isinstance(e, ast.Name) and e.id == "format":
            parts.append(".format")
        elif isinstance(e, ast.Name) and e.id == "terminator":
            parts.append(".terminator")
        elif isinstance(e, ast.Constant) and isinstance(e.value, str):
            parts.append(".lit %s" % lean_chars(e.value))
        else:
            raise Unsupported("Logger.add: template operand " + _u(e))

    flat(comp)
    body.append("/-- operands of `%s` -/" % _u(comp))
    body.append("def templateParts : List FmtPart := [%s]" % ", ".join(parts))

    # Logger.remove: every registered id when no id is given; each id: … handler.stop()
    rm, _m = canon(find_class(tree, "Logger"), find_func(tree, "remove", cls="Logger"))
    M = Match()
    all_ids = False
    loop = None
    mod = ast.Module(body=rm, type_ignores=[])
    for node in ast.walk(mod):
        if isinstance(node, ast.If) and M(node.test, "$hid is None") and M.b["hid"] == "p0" and len(node.body) == 1 \
                and (M(node.body[0], "$ids = list(self._core.handlers)") or M(node.body[0], "$ids = list(self._core.handlers.keys())")):
            all_ids = True
        if isinstance(node, ast.Assign) and isinstance(node.value, ast.IfExp) and M(node.value.test, "$hid is None") \
                and M.b["hid"] == "p0" and M(node.targets[0], "$ids") \
                and _u(node.value.body) in ("list(self._core.handlers)", "list(self._core.handlers.keys())"):
            all_ids = True
    for node in ast.walk(mod):
        if isinstance(node, ast.For) and "ids" in M.b and M(node.iter, "$ids"):
            loop = node
    if loop is None:
        raise Unsupported("Logger.remove: loop over the handler ids not found")
    M.b["lv"] = _u(loop.target)
    ops = []
    popped = False
    for st in loop.body:
        if M(st, "$h = $hs.pop(" + M.b["lv"] + ")"):
            popped = True
        elif "hs" in M.b and M(st, "self._core.handlers = $hs"):
            ops.append(".unregister")
        elif "h" in M.b and M(st, "$h.stop()"):
            if not popped:
                raise Unsupported("Logger.remove: handler.stop() before the handler is looked up")
            ops.append(".handlerStop")
        elif isinstance(st, ast.Assign):
            pass  # handlers copy, levelnos, min_level
        else:
            raise Unsupported("Logger.remove: unexpected statement in the loop: " + _u(st).splitlines()[0])
    body.append("/-- `remove(None)` iterates over every registered handler id -/")
    body.append("def removeNoneTakesAll : Bool := %s" % ("true" if all_ids else "false"))
    body.append("/-- loop body of `Logger.remove` (per handler) -/")
    body.append("def removeOps : List RemoveOp := [%s]" % ", ".join(ops))


def _init(body):
    tree, _ = parse_module("__init__.py")
    alias = None
    logger_assigned = False
    hooks = []
    reg = None   # `from atexit import register [as r]`
    for st in tree.body:
        if isinstance(st, ast.Import):
            for a in st.names:
                if a.name == "atexit":
                    alias = a.asname or "atexit"
        if isinstance(st, ast.ImportFrom) and st.module == "atexit" and st.level == 0:
            for a in st.names:
                if a.name == "register":
                    reg = a.asname or "register"
        if isinstance(st, ast.Assign) and _u(st.targets[0]) == "logger":
            logger_assigned = True
        if isinstance(st, ast.Expr) and isinstance(st.value, ast.Call) \
                and ((alias is not None and _u(st.value.func) == alias + ".register")
                     or (reg is not None and _u(st.value.func) == reg)):
            c = st.value
            if logger_assigned and len(c.args) == 1 and not c.keywords and _u(c.args[0]) == "logger.remove":
                hooks.append(".loggerRemove")
            else:
                raise Unsupported("__init__: unexpected atexit registration: " + _u(st))
    body.append("/-- module level of `loguru/__init__.py`: what is registered with `atexit`, in order -/")
    body.append("def atexitHooks : List Hook := [%s]" % ", ".join(hooks))


def generate():
    errors = []
    body = ["import LoguruModel.Buffer.Base", "set_option linter.unusedVariables false", "namespace Buffer.Gen", ""]
    for part in (_file_sink, _stream_sink, _handler, _logger, _init):
        try:
            part(body)
            body.append("")
        except (Unsupported, SyntaxError, KeyError, AttributeError, IndexError, TypeError, OSError) as e:
            errors.append("%s: %s: %s" % (part.__name__, type(e).__name__, e))
    body.append("end Buffer.Gen")
    return emit("Buffer", "\n".join(body) + "\n",
                ["loguru/_file_sink.py", "loguru/_simple_sinks.py", "loguru/_handler.py", "loguru/_logger.py",
                 "loguru/__init__.py"], errors)
