"""Generated/Datetime.lean from loguru/_datetime.py (C11)."""
import ast
import re as _re

from extract_lib import *  # noqa: F401,F403
from extract_lib import Tr, Unsupported, emit, find_func, lean_chars, lean_str, module_assign, parse_module


# ----------------------------------------------------------------------------- _datetime.py
def generate():
    errors = []
    body = "import LoguruModel.Datetime.Base\nset_option linter.unusedVariables false\nnamespace Datetime.Gen\n\n"
    try:
        tree, _ = parse_module("_datetime.py")
        tokens = module_assign(tree, "tokens")
        if not (isinstance(tokens, ast.Constant) and isinstance(tokens.value, str)):
            raise Unsupported("tokens is not a string literal")
        alts = tokens.value.split("|")
        pat = module_assign(tree, "pattern")
        want = 're.compile("(?:{0})|\\\\[(?:{0}|!UTC|)\\\\]".format(tokens))'
        got = ast.unparse(pat).replace("'", '"')
        if got != want:
            raise Unsupported("pattern has another shape: " + got)
        lean_alts = []
        for a in alts:
            m = _re.fullmatch(r"(\w)\{(\d+),(\d+)\}", a)
            if m:
                lean_alts.append(".rep '%s' %s (some %s)" % m.groups())
            elif _re.fullmatch(r"(\w)\+", a):
                lean_alts.append(".rep '%s' 1 none" % a[0])
            elif _re.fullmatch(r"\w+", a):
                lean_alts.append(".lit %s" % lean_chars(a))
            else:
                raise Unsupported("token alternative " + a)
        body += "/-- alternatives of the `tokens` regex, in order -/\n"
        body += "def tokenAlts : List Alt := [\n  " + ",\n  ".join(lean_alts) + "]\n\n"

        # the `rep` table inside _compile_format
        fn = find_func(tree, "_compile_format")
        rep = None
        for node in ast.walk(fn):
            if isinstance(node, ast.Assign) and isinstance(node.targets[0], ast.Name) \
                    and node.targets[0].id == "rep" and isinstance(node.value, ast.Dict):
                rep = node.value
        if rep is None:
            raise Unsupported("rep table not found")
        env = {}
        for f in ("tm_year", "tm_mon", "tm_mday", "tm_hour", "tm_min", "tm_sec", "tm_wday", "tm_yday"):
            env["t." + f] = ("t." + f, "int")
        for f in ("year", "month", "day", "hour", "minute", "second", "microsecond"):
            env["dt." + f] = ("dt." + f, "int")
        subs = {"month_name": ("Py.Calendar.monthName", "str"), "month_abbr": ("Py.Calendar.monthAbbr", "str"),
                "day_name": ("Py.Calendar.dayName", "str"), "day_abbr": ("Py.Calendar.dayAbbr", "str")}

        def call_fmt_tz(tr, node):
            if len(node.args) == 1 and ast.unparse(node.args[0]) == "dt" and len(node.keywords) == 1 \
                    and node.keywords[0].arg == "sep" and isinstance(node.keywords[0].value, ast.Constant):
                return ("(formatTimezone dt %s)" % lean_chars(node.keywords[0].value.value), "str")
            raise Unsupported("call shape " + ast.unparse(node))

        def call_ts(tr, node):
            if len(node.args) == 1 and ast.unparse(node.args[0]) == "dt" and not node.keywords:
                return ("(timestampMicroseconds dt)", "int")
            raise Unsupported("call shape " + ast.unparse(node))

        calls = {"_format_timezone": call_fmt_tz, "_timestamp_microseconds": call_ts}
        rows = []
        for k, v in zip(rep.keys, rep.values):
            if not (isinstance(k, ast.Constant) and isinstance(v, ast.Tuple) and len(v.elts) == 2):
                raise Unsupported("rep entry shape")
            tok = k.value
            spec, lam = v.elts
            if not (isinstance(spec, ast.Constant) and isinstance(lam, ast.Lambda)):
                raise Unsupported("rep entry %s" % tok)
            if [a.arg for a in lam.args.args] != ["t", "dt"]:
                raise Unsupported("lambda args of %s" % tok)
            src = ast.unparse(lam.body)
            if src == "(dt.tzinfo or timezone.utc).tzname(dt) or ''":
                term, typ = "dt.tzname", "str"
            else:
                term, typ = Tr(env, calls, subs).tr(lam.body)
            body += "/-- `%s`: %s -/\n" % (tok, src.replace("-/", "- /"))
            body += "def k_%s (t : Tm) (dt : Dt) : %s := %s\n" % (tok, "Int" if typ == "int" else "Py.Str", term)
            rows.append('  (%s, %s, Datetime.Kernel.%s k_%s)' % (lean_chars(tok), lean_chars(spec.value), typ, tok))
        body += "\n/-- the `rep` table of `_compile_format` -/\n"
        body += "def table : List (Py.Str × Py.Str × Kernel) := [\n" + ",\n".join(rows) + "]\n\n"

        # _default_datetime_formatter: format string + argument tuple
        dfn = find_func(tree, "_default_datetime_formatter")
        ret = dfn.body[0]
        if not (isinstance(ret, ast.Return) and isinstance(ret.value, ast.BinOp) and isinstance(ret.value.op, ast.Mod)
                and isinstance(ret.value.left, ast.Constant) and isinstance(ret.value.right, ast.Tuple)):
            raise Unsupported("_default_datetime_formatter shape")
        body += "def defaultFormatString : Py.Str := %s\n" % lean_chars(ret.value.left.value)
        args = []
        for e in ret.value.right.elts:
            term, typ = Tr(env, calls, subs).tr(e)
            args.append("  Datetime.Kernel.%s (fun (t : Tm) (dt : Dt) => %s)" % (typ, term))
        body += "def defaultArgs : List Kernel := [\n" + ",\n".join(args) + "]\n\n"
        # the literal that selects the fast path, the UTC suffix, the iso default, the 7-S guard
        consts = {}
        for node in ast.walk(fn):
            if isinstance(node, ast.Compare) and ast.unparse(node.left) == "spec" and isinstance(node.ops[0], ast.Eq):
                consts["fast"] = node.comparators[0].value
            if isinstance(node, ast.Call) and ast.unparse(node.func) == "spec.endswith":
                consts["suffix"] = node.args[0].value
            if isinstance(node, ast.Compare) and isinstance(node.ops[0], ast.In) and ast.unparse(node.comparators[0]) == "spec":
                consts.setdefault("in", []).append(node.left.value)
            if isinstance(node, ast.If) and ast.unparse(node.test) == "not spec":
                consts["iso"] = node.body[0].value.value
            if isinstance(node, ast.If) and ast.unparse(node.test) == "is_utc":
                consts["cut"] = ast.unparse(node.body[0])
        if consts.get("cut") != "spec = spec[:-4]" or len(consts.get("suffix", "")) != 4:
            raise Unsupported("!UTC suffix handling changed: %r" % (consts,))
        if consts.get("in") != ["%", "SSSSSSS"]:
            raise Unsupported("order of the '%%' / 'SSSSSSS' tests changed: %r" % (consts.get("in"),))
        # order of the steps of _compile_format: the fast-path test must come first (before the suffix is cut)
        order = []
        for st in fn.body:
            src = ast.unparse(st)
            if isinstance(st, ast.If) and src.startswith("if spec == "):
                order.append("fast")
            elif src.startswith("is_utc = spec.endswith"):
                order.append("utc")
            elif isinstance(st, ast.If) and src.startswith("if is_utc"):
                order.append("cut")
            elif isinstance(st, ast.If) and src.startswith("if not spec"):
                order.append("iso")
            elif isinstance(st, ast.If) and "'%' in spec" in src:
                order.append("percent")
            elif isinstance(st, ast.If) and "'SSSSSSS' in spec" in src:
                order.append("sevenS")
        body += "/-- order of the steps of `_compile_format` -/\n"
        body += "def compileSteps : List String := [%s]\n" % ", ".join(lean_str(x) for x in order)
        body += "def fastPathSpec : Py.Str := %s\n" % lean_chars(consts["fast"])
        body += "def utcSuffix : Py.Str := %s\n" % lean_chars(consts["suffix"])
        body += "def isoSpec : Py.Str := %s\n" % lean_chars(consts["iso"])
        body += "def tooManyS : Py.Str := %s\n" % lean_chars(consts["in"][1])
    except (Unsupported, SyntaxError, KeyError, AttributeError, IndexError) as e:
        errors.append("%s: %s" % (type(e).__name__, e))
    body += "\nend Datetime.Gen\n"
    return emit("Datetime", body, ["loguru/_datetime.py"], errors)


