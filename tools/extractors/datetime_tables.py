"""Generated/Datetime.lean from loguru/_datetime.py (C11)."""
import ast
import re as _re

from extract_lib import *  # noqa: F401,F403
from extract_lib import Tr, Unsupported, emit, find_func, lean_chars, lean_str, module_assign, parse_module


# ----------------------------------------------------------------------------- _datetime.py
def _generate_tables():
    errors = []
    body = "import LoguruModel.Datetime.Base\nset_option linter.unusedVariables false\nnamespace Datetime.Gen\n\n"
    try:
        tree, _ = parse_module("_datetime.py")
        tokens = module_assign(tree, "tokens")
        if not (isinstance(tokens, ast.Constant) and isinstance(tokens.value, str)):
            raise Unsupported("tokens is not a string literal")
        alts = tokens.value.split("|")
        pat = module_assign(tree, "pattern")
        want = 're.compile("(?:{0})|\\\\[(?:{0}|!UTC|)\\\\]".format(tokens))'
        got = ast.unparse(pat).replace("'", '"')
        if got != want:
            raise Unsupported("pattern has another shape: " + got)
        lean_alts = []
        for a in alts:
            m = _re.fullmatch(r"(\w)\{(\d+),(\d+)\}", a)
            if m:
                lean_alts.append(".rep '%s' %s (some %s)" % m.groups())
            elif _re.fullmatch(r"(\w)\+", a):
                lean_alts.append(".rep '%s' 1 none" % a[0])
            elif _re.fullmatch(r"\w+", a):
                lean_alts.append(".lit %s" % lean_chars(a))
            else:
                raise Unsupported("token alternative " + a)
        body += "/-- alternatives of the `tokens` regex, in order -/\n"
        body += "def tokenAlts : List Alt := [\n  " + ",\n  ".join(lean_alts) + "]\n\n"

        # the `rep` table inside _compile_format
        fn = find_func(tree, "_compile_format")
        rep = None
        for node in ast.walk(fn):
            if isinstance(node, ast.Assign) and isinstance(node.targets[0], ast.Name) \
                    and node.targets[0].id == "rep" and isinstance(node.value, ast.Dict):
                rep = node.value
        if rep is None:
            raise Unsupported("rep table not found")
        env = {}
        for f in ("tm_year", "tm_mon", "tm_mday", "tm_hour", "tm_min", "tm_sec", "tm_wday", "tm_yday"):
            env["t." + f] = ("t." + f, "int")
        for f in ("year", "month", "day", "hour", "minute", "second", "microsecond"):
            env["dt." + f] = ("dt." + f, "int")
        subs = {"month_name": ("Py.Calendar.monthName", "str"), "month_abbr": ("Py.Calendar.monthAbbr", "str"),
                "day_name": ("Py.Calendar.dayName", "str"), "day_abbr": ("Py.Calendar.dayAbbr", "str")}

        def call_fmt_tz(tr, node):
            if len(node.args) == 1 and ast.unparse(node.args[0]) == "dt" and len(node.keywords) == 1 \
                    and node.keywords[0].arg == "sep" and isinstance(node.keywords[0].value, ast.Constant):
                return ("(formatTimezone dt %s)" % lean_chars(node.keywords[0].value.value), "str")
            raise Unsupported("call shape " + ast.unparse(node))

        def call_ts(tr, node):
            if len(node.args) == 1 and ast.unparse(node.args[0]) == "dt" and not node.keywords:
                return ("(timestampMicroseconds dt)", "int")
            raise Unsupported("call shape " + ast.unparse(node))

        calls = {"_format_timezone": call_fmt_tz, "_timestamp_microseconds": call_ts}
        rows = []
        for k, v in zip(rep.keys, rep.values):
            if not (isinstance(k, ast.Constant) and isinstance(v, ast.Tuple) and len(v.elts) == 2):
                raise Unsupported("rep entry shape")
            tok = k.value
            spec, lam = v.elts
            if not (isinstance(spec, ast.Constant) and isinstance(lam, ast.Lambda)):
                raise Unsupported("rep entry %s" % tok)
            if [a.arg for a in lam.args.args] != ["t", "dt"]:
                raise Unsupported("lambda args of %s" % tok)
            src = ast.unparse(lam.body)
            if src == "(dt.tzinfo or timezone.utc).tzname(dt) or ''":
                term, typ = "dt.tzname", "str"
            else:
                term, typ = Tr(env, calls, subs).tr(lam.body)
            body += "/-- `%s`: %s -/\n" % (tok, src.replace("-/", "- /"))
            body += "def k_%s (t : Tm) (dt : Dt) : %s := %s\n" % (tok, "Int" if typ == "int" else "Py.Str", term)
            rows.append('  (%s, %s, Datetime.Kernel.%s k_%s)' % (lean_chars(tok), lean_chars(spec.value), typ, tok))
        body += "\n/-- the `rep` table of `_compile_format` -/\n"
        body += "def table : List (Py.Str × Py.Str × Kernel) := [\n" + ",\n".join(rows) + "]\n\n"

        # _default_datetime_formatter: format string + argument tuple
        dfn = find_func(tree, "_default_datetime_formatter")
        ret = dfn.body[0]
        if not (isinstance(ret, ast.Return) and isinstance(ret.value, ast.BinOp) and isinstance(ret.value.op, ast.Mod)
                and isinstance(ret.value.left, ast.Constant) and isinstance(ret.value.right, ast.Tuple)):
            raise Unsupported("_default_datetime_formatter shape")
        body += "def defaultFormatString : Py.Str := %s\n" % lean_chars(ret.value.left.value)
        args = []
        for e in ret.value.right.elts:
            term, typ = Tr(env, calls, subs).tr(e)
            args.append("  Datetime.Kernel.%s (fun (t : Tm) (dt : Dt) => %s)" % (typ, term))
        body += "def defaultArgs : List Kernel := [\n" + ",\n".join(args) + "]\n\n"
        # the literal that selects the fast path, the UTC suffix, the iso default, the 7-S guard
        consts = {}
        for node in ast.walk(fn):
            if isinstance(node, ast.Compare) and ast.unparse(node.left) == "spec" and isinstance(node.ops[0], ast.Eq):
                consts["fast"] = node.comparators[0].value
            if isinstance(node, ast.Call) and ast.unparse(node.func) == "spec.endswith":
                consts["suffix"] = node.args[0].value
            if isinstance(node, ast.Compare) and isinstance(node.ops[0], ast.In) and ast.unparse(node.comparators[0]) == "spec":
                consts.setdefault("in", []).append(node.left.value)
            if isinstance(node, ast.If) and ast.unparse(node.test) == "not spec":
                consts["iso"] = node.body[0].value.value
            if isinstance(node, ast.If) and ast.unparse(node.test) == "is_utc":
                consts["cut"] = ast.unparse(node.body[0])
        if consts.get("cut") != "spec = spec[:-4]" or len(consts.get("suffix", "")) != 4:
            raise Unsupported("!UTC suffix handling changed: %r" % (consts,))
        if consts.get("in") != ["%", "SSSSSSS"]:
            raise Unsupported("order of the '%%' / 'SSSSSSS' tests changed: %r" % (consts.get("in"),))
        # order of the steps of _compile_format: the fast-path test must come first (before the suffix is cut)
        order = []
        for st in fn.body:
            src = ast.unparse(st)
            if isinstance(st, ast.If) and src.startswith("if spec == "):
                order.append("fast")
            elif src.startswith("is_utc = spec.endswith"):
                order.append("utc")
            elif isinstance(st, ast.If) and src.startswith("if is_utc"):
                order.append("cut")
            elif isinstance(st, ast.If) and src.startswith("if not spec"):
                order.append("iso")
            elif isinstance(st, ast.If) and "'%' in spec" in src:
                order.append("percent")
            elif isinstance(st, ast.If) and "'SSSSSSS' in spec" in src:
                order.append("sevenS")
        body += "/-- order of the steps of `_compile_format` -/\n"
        body += "def compileSteps : List String := [%s]\n" % ", ".join(lean_str(x) for x in order)
        body += "def fastPathSpec : Py.Str := %s\n" % lean_chars(consts["fast"])
        body += "def utcSuffix : Py.Str := %s\n" % lean_chars(consts["suffix"])
        body += "def isoSpec : Py.Str := %s\n" % lean_chars(consts["iso"])
        body += "def tooManyS : Py.Str := %s\n" % lean_chars(consts["in"][1])
    except (Unsupported, SyntaxError, KeyError, AttributeError, IndexError) as e:
        errors.append("%s: %s" % (type(e).__name__, e))
    body += "\nend Datetime.Gen\n"
    return emit("Datetime", body, ["loguru/_datetime.py"], errors)




# ============================================================================= round 5: Generated/DatetimeShape.lean
# Statement-level shapes of _datetime.py the round-5 theorems depend on:
#   * `_format_timezone` regenerated as a Lean function (symbolic execution of the straight-line body, locals inlined,
#     every conditional lifted into one ordered decision tree, so that renamed locals, split tuple assignments and
#     if/else <-> conditional expressions give the same term);
#   * `_timestamp_microseconds`: epoch literal and unit of the floor division;
#   * the memoiser of `_compile_format` (key = the whole spec?  maxsize) and the shape of `datetime.__format__`;
#   * `_loguru_datetime_formatter`: conversion to UTC happens BEFORE the fields are read, arguments in formatter order;
#   * absence of any other cross-call state in the functions reachable from `__format__`.
US_PER_S = 10 ** 6


class _Sym:
    """symbolic execution of a small straight-line function into an expression IR (tuples)"""

    def __init__(self, params):
        self.env = {}
        self.params = set(params)
        self.ret = None

    # -- expressions
    def ev(self, n):
        if isinstance(n, ast.Constant):
            if isinstance(n.value, bool) or not isinstance(n.value, (int, str)):
                raise Unsupported("constant %r" % (n.value,))
            return ("const", n.value) if isinstance(n.value, int) else ("str", n.value)
        if isinstance(n, ast.Name):
            if n.id in self.env:
                return self.env[n.id]
            return ("name", n.id)
        if isinstance(n, ast.Attribute):
            return ("attr", self.ev(n.value), n.attr)
        if isinstance(n, ast.Tuple):
            return ("tuple", tuple(self.ev(e) for e in n.elts))
        if isinstance(n, ast.BoolOp):
            return ("boolop", type(n.op).__name__, tuple(self.ev(v) for v in n.values))
        if isinstance(n, ast.UnaryOp) and isinstance(n.op, ast.Not):
            return ("not", self.ev(n.operand))
        if isinstance(n, ast.IfExp):
            return ("ite", self.ev(n.test), self.ev(n.body), self.ev(n.orelse))
        if isinstance(n, ast.Compare) and len(n.ops) == 1:
            return ("cmp", type(n.ops[0]).__name__, self.ev(n.left), self.ev(n.comparators[0]))
        if isinstance(n, ast.BinOp):
            a, b = self.ev(n.left), self.ev(n.right)
            op = type(n.op).__name__
            if op == "Mod" and self.is_str(a):
                return ("fmt", a, b if b[0] == "tuple" else ("tuple", (b,)))
            if op == "Add" and (self.is_str(a) or self.is_str(b)):
                return ("cat", a, b)
            if op in ("FloorDiv", "Mod"):
                if b[0] != "const" or b[1] <= 0:
                    raise Unsupported("divisor of %s is not a positive literal" % op)
                return ("floordiv" if op == "FloorDiv" else "mod", a, b[1])
            raise Unsupported("binary operator " + op)
        if isinstance(n, ast.Call):
            f = n.func
            if isinstance(f, ast.Name) and f.id == "abs" and len(n.args) == 1 and not n.keywords:
                return ("abs", self.ev(n.args[0]))
            if isinstance(f, ast.Name) and f.id == "divmod" and len(n.args) == 2 and not n.keywords:
                a, b = self.ev(n.args[0]), self.ev(n.args[1])
                if b[0] != "const" or b[1] <= 0:
                    raise Unsupported("divmod by a non-literal")
                return ("tuple", (("floordiv", a, b[1]), ("mod", a, b[1])))
            if isinstance(f, ast.Attribute) and f.attr == "is_integer" and not n.args and not n.keywords:
                return ("isint", self.ev(f.value))
            return ("call", self.ev(f), tuple(self.ev(a) for a in n.args),
                    tuple((k.arg, self.ev(k.value)) for k in n.keywords))
        raise Unsupported("expression " + ast.dump(n)[:60])

    def is_str(self, v):
        return v[0] in ("str", "fmt", "cat") or (v[0] == "ite" and self.is_str(v[2]) and self.is_str(v[3]))

    # -- statements
    def assign(self, target, val):
        if isinstance(target, ast.Name):
            self.env[target.id] = val
        elif isinstance(target, (ast.Tuple, ast.List)):
            if val[0] != "tuple" or len(val[1]) != len(target.elts):
                raise Unsupported("tuple assignment from a non-tuple")
            for t, v in zip(target.elts, val[1]):
                self.assign(t, v)
        else:
            raise Unsupported("assignment target " + ast.dump(target)[:40])

    def run(self, stmts):
        for st in stmts:
            if self.ret is not None:
                raise Unsupported("statements after return")
            if isinstance(st, ast.Expr) and isinstance(st.value, ast.Constant) and isinstance(st.value.value, str):
                continue                                                   # docstring
            if isinstance(st, ast.Assign) and len(st.targets) == 1:
                self.assign(st.targets[0], self.ev(st.value))
            elif isinstance(st, ast.AugAssign) and isinstance(st.op, ast.Add) and isinstance(st.target, ast.Name):
                self.env[st.target.id] = ("cat", self.ev(st.target), self.ev(st.value))
            elif isinstance(st, ast.Return) and st.value is not None:
                self.ret = self.ev(st.value)
            elif isinstance(st, ast.If):
                c = self.ev(st.test)
                a, b = _Sym(self.params), _Sym(self.params)
                a.env, b.env = dict(self.env), dict(self.env)
                a.run(st.body)
                b.run(st.orelse)
                if (a.ret is None) != (b.ret is None):
                    # `if c: return x` followed by more statements: continue the other branch to its own return
                    raise Unsupported("return in one branch only")
                for k in set(a.env) | set(b.env):
                    va, vb = a.env.get(k), b.env.get(k)
                    if va is None or vb is None:
                        continue                                          # defined on one path only: not usable after
                    self.env[k] = va if va == vb else ("ite", c, va, vb)
                if a.ret is not None:
                    self.ret = a.ret if a.ret == b.ret else ("ite", c, a.ret, b.ret)
            else:
                raise Unsupported("statement " + type(st).__name__)
        return self.ret


_OFFSET_TZ = ("boolop", "Or", (("attr", ("name", "dt"), "tzinfo"), ("attr", ("name", "timezone"), "utc")))
_OFFSET = ("call", ("attr", ("call", ("attr", _OFFSET_TZ, "utcoffset"), (("name", "dt"),), ()), "total_seconds"), (), ())


class _TzLean:
    """IR -> Lean over the offset as exact integer MICROSECONDS (the code computes in float seconds; unit "sec" = a
    quantity of seconds held as microseconds, unit "int" = a plain number)."""

    def num(self, v):
        if v == _OFFSET:
            return ("off", "sec")
        k = v[0]
        if k == "const":
            return ("(%d : Int)" % v[1], "int")
        if k == "abs":
            a, u = self.num(v[1])
            return ("((%s).natAbs : Int)" % a, u)
        if k in ("floordiv", "mod"):
            a, u = self.num(v[1])
            n = v[2] * US_PER_S if u == "sec" else v[2]
            if k == "floordiv":
                return ("(%s / (%d : Int))" % (a, n), "int")
            return ("(%s %% (%d : Int))" % (a, n), u)
        raise Unsupported("numeric expression %r" % (v,))

    def nonneg_sec(self, v):
        """quantities for which `%d` (truncation) and floor coincide and `%09.06f` is transcribed: x % n"""
        return v[0] == "mod"

    def cond(self, v):
        """-> (lean Prop, negated?)"""
        k = v[0]
        if k == "not":
            p, neg = self.cond(v[1])
            return p, not neg
        if k == "isint":
            a, u = self.num(v[1])
            if u != "sec":
                raise Unsupported("is_integer() of a plain number")
            return ("%s %% (1000000 : Int) = 0" % a, False)
        if k == "cmp":
            a, ua = self.num(v[2])
            b, ub = self.num(v[3])
            if ua != ub:
                if v[3][0] == "const" and ua == "sec":
                    b = "(%d : Int)" % (v[3][1] * US_PER_S)
                elif v[2][0] == "const" and ub == "sec":
                    a = "(%d : Int)" % (v[2][1] * US_PER_S)
                else:
                    raise Unsupported("comparison of different units")
            op = v[1]
            table = {"GtE": ("%s ≥ %s", False), "Lt": ("%s ≥ %s", True), "Gt": ("%s > %s", False),
                     "LtE": ("%s > %s", True), "Eq": ("%s = %s", False), "NotEq": ("%s = %s", True)}
            if op not in table:
                raise Unsupported("comparison " + op)
            return (table[op][0] % (a, b), table[op][1])
        raise Unsupported("condition %r" % (v,))

    # a string value -> decision tree: ("leaf", [pieces]) | ("ite", prop, tree, tree); pieces are Lean List Char terms
    def tree(self, v):
        k = v[0]
        if k == "str":
            return ("leaf", [("lit", v[1])] if v[1] else [])
        if k == "name" and v[1] == "sep":
            return ("leaf", [("term", "sep")])
        if k == "ite":
            p, neg = self.cond(v[1])
            a, b = self.tree(v[2]), self.tree(v[3])
            return ("ite", p, b, a) if neg else ("ite", p, a, b)
        if k == "cat":
            return self.cat(self.tree(v[1]), self.tree(v[2]))
        if k == "fmt":
            return self.fmt_tree(v[1], v[2][1])
        raise Unsupported("string expression %r" % (v,))

    def cat(self, a, b):
        if a[0] == "ite":
            return ("ite", a[1], self.cat(a[2], b), self.cat(a[3], b))
        if b[0] == "ite":
            return ("ite", b[1], self.cat(a, b[2]), self.cat(a, b[3]))
        return ("leaf", a[1] + b[1])

    def fmt_tree(self, f, args):
        if f[0] == "ite":
            p, neg = self.cond(f[1])
            a, b = self.fmt_tree(f[2], args), self.fmt_tree(f[3], args)
            return ("ite", p, b, a) if neg else ("ite", p, a, b)
        if f[0] != "str":
            raise Unsupported("format string is not a literal")
        convs = _re.findall(r"%(?:s|d|0\dd|09\.06f)|%.|[^%]+", f[1])
        out = ("leaf", [])
        i = 0
        for c in convs:
            if not c.startswith("%"):
                out = self.cat(out, ("leaf", [("lit", c)]))
                continue
            if i >= len(args):
                raise Unsupported("too few arguments for " + f[1])
            a = args[i]
            i += 1
            if c == "%s":
                out = self.cat(out, self.tree(a))
            elif c == "%d" or _re.fullmatch(r"%0\dd", c):
                t, u = self.num(a)
                if u == "sec":
                    if not self.nonneg_sec(a):
                        raise Unsupported("%d of a possibly negative float")
                    t = "(%s / (1000000 : Int))" % t
                out = self.cat(out, ("leaf", [("term", "Py.fmtD %s" % t if c == "%d" else "Py.fmtD0 %s %s" % (c[2], t))]))
            elif c == "%09.06f":
                t, u = self.num(a)
                if u != "sec" or not (a[0] == "mod" and a[2] == 60):
                    raise Unsupported("%09.06f of something that is not seconds modulo 60")
                out = self.cat(out, ("leaf", [("term", "Datetime.fmtSecondsFrac %s" % t)]))
            else:
                raise Unsupported("conversion " + c)
        if i != len(args):
            raise Unsupported("too many arguments for " + f[1])
        return out

    # ordered, reduced decision tree (canonical for the function of its atomic conditions)
    def canon(self, t):
        conds = sorted(self.conds(t))
        return self.build(t, conds, {})

    def conds(self, t):
        return set() if t[0] == "leaf" else {t[1]} | self.conds(t[2]) | self.conds(t[3])

    def restrict(self, t, val):
        while t[0] == "ite" and t[1] in val:
            t = t[2] if val[t[1]] else t[3]
        if t[0] == "leaf":
            return t
        return ("ite", t[1], self.restrict(t[2], val), self.restrict(t[3], val))

    def build(self, t, conds, val):
        t = self.restrict(t, val)
        if t[0] == "leaf":
            return t
        live = [c for c in conds if c in self.conds(t)]
        c = live[0]
        a = self.build(t, conds, dict(val, **{c: True}))
        b = self.build(t, conds, dict(val, **{c: False}))
        return a if a == b else ("ite", c, a, b)

    def lean(self, t, ind="  "):
        if t[0] == "leaf":
            parts, lit = [], ""
            for kind, x in t[1]:
                if kind == "lit":
                    lit += x
                else:
                    if lit:
                        parts.append(lean_chars(lit))
                        lit = ""
                    parts.append(x if x == "sep" else "(%s)" % x)
            if lit:
                parts.append(lean_chars(lit))
            return ind + (" ++ ".join(parts) if parts else "([] : List Char)")
        return "%sif %s then\n%s\n%selse\n%s" % (ind, t[1], self.lean(t[2], ind + "  "), ind, self.lean(t[3], ind + "  "))


def _tz_function(tree):
    fn = find_func(tree, "_format_timezone")
    a = fn.args
    if [x.arg for x in a.args] != ["dt"] or [x.arg for x in a.kwonlyargs] != ["sep"] or a.vararg or a.kwarg \
            or a.defaults or any(d is not None for d in a.kw_defaults):
        raise Unsupported("_format_timezone signature")
    sym = _Sym(["dt", "sep"])
    ret = sym.run(fn.body)
    if ret is None:
        raise Unsupported("_format_timezone does not return")
    tl = _TzLean()
    t = tl.canon(tl.tree(ret))
    out = "/-- `_format_timezone(dt, sep=sep)` regenerated from the source: the offset `off` in exact microseconds\n"
    out += "(the code: float seconds), locals inlined, conditionals as one ordered decision tree -/\n"
    out += "def formatTimezoneGen (off : Int) (sep : Py.Str) : Py.Str :=\n" + tl.lean(t) + "\n\n"
    return out


def _timestamp_shape(tree):
    """`_timestamp_microseconds`: returns `(dt - E) // timedelta(U=k)` with E a literal aware datetime in UTC
    (locals inlined).  -> (y, m, d, unit in microseconds)"""
    fn = find_func(tree, "_timestamp_microseconds")
    if [x.arg for x in fn.args.args] != ["dt"]:
        raise Unsupported("_timestamp_microseconds signature")
    env = {}
    ret = None
    for st in fn.body:
        if isinstance(st, ast.Expr) and isinstance(st.value, ast.Constant):
            continue
        if isinstance(st, ast.If) and ast.unparse(st.test) == "dt.utcoffset() is None" \
                and [ast.unparse(x) for x in st.body] == ["dt = dt.astimezone()"] and not st.orelse and ret is None:
            continue                                     # naive datetimes are made aware first (outside the model)
        if isinstance(st, ast.Assign) and len(st.targets) == 1 and isinstance(st.targets[0], ast.Name) and ret is None:
            env[st.targets[0].id] = st.value
            continue
        if isinstance(st, ast.Return) and ret is None and st.value is not None:
            ret = st.value
            continue
        raise Unsupported("_timestamp_microseconds statement: " + ast.unparse(st)[:60])

    def inl(n):
        seen = 0
        while isinstance(n, ast.Name) and n.id in env and seen < 10:
            n = env[n.id]
            seen += 1
        return n
    ret = inl(ret)
    if not (isinstance(ret, ast.BinOp) and isinstance(ret.op, ast.FloorDiv)):
        raise Unsupported("_timestamp_microseconds does not return a floor division: " + ast.unparse(ret)[:60])
    num, den = inl(ret.left), inl(ret.right)
    if not (isinstance(num, ast.BinOp) and isinstance(num.op, ast.Sub) and ast.unparse(inl(num.left)) == "dt"):
        raise Unsupported("numerator is not dt - epoch")
    ep = inl(num.right)
    if not (isinstance(ep, ast.Call) and ast.unparse(ep.func) in ("datetime_", "datetime") and len(ep.args) == 3
            and all(isinstance(x, ast.Constant) and isinstance(x.value, int) for x in ep.args)
            and [(k.arg, ast.unparse(k.value)) for k in ep.keywords] == [("tzinfo", "timezone.utc")]):
        raise Unsupported("epoch literal: " + ast.unparse(ep)[:60])
    units = {"microseconds": 1, "milliseconds": 1000, "seconds": US_PER_S}
    if not (isinstance(den, ast.Call) and ast.unparse(den.func) == "timedelta" and not den.args and len(den.keywords) == 1
            and den.keywords[0].arg in units and isinstance(den.keywords[0].value, ast.Constant)
            and isinstance(den.keywords[0].value.value, int) and den.keywords[0].value.value > 0):
        raise Unsupported("unit of the division: " + ast.unparse(den)[:60])
    unit = units[den.keywords[0].arg] * den.keywords[0].value.value
    return tuple(x.value for x in ep.args) + (unit,)


_MUTATORS = {"append", "extend", "insert", "add", "update", "setdefault", "pop", "popitem", "clear", "remove",
             "discard", "appendleft", "__setitem__", "__delitem__", "move_to_end", "sort", "reverse"}


def _state_writes(tree, entry_name="__format__"):
    """every construct in the functions reachable from `datetime.__format__` through which one call could leave
    something behind for the next: global/nonlocal, stores into attributes or items of anything, mutating method calls
    on names that are not locals created in the same function, mutable default arguments, decorators other than the
    memoiser of `_compile_format`.  (Locals built and filled inside one call - `formatters.append` - are not state.)"""
    funcs = {n.name: n for n in tree.body if isinstance(n, (ast.FunctionDef, ast.AsyncFunctionDef))}
    if entry_name == "__format__":
        cls = find_class(tree, "datetime")
        entry = [n for n in cls.body if isinstance(n, ast.FunctionDef) and n.name == "__format__"]
        if len(entry) != 1:
            raise Unsupported("datetime.__format__ not found")
    else:
        entry = [find_func(tree, entry_name)]
    todo, seen, order = [entry[0]], set(), []
    while todo:
        fn = todo.pop()
        if id(fn) in seen:
            continue
        seen.add(id(fn))
        order.append(fn)
        for n in ast.walk(fn):
            if isinstance(n, ast.Name) and n.id in funcs:
                todo.append(funcs[n.id])
    writes = []
    for fn in order:
        locals_ = set()
        for n in ast.walk(fn):
            if isinstance(n, ast.Name) and isinstance(n.ctx, ast.Store):
                locals_.add(n.id)
        params = {a.arg for a in fn.args.args + fn.args.kwonlyargs + fn.args.posonlyargs}
        created = set()                     # locals bound to a fresh container/str in this function
        for n in ast.walk(fn):
            if isinstance(n, ast.Assign) and isinstance(n.value, (ast.List, ast.Dict, ast.Set, ast.Constant, ast.ListComp,
                                                                    ast.DictComp, ast.SetComp, ast.Tuple, ast.JoinedStr)):
                for t in n.targets:
                    if isinstance(t, ast.Name):
                        created.add(t.id)
        for n in ast.walk(fn):
            where = fn.name
            if isinstance(n, (ast.Global, ast.Nonlocal)):
                writes.append("%s: %s %s" % (where, type(n).__name__.lower(), ",".join(n.names)))
            elif isinstance(n, (ast.Attribute, ast.Subscript)) and isinstance(n.ctx, (ast.Store, ast.Del)):
                base = n.value
                while isinstance(base, (ast.Attribute, ast.Subscript)):
                    base = base.value
                if not (isinstance(base, ast.Name) and base.id in created and base.id not in params):
                    writes.append("%s: store into %s" % (where, ast.unparse(n)))
            elif isinstance(n, ast.Call) and isinstance(n.func, ast.Attribute) and n.func.attr in _MUTATORS:
                base = n.func.value
                if not (isinstance(base, ast.Name) and base.id in created and base.id not in params):
                    writes.append("%s: %s" % (where, ast.unparse(n.func)))
            elif isinstance(n, (ast.FunctionDef, ast.AsyncFunctionDef, ast.Lambda)):
                a = n.args
                for d in list(a.defaults) + [d for d in a.kw_defaults if d is not None]:
                    if not isinstance(d, ast.Constant):
                        writes.append("%s: non-constant default argument %s" % (where, ast.unparse(d)))
        decos = [ast.unparse(d) for d in getattr(fn, "decorator_list", [])]
        if fn.name != "_compile_format" and decos:
            writes.append("%s: decorator %s" % (fn.name, ",".join(decos)))
    return sorted(set(writes)), [f.name for f in order]


def _memoiser(tree):
    """-> (key_is_whole_spec, maxsize or None).  The key of functools.lru_cache/cache is the full argument tuple, so
    the key is the whole spec iff the function takes exactly that one parameter, `__format__` passes its `fmt`
    argument through unchanged, and the decorator (if any) is one of functools' memoisers."""
    fn = find_func(tree, "_compile_format")
    a = fn.args
    one_param = len(a.args) == 1 and not (a.posonlyargs or a.kwonlyargs or a.vararg or a.kwarg or a.defaults)
    maxsize = None
    ok = one_param
    if len(fn.decorator_list) > 1:
        ok = False
    for d in fn.decorator_list:
        src = ast.unparse(d)
        if src in ("lru_cache", "functools.lru_cache"):
            maxsize = 128
        elif src in ("cache", "functools.cache"):
            maxsize = None
        elif isinstance(d, ast.Call) and ast.unparse(d.func) in ("lru_cache", "functools.lru_cache"):
            kw = {k.arg: k.value for k in d.keywords}
            pos = list(d.args)
            if set(kw) - {"maxsize", "typed"} or len(pos) > 2:
                ok = False
            ms = kw.get("maxsize", pos[0] if pos else None)
            if ms is None:
                maxsize = 128
            elif isinstance(ms, ast.Constant) and (ms.value is None or (isinstance(ms.value, int) and not isinstance(ms.value, bool))):
                maxsize = ms.value
            else:
                ok = False
        else:
            ok = False                                    # a hand-written memoiser: its key is not known
    # datetime.__format__(self, fmt): return _compile_format(fmt)(self)
    cls = find_class(tree, "datetime")
    ff = [n for n in cls.body if isinstance(n, ast.FunctionDef) and n.name == "__format__"]
    if len(ff) != 1 or len(ff[0].args.args) != 2:
        raise Unsupported("datetime.__format__ signature")
    me, spec = [x.arg for x in ff[0].args.args]
    env, ret = {}, None
    for st in ff[0].body:
        if isinstance(st, ast.Expr) and isinstance(st.value, ast.Constant):
            continue
        if isinstance(st, ast.Assign) and len(st.targets) == 1 and isinstance(st.targets[0], ast.Name) and ret is None:
            env[st.targets[0].id] = st.value
        elif isinstance(st, ast.Return) and ret is None and st.value is not None:
            ret = st.value
        else:
            raise Unsupported("datetime.__format__ statement " + ast.unparse(st)[:60])

    def inl(n, depth=0):
        while isinstance(n, ast.Name) and n.id in env and depth < 10:
            n, depth = env[n.id], depth + 1
        return n
    ret = inl(ret)
    shape = (isinstance(ret, ast.Call) and len(ret.args) == 1 and not ret.keywords
             and ast.unparse(inl(ret.args[0])) == me)
    if shape:
        inner = inl(ret.func)
        shape = (isinstance(inner, ast.Call) and ast.unparse(inner.func) == "_compile_format" and len(inner.args) == 1
                 and not inner.keywords and ast.unparse(inl(inner.args[0])) == spec)
    return bool(ok and shape), maxsize


def _formatter_shape(tree):
    """`_loguru_datetime_formatter(is_utc, format_string, formatters, dt)`: (1) the conversion `dt.astimezone(timezone.utc)`
    under `is_utc` precedes every read of the fields; (2) the result is `format_string % tuple(f(t, dt) for f in formatters)`
    with `t = dt.timetuple()` of the (converted) dt.  Locals inlined; names free."""
    fn = find_func(tree, "_loguru_datetime_formatter")
    ps = [x.arg for x in fn.args.args]
    if len(ps) != 4:
        raise Unsupported("_loguru_datetime_formatter signature")
    is_utc, fmt, fs, dt = ps
    body = [st for st in fn.body if not (isinstance(st, ast.Expr) and isinstance(st.value, ast.Constant))]
    conv_first = False
    if body and isinstance(body[0], ast.If) and ast.unparse(body[0].test) == is_utc and not body[0].orelse \
            and [ast.unparse(x) for x in body[0].body] == ["%s = %s.astimezone(timezone.utc)" % (dt, dt)]:
        conv_first = True
        body = body[1:]
    elif body and isinstance(body[0], ast.Assign) and ast.unparse(body[0]) in (
            "%s = %s.astimezone(timezone.utc) if %s else %s" % (dt, dt, is_utc, dt),):
        conv_first = True
        body = body[1:]
    env, ret = {}, None
    for st in body:
        if isinstance(st, ast.Assign) and len(st.targets) == 1 and isinstance(st.targets[0], ast.Name) and ret is None:
            if st.targets[0].id == dt:
                raise Unsupported("dt reassigned after the conversion")
            env[st.targets[0].id] = st.value
        elif isinstance(st, ast.Return) and ret is None and st.value is not None:
            ret = st.value
        else:
            raise Unsupported("_loguru_datetime_formatter statement " + ast.unparse(st)[:60])

    class Inl(ast.NodeTransformer):
        def visit_Name(self, n):
            if isinstance(n.ctx, ast.Load) and n.id in env:
                return self.visit(env[n.id])
            return n
    ret = Inl().visit(ret)
    ok = False
    if isinstance(ret, ast.BinOp) and isinstance(ret.op, ast.Mod) and ast.unparse(ret.left) == fmt:
        r = ret.right
        if isinstance(r, ast.Call) and ast.unparse(r.func) == "tuple" and len(r.args) == 1 \
                and isinstance(r.args[0], (ast.GeneratorExp, ast.ListComp)) and len(r.args[0].generators) == 1:
            g = r.args[0].generators[0]
            if isinstance(g.target, ast.Name) and ast.unparse(g.iter) == fs and not g.ifs and not g.is_async:
                elt = r.args[0].elt
                ok = (isinstance(elt, ast.Call) and ast.unparse(elt.func) == g.target.id and not elt.keywords
                      and [ast.unparse(x) for x in elt.args] == ["%s.timetuple()" % dt, dt])
    return conv_first, ok



def _build_loop_shape(tree):
    """the loop of `_compile_format` that builds `format_string` / `formatters` - in `_compile_format` itself or in the
    one helper it hands `spec` and the table to - with parameters and locals renamed canonically (SPEC, TABLE, v0, v1, ...
    in order of first assignment), one normalised source line per statement"""
    fn = find_func(tree, "_compile_format")
    host, spec_name, table_name = None, None, None

    def has_loop(f):
        return any(isinstance(n, ast.For) and "finditer" in ast.unparse(n.iter) for n in ast.walk(f))
    if has_loop(fn):
        host, spec_name, table_name = fn, fn.args.args[0].arg, "rep"
    else:
        funcs = {n.name: n for n in tree.body if isinstance(n, ast.FunctionDef)}
        for n in ast.walk(fn):
            if isinstance(n, ast.Call) and isinstance(n.func, ast.Name) and n.func.id in funcs and has_loop(funcs[n.func.id]) \
                    and len(n.args) == 2 and not n.keywords and [ast.unparse(a) for a in n.args] == [fn.args.args[0].arg, "rep"]:
                host = funcs[n.func.id]
                if len(host.args.args) != 2:
                    raise Unsupported("helper signature")
                spec_name, table_name = host.args.args[0].arg, host.args.args[1].arg
        if host is None:
            raise Unsupported("the token loop was not found")
    # the statements from the first initialisation of the loop's accumulators to the statement after the loop
    body = list(host.body)
    idx = [i for i, st in enumerate(body) if isinstance(st, ast.For) and "finditer" in ast.unparse(st.iter)]
    if len(idx) != 1:
        raise Unsupported("expected exactly one token loop")
    loop = body[idx[0]]
    stores = []
    for n in ast.walk(loop):
        if isinstance(n, ast.Name) and isinstance(n.ctx, ast.Store) and n.id not in stores:
            stores.append(n.id)
    used = {n.id for n in ast.walk(loop) if isinstance(n, ast.Name)}
    pre = [st for st in body[:idx[0]] if isinstance(st, ast.Assign) and len(st.targets) == 1
           and isinstance(st.targets[0], ast.Name) and st.targets[0].id in used
           and st.targets[0].id not in (spec_name, table_name)]
    post = body[idx[0] + 1: idx[0] + 2]
    stmts = pre + [loop] + [st for st in post if isinstance(st, ast.AugAssign)]
    names = {spec_name: "SPEC", table_name: "TABLE"}

    class Ren(ast.NodeTransformer):
        def visit_Name(self, n):
            if n.id in names:
                return ast.copy_location(ast.Name(id=names[n.id], ctx=n.ctx), n)
            return n
    order = []
    for st in stmts:
        for n in ast.walk(st):
            if isinstance(n, ast.Name) and isinstance(n.ctx, ast.Store) and n.id not in names and n.id not in order:
                order.append(n.id)
    # order of first STORE in source order (ast.walk is breadth-first: sort by position)
    pos = {}
    for st in stmts:
        for n in ast.walk(st):
            if isinstance(n, ast.Name) and isinstance(n.ctx, ast.Store) and n.id not in names:
                pos.setdefault(n.id, (n.lineno, n.col_offset))
                pos[n.id] = min(pos[n.id], (n.lineno, n.col_offset))
    for i, nm in enumerate(sorted(pos, key=lambda k: pos[k])):
        names[nm] = "v%d" % i
    import copy
    lines = []
    for st in stmts:
        st2 = ast.fix_missing_locations(Ren().visit(copy.deepcopy(st)))
        lines += [l.rstrip() for l in ast.unparse(st2).splitlines()]
    return lines


def _generate_shape():
    errors = []
    body = "import LoguruModel.Datetime.Base\nset_option linter.unusedVariables false\nnamespace Datetime.Gen\n\n"
    try:
        tree, _ = parse_module("_datetime.py")
        body += _tz_function(tree)
        y, m, d, unit = _timestamp_shape(tree)
        body += "/-- `_timestamp_microseconds`: `(dt - datetime(%d, %d, %d, tzinfo=utc)) // timedelta(microseconds=%d)` -/\n" % (y, m, d, unit)
        body += "def epochDt : Dt := { year := %d, month := %d, day := %d, hour := 0, minute := 0, second := 0, " \
                "microsecond := 0, offsetUs := 0, tzname := [] }\n" % (y, m, d)
        body += "def timestampUnitUs : Int := %d\n" % unit
        body += "def timestampGen (dt : Dt) : Int :=\n  ((localMicros dt - dt.offsetUs) - (localMicros epochDt - epochDt.offsetUs)) / timestampUnitUs\n\n"
        whole, maxsize = _memoiser(tree)
        body += "/-- the memoiser of `_compile_format` is keyed by the whole spec that `__format__` received -/\n"
        body += "def cacheKeyIsWholeSpec : Bool := %s\n" % ("true" if whole else "false")
        body += "def cacheMaxsize : Option Nat := %s\n\n" % ("none" if maxsize is None else "some %d" % maxsize)
        writes, reach = _state_writes(tree)
        body += "/-- constructs in the functions reachable from `datetime.__format__` through which a call could\n"
        body += "leave state behind for the next one (besides the memoiser above) -/\n"
        body += "def formatStateWrites : List String := [%s]\n\n" % ", ".join(lean_str(w) for w in writes)
        writes2, _ = _state_writes(tree, "aware_now")
        body += "/-- the same for the functions reachable from `aware_now` (the time of the record): nothing is remembered from one\n"
        body += "record to the next (a zone looked up once would go stale at the next DST switch) -/\n"
        body += "def awareNowStateWrites : List String := [%s]\n\n" % ", ".join(lean_str(w) for w in writes2)
        loop = _build_loop_shape(tree)
        body += "/-- the loop of `_compile_format` building `format_string`/`formatters` (hand model: `Datetime.build` over\n"
        body += "`Datetime.scan`), locals renamed canonically -/\n"
        body += "def buildLoopShape : List String := [\n  %s]\n\n" % ",\n  ".join(lean_str(l) for l in loop)
        conv_first, args_ok = _formatter_shape(tree)
        body += "/-- `_loguru_datetime_formatter`: UTC conversion before the fields are read; `format_string % tuple(f(t, dt) …)` -/\n"
        body += "def utcConversionFirst : Bool := %s\n" % ("true" if conv_first else "false")
        body += "def argsInFormatterOrder : Bool := %s\n" % ("true" if args_ok else "false")
    except (Unsupported, SyntaxError, KeyError, AttributeError, IndexError, TypeError, ValueError) as e:
        errors.append("%s: %s" % (type(e).__name__, e))
    body += "\nend Datetime.Gen\n"
    return emit("DatetimeShape", body, ["loguru/_datetime.py"], errors)


def generate():
    a = _generate_tables()
    b = _generate_shape()
    return a and b
