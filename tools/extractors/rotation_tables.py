"""Generated/Rotation.lean from loguru/_file_sink.py (class Rotation, FileSink._make_rotation_function)
and loguru/_string_parsers.py (Frequencies, parse_size, parse_duration, parse_frequency, parse_day,
parse_time) – properties C07 and C19.

Expression kernels (translated): Frequencies.* (timedelta keywords + replace keywords, incl. the
month==12 wrap), Rotation.forward_day / forward_weekday (delta and stop test), Rotation.rotation_size,
the three comparisons of RotationTime.__call__ (first-limit step test with the weekday clause, the
rotate test, the catch-up loop condition), the `interval <= timedelta(0)` rejection test.
Tables: parse_frequency's dict, parse_duration's unit table (alternatives expanded, multipliers in
microseconds), parse_size's unit letters / bases / bit divisor, parse_day's names and range test,
parse_time's format list.  Shapes checked (fail closed): the regular expressions of the parsers, the
dispatch order of `_make_rotation_function` for strings, seek-before-tell in rotation_size, the
`while` of the catch-up loop and of forward_weekday.
"""
import ast
from fractions import Fraction

from extract_lib import Tr, Unsupported, emit, find_class, find_func, lean_chars, parse_module

FIELDS = ["year", "month", "day", "hour", "minute", "second", "microsecond"]
TD_KW = ["weeks", "days", "hours", "minutes", "seconds", "milliseconds", "microseconds"]


def _t_env(extra=None):
    env = {"t." + f: ("t." + f, "int") for f in FIELDS}
    env.update(extra or {})
    return env


def _t_calls():
    def weekday(tr, node):
        if node.args or node.keywords:
            raise Unsupported("weekday() with arguments")
        return ("t.weekday", "int")
    return {"t.weekday": weekday}


def _td(node, env):
    """datetime.timedelta(kw=expr, ...) -> Lean `Td` term"""
    if not (isinstance(node, ast.Call) and ast.unparse(node.func) == "datetime.timedelta" and not node.args):
        raise Unsupported("expected datetime.timedelta(keyword=…): " + ast.unparse(node))
    parts = []
    for kw in node.keywords:
        if kw.arg not in TD_KW:
            raise Unsupported("timedelta keyword " + str(kw.arg))
        term, typ = Tr(env, _t_calls()).tr(kw.value)
        Tr.need(typ, "int")
        parts.append("%s := %s" % (kw.arg, term))
    return "{ " + ", ".join(parts) + " }" if parts else "{}"


def _repl(node, target, env):
    """<target>.replace(kw=expr, ...) -> Lean `Repl` term"""
    if not (isinstance(node, ast.Call) and ast.unparse(node.func) == target + ".replace" and not node.args):
        raise Unsupported("expected %s.replace(keyword=…): %s" % (target, ast.unparse(node)))
    parts = []
    for kw in node.keywords:
        if kw.arg not in FIELDS:
            raise Unsupported("replace keyword " + str(kw.arg))
        term, typ = Tr(env, _t_calls()).tr(kw.value)
        Tr.need(typ, "int")
        parts.append("%s := some %s" % (kw.arg, term))
    return "{ " + ", ".join(parts) + " }"


def _names(target):
    if isinstance(target, ast.Name):
        return [target.id]
    if isinstance(target, ast.Tuple) and all(isinstance(e, ast.Name) for e in target.elts):
        return [e.id for e in target.elts]
    raise Unsupported("assignment target " + ast.unparse(target))


def _values(value, n):
    if n == 1:
        return [value]
    if isinstance(value, ast.Tuple) and len(value.elts) == n:
        return list(value.elts)
    raise Unsupported("assignment value " + ast.unparse(value))


def frequency_kernel(fn):
    """body: optional local assignments (plain or by an if/else assigning the same names), optional
    `dt = t + datetime.timedelta(...)`, then `return (dt|t).replace(...)`."""
    if [a.arg for a in fn.args.args] != ["t"]:
        raise Unsupported("arguments of " + fn.name)
    env = _t_env()
    delta, target = "{}", "t"
    body = list(fn.body)
    if not body or not isinstance(body[-1], ast.Return):
        raise Unsupported("no final return in " + fn.name)
    for st in body[:-1]:
        if isinstance(st, ast.Assign) and len(st.targets) == 1 and _names(st.targets[0]) == ["dt"]:
            v = st.value
            if not (isinstance(v, ast.BinOp) and isinstance(v.op, ast.Add) and ast.unparse(v.left) == "t"):
                raise Unsupported("dt assignment in " + fn.name)
            delta, target = _td(v.right, env), "dt"
        elif isinstance(st, ast.Assign) and len(st.targets) == 1:
            names = _names(st.targets[0])
            for n, v in zip(names, _values(st.value, len(names))):
                term, typ = Tr(env, _t_calls()).tr(v)
                env = dict(env)
                env[n] = (term, typ)
        elif isinstance(st, ast.If) and len(st.body) == 1 and len(st.orelse) == 1 \
                and isinstance(st.body[0], ast.Assign) and isinstance(st.orelse[0], ast.Assign):
            c, tc = Tr(env, _t_calls()).tr(st.test)
            Tr.need(tc, "bool")
            n1, n2 = _names(st.body[0].targets[0]), _names(st.orelse[0].targets[0])
            if n1 != n2:
                raise Unsupported("if/else assigns different names in " + fn.name)
            new = dict(env)
            for n, a, b in zip(n1, _values(st.body[0].value, len(n1)), _values(st.orelse[0].value, len(n1))):
                ta, tya = Tr(env, _t_calls()).tr(a)
                tb, tyb = Tr(env, _t_calls()).tr(b)
                if tya != tyb:
                    raise Unsupported("if/else types")
                new[n] = ("(if %s then %s else %s)" % (c, ta, tb), tya)
            env = new
        else:
            raise Unsupported("statement in %s: %s" % (fn.name, ast.unparse(st)[:60]))
    repl = _repl(body[-1].value, target, env)
    return "{ delta := fun t => %s, repl := fun t => %s }" % (delta, repl)


def expand_alternatives(rx):
    """strings matched by a regex made of literals, `c?`, `(?:abc)?` and top-level `|`"""
    out = []
    for alt in rx.split("|"):
        acc = [""]
        i = 0
        while i < len(alt):
            if alt.startswith("(?:", i):
                j = alt.index(")", i)
                grp = alt[i + 3:j]
                if not grp.isalpha() or j + 1 >= len(alt) or alt[j + 1] != "?":
                    raise Unsupported("unit regex " + rx)
                acc = acc + [a + grp for a in acc]
                i = j + 2
            elif alt[i].isalpha():
                if i + 1 < len(alt) and alt[i + 1] == "?":
                    acc = acc + [a + alt[i] for a in acc]
                    i += 2
                else:
                    acc = [a + alt[i] for a in acc]
                    i += 1
            else:
                raise Unsupported("unit regex " + rx)
        out += acc
    return sorted(set(out), key=lambda s: (len(s), s))


def const_int(node):
    """an integer literal or a constant expression over + - * ** of integer literals"""
    if isinstance(node, ast.Constant) and isinstance(node.value, int) and not isinstance(node.value, bool):
        return node.value
    if isinstance(node, ast.BinOp) and isinstance(node.op, (ast.Add, ast.Sub, ast.Mult, ast.Pow)):
        a, b = const_int(node.left), const_int(node.right)
        if isinstance(node.op, ast.Pow):
            if not 0 <= b <= 64:
                raise Unsupported("exponent " + str(b))
            return a ** b
        return a + b if isinstance(node.op, ast.Add) else a - b if isinstance(node.op, ast.Sub) else a * b
    raise Unsupported("expected an integer constant: " + ast.unparse(node)[:60])


def const_str(node):
    if isinstance(node, ast.Constant) and isinstance(node.value, str):
        return node.value
    raise Unsupported("expected a string literal: " + ast.unparse(node)[:60])


def find_regex(fn, nth=0):
    """the nth string literal that is the first argument of re.compile / assigned to `reg`"""
    found = []
    for node in ast.walk(fn):
        if isinstance(node, ast.Assign) and len(node.targets) == 1 and ast.unparse(node.targets[0]) == "reg":
            v = node.value
            if isinstance(v, ast.Call) and ast.unparse(v.func) == "re.compile":
                flags = [ast.unparse(k.value) for k in v.keywords if k.arg == "flags"]
                found.append((const_str(v.args[0]), flags))
            else:
                found.append((const_str(v), None))
    if len(found) <= nth:
        raise Unsupported("regex not found in " + fn.name)
    return found[nth]


# ----------------------------------------------------------------------------- shape matching helpers
def called_helpers(fn, scopes):
    """private helpers (`self._x(…)`, `Cls._x(…)`, `_x(…)`) that `fn` calls and that are defined in one of the
    given scopes (class / module / enclosing function nodes) – followed ONE level deep"""
    out = []
    for node in ast.walk(fn):
        if isinstance(node, ast.Call):
            f = node.func
            name = f.attr if isinstance(f, ast.Attribute) else f.id if isinstance(f, ast.Name) else None
            if name and name.startswith("_") and not name.startswith("__") and name != fn.name:
                for sc in scopes:
                    for st in getattr(sc, "body", []):
                        if isinstance(st, ast.FunctionDef) and st.name == name and st not in out:
                            out.append(st)
    return out


def expanded(fn, scopes):
    """all AST nodes of `fn` and of the private helpers it calls (one level)"""
    nodes = list(ast.walk(fn))
    for h in called_helpers(fn, scopes):
        nodes += list(ast.walk(h))
    return nodes


def has_call(nodes, callee, pred=None):
    """is there a call of `callee` (source text of the function expression) among the nodes?"""
    for n in nodes:
        if isinstance(n, ast.Call) and ast.unparse(n.func) == callee and (pred is None or pred(n)):
            return True
    return False


def has_expr(nodes, src):
    """does some expression among the nodes print exactly as `src`?"""
    return any(isinstance(n, ast.expr) and ast.unparse(n) == src for n in nodes)


def module_const(tree, node):
    """a literal, or a module-level name bound once to a literal"""
    if isinstance(node, ast.Constant):
        return node.value
    if isinstance(node, ast.Name):
        vals = [st.value for st in tree.body if isinstance(st, ast.Assign) and len(st.targets) == 1
                and isinstance(st.targets[0], ast.Name) and st.targets[0].id == node.id]
        if len(vals) == 1 and isinstance(vals[0], ast.Constant):
            return vals[0].value
    raise Unsupported("not a constant: " + ast.unparse(node)[:60])


def assigned_from(fn, pred):
    """names assigned (single target) from a value satisfying pred"""
    return [n.targets[0].id for n in ast.walk(fn) if isinstance(n, ast.Assign) and len(n.targets) == 1
            and isinstance(n.targets[0], ast.Name) and pred(n.value)]



EXC = (Unsupported, SyntaxError, KeyError, AttributeError, IndexError, ValueError, AssertionError, TypeError)


def _gen_parsers():
    """Generated/RotationParsers.lean: everything that comes from loguru/_string_parsers.py alone (so that the
    spelling parsers – also used by the retention area – stay available when a file-sink shape is not understood)"""
    errors = []
    body = ("import LoguruModel.Rotation.Base\nset_option linter.unusedVariables false\n"
            "namespace Rotation.Gen\nopen Rotation\n\n")
    try:
        sp, _ = parse_module("_string_parsers.py")
        # ---- Frequencies.*
        freq_cls = find_class(sp, "Frequencies")
        fnames = []
        for st in freq_cls.body:
            if isinstance(st, ast.FunctionDef):
                body += "/-- `Frequencies.%s` -/\ndef %s : FreqKernel :=\n  %s\n\n" % (st.name, st.name, frequency_kernel(st))
                fnames.append(st.name)
        pf = find_func(sp, "parse_frequency")
        table = None
        for node in ast.walk(pf):
            if isinstance(node, ast.Dict):
                table = node
        if table is None:
            raise Unsupported("parse_frequency table")
        rows = []
        for k, v in zip(table.keys, table.values):
            name = ast.unparse(v)
            if not name.startswith("Frequencies.") or name[12:] not in fnames:
                raise Unsupported("parse_frequency entry " + name)
            rows.append("  (%s, %s)" % (lean_chars(const_str(k)), name[12:]))
        nodes = list(ast.walk(pf))
        gets = [n for n in nodes if isinstance(n, ast.Call) and isinstance(n.func, ast.Attribute) and n.func.attr == "get"
                and len(n.args) in (1, 2) and (len(n.args) == 1 or ast.unparse(n.args[1]) == "None")]
        norm = assigned_from(pf, lambda v: isinstance(v, ast.Call) and ast.unparse(v.func).endswith(".strip().lower"))
        if len(gets) != 1 or not norm or ast.unparse(gets[0].args[0]) not in norm \
                or not any(isinstance(n, ast.Return) and n.value is gets[0] for n in nodes):
            raise Unsupported("parse_frequency no longer returns table.get(text.strip().lower()[, None])")
        body += "/-- the table of `parse_frequency` (keys looked up after strip().lower()) -/\n"
        body += "def freqTable : List (Py.Str × FreqKernel) := [\n" + ",\n".join(rows) + "]\n\n"

        # ---- parse_size
        ps = find_func(sp, "parse_size")
        rx, flags = find_regex(ps)
        if rx != r"([e\+\-\.\d]+)\s*([kmgtpezy])?(i)?(b)" or flags != ["re.I"]:
            raise Unsupported("parse_size regex changed: %r %r" % (rx, flags))
        groups = [n for n in ast.walk(ps) if isinstance(n, ast.Assign) and isinstance(n.targets[0], ast.Tuple)
                  and ast.unparse(n.value).endswith(".groups()")]
        if len(groups) != 1 or len(groups[0].targets[0].elts) != 4:
            raise Unsupported("parse_size: the four groups of the match")
        g_num, g_pre, g_bin, g_unit = [ast.unparse(e) for e in groups[0].targets[0].elts]
        ifexps = [(n.targets[0].id, n.value) for n in ast.walk(ps) if isinstance(n, ast.Assign) and len(n.targets) == 1
                  and isinstance(n.targets[0], ast.Name) and isinstance(n.value, ast.IfExp)]
        by_test = {ast.unparse(v.test): (name, v) for name, v in ifexps}
        if set(by_test) != {g_pre, g_bin, g_unit} or len(ifexps) != 3:
            raise Unsupported("parse_size: one conditional assignment per optional group expected")
        (n_exp, u), (n_base, i), (n_div, b) = by_test[g_pre], by_test[g_bin], by_test[g_unit]
        ub = u.body
        if not (isinstance(ub, ast.BinOp) and isinstance(ub.op, ast.Add) and isinstance(ub.right, ast.Constant)
                and isinstance(ub.left, ast.Call) and ast.unparse(ub.left.func).endswith(".index")
                and [ast.unparse(x) for x in ub.left.args] == [g_pre + ".lower()"] and ast.unparse(u.orelse) == "0"):
            raise Unsupported("parse_size unit exponent")
        letters = const_str(ub.left.func.value)
        base_bin, base_dec = const_int(i.body), const_int(i.orelse)
        if not (isinstance(b.body, ast.Subscript) and isinstance(b.body.value, ast.Dict)
                and ast.unparse(b.body.slice) == g_unit and ast.unparse(b.orelse) == "1"):
            raise Unsupported("parse_size bit divisor")
        bits = [(const_str(k), v.value) for k, v in zip(b.body.value.keys, b.body.value.values)]
        n_val = assigned_from(ps, lambda v: isinstance(v, ast.Call) and ast.unparse(v.func) == "float"
                              and [ast.unparse(x) for x in v.args] == [g_num])
        rets = [n.value for n in ast.walk(ps) if isinstance(n, ast.Return) and n.value is not None
                and ast.unparse(n.value) != "None"]
        strips = [n for n in ast.walk(ps) if isinstance(n, ast.Assign) and ast.unparse(n.value) == "size.strip()"
                  and ast.unparse(n.targets[0]) == "size"]
        if len(n_val) != 1 or len(rets) != 1 or not strips \
                or ast.unparse(rets[0]) != "%s * %s ** %s / %s" % (n_val[0], n_base, n_exp, n_div):
            raise Unsupported("parse_size arithmetic changed")
        # the arithmetic as an expression over an abstract float type (interpreted exactly and in binary64)
        kinds = {n_val[0]: ("s", "float"), n_base: ("i", "int"), n_exp: ("(u.toNat)", "nat"), n_div: ("b", "int")}

        def arith(node):
            if isinstance(node, ast.Name) and node.id in kinds:
                return kinds[node.id]
            if isinstance(node, ast.BinOp) and isinstance(node.op, ast.Pow):
                a, ta = arith(node.left)
                b_, tb = arith(node.right)
                if ta == "int" and tb == "nat":
                    return ("(%s ^ %s)" % (a, b_), "int")
                raise Unsupported("parse_size: power of %s by %s" % (ta, tb))
            if isinstance(node, ast.BinOp) and isinstance(node.op, (ast.Mult, ast.Div)):
                a, ta = arith(node.left)
                b_, tb = arith(node.right)
                if ta == "nat" or tb == "nat":
                    raise Unsupported("parse_size: the unit exponent used as a factor")
                if ta == "int" and tb == "int":
                    if isinstance(node.op, ast.Mult):
                        return ("(%s * %s)" % (a, b_), "int")
                    raise Unsupported("parse_size: true division of two ints")
                fa = a if ta == "float" else "(ofInt %s)" % a
                fb = b_ if tb == "float" else "(ofInt %s)" % b_
                return ("(%s %s %s)" % ("mul" if isinstance(node.op, ast.Mult) else "div", fa, fb), "float")
            raise Unsupported("parse_size arithmetic: " + ast.unparse(node)[:60])

        formula, ftyp = arith(rets[0])
        if ftyp != "float":
            raise Unsupported("parse_size no longer returns a float")
        body += "/-- the arithmetic of `parse_size` (`%s`) over an abstract float type -/\n" % ast.unparse(rets[0])
        body += ("def sizeFormula {F : Type} (mul div : F → F → F) (ofInt : Int → F) (s : F) (i u b : Int) : F :=\n  %s\n\n"
                 % formula)
        body += "def sizeUnitLetters : Py.Str := %s\n" % lean_chars(letters)
        body += "def sizeUnitOffset : Int := %d\n" % ub.right.value
        body += "def sizeBinaryBase : Int := %d\ndef sizeDecimalBase : Int := %d\n" % (base_bin, base_dec)
        body += "def sizeBitDivisor : List (Char × Int) := [%s]\n\n" % ", ".join("('%s', %d)" % (k, v) for k, v in bits)

        # ---- parse_duration
        pd = find_func(sp, "parse_duration")
        rx, _ = find_regex(pd)
        if rx != r"(?:([e\+\-\.\d]+)\s*([a-z]+)[\s\,]*)":
            raise Unsupported("parse_duration regex changed: %r" % rx)
        src = ast.unparse(pd)
        for needle in ("re.fullmatch(reg + '+', duration, flags=re.I)", "re.findall(reg, duration, flags=re.I)",
                       "return datetime.timedelta(seconds=seconds)", "duration = duration.strip()"):
            if needle not in src:
                raise Unsupported("parse_duration no longer contains: " + needle)
        # the loop: amount = float(<value>); factor = next(f for r, f in units if re.fullmatch(r, <unit>, flags=re.I));
        # seconds += amount * factor        (names free)
        loops = [n for n in ast.walk(pd) if isinstance(n, ast.For) and ast.unparse(n.iter) == "re.findall(reg, duration, flags=re.I)"]
        if len(loops) != 1 or not isinstance(loops[0].target, ast.Tuple) or len(loops[0].target.elts) != 2:
            raise Unsupported("parse_duration loop")
        v_val, v_unit = [ast.unparse(e) for e in loops[0].target.elts]
        amounts = assigned_from(loops[0], lambda v: isinstance(v, ast.Call) and ast.unparse(v.func) == "float"
                                and [ast.unparse(x) for x in v.args] == [v_val])

        def is_lookup(v):
            if not (isinstance(v, ast.Call) and ast.unparse(v.func) == "next" and len(v.args) == 1
                    and isinstance(v.args[0], ast.GeneratorExp) and len(v.args[0].generators) == 1):
                return False
            g = v.args[0].generators[0]
            if not (isinstance(g.target, ast.Tuple) and len(g.target.elts) == 2 and ast.unparse(g.iter) == "units"
                    and len(g.ifs) == 1):
                return False
            r_name, f_name = [ast.unparse(e) for e in g.target.elts]
            return ast.unparse(v.args[0].elt) == f_name and \
                ast.unparse(g.ifs[0]) == "re.fullmatch(%s, %s, flags=re.I)" % (r_name, v_unit)

        factors = assigned_from(loops[0], is_lookup)
        sums = [n for n in ast.walk(loops[0]) if isinstance(n, ast.AugAssign) and isinstance(n.op, ast.Add)
                and ast.unparse(n.target) == "seconds"]
        if len(amounts) != 1 or len(factors) != 1 or len(sums) != 1 \
                or ast.unparse(sums[0].value) != "%s * %s" % (amounts[0], factors[0]):
            raise Unsupported("parse_duration: seconds += float(value) * unit-factor changed")
        units = None
        for node in ast.walk(pd):
            if isinstance(node, ast.Assign) and ast.unparse(node.targets[0]) == "units" and isinstance(node.value, ast.List):
                units = node.value
        if units is None:
            raise Unsupported("units table")
        rows = []
        for e in units.elts:
            if not (isinstance(e, ast.Tuple) and len(e.elts) == 2 and isinstance(e.elts[1], ast.Constant)):
                raise Unsupported("units entry")
            alts = expand_alternatives(const_str(e.elts[0]))
            us = Fraction(repr(e.elts[1].value)) * 1000000
            if us.denominator != 1:
                raise Unsupported("unit multiplier is not a whole number of microseconds: %r" % e.elts[1].value)
            rows.append("  ([%s], (%d : Int))" % (", ".join(lean_chars(a) for a in alts), us.numerator))
        body += "/-- `units` of parse_duration: spellings (lower case; matching ignores case), microseconds -/\n"
        body += "def durationUnits : List (List Py.Str × Int) := [\n" + ",\n".join(rows) + "]\n\n"
        # the same table with the multipliers AS PYTHON HOLDS THEM: an int number of seconds, or a float literal
        # (given as decimal mantissa and exponent: the double is the one nearest to it)
        import decimal as _dec
        frows = []
        for e in units.elts:
            alts = expand_alternatives(const_str(e.elts[0]))
            v = e.elts[1].value
            if isinstance(v, bool) or not isinstance(v, (int, float)) or v <= 0:
                raise Unsupported("unit multiplier %r" % (v,))
            if isinstance(v, int):
                isf, mant, ex = "false", v, 0
            else:
                sign, digits, ex = _dec.Decimal(repr(v)).as_tuple()
                isf, mant = "true", int("".join(str(d) for d in digits))
            frows.append("  ([%s], %s, %d, (%d : Int))" % (", ".join(lean_chars(a) for a in alts), isf, mant, ex))
        body += "/-- `units` of parse_duration with the multipliers as the source has them: (spellings, is a float literal, "
        body += "decimal mantissa, decimal exponent) – seconds -/\n"
        body += "def durationUnitsF : List (List Py.Str × Bool × Nat × Int) := [\n" + ",\n".join(frows) + "]\n\n"

        # ---- parse_day
        pdy = find_func(sp, "parse_day")
        days = None
        rng = None
        for node in ast.walk(pdy):
            if isinstance(node, ast.Dict):
                days = node
            if isinstance(node, ast.UnaryOp) and isinstance(node.op, ast.Not) and isinstance(node.operand, ast.Compare):
                rng = node.operand
        if days is None or rng is None:
            raise Unsupported("parse_day shape")
        rows = ["(%s, (%d : Int))" % (lean_chars(const_str(k)), v.value) for k, v in zip(days.keys, days.values)]
        body += "def weekdayNames : List (Py.Str × Int) := [\n  " + ",\n  ".join(rows) + "]\n"
        if len(rng.ops) != 2:
            raise Unsupported("weekday range test")
        if not isinstance(rng.comparators[0], ast.Name):
            raise Unsupported("weekday range test operand")
        env = {rng.comparators[0].id: ("day", "int")}
        l1, _ = Tr(env).tr(ast.Compare(left=rng.left, ops=[rng.ops[0]], comparators=[rng.comparators[0]]))
        l2, _ = Tr(env).tr(ast.Compare(left=rng.comparators[0], ops=[rng.ops[1]], comparators=[rng.comparators[1]]))
        body += "/-- `0 <= day < 7` of the `w<N>` spelling -/\ndef weekdayInRange (day : Int) : Bool := (%s && %s)\n\n" % (l1, l2)
        src = ast.unparse(pdy)
        if "day.startswith('w') and day[1:].isdigit()" not in src or "day = day.strip().lower()" not in src:
            raise Unsupported("parse_day spelling test changed")

        # ---- parse_time / parse_daytime
        pt = find_func(sp, "parse_time")
        rx, flags = find_regex(pt)
        if rx != r"^[\d\.\:]+\s*(?:[ap]m)?$" or flags != ["re.I"]:
            raise Unsupported("parse_time regex changed: %r" % rx)
        formats = None
        for node in ast.walk(pt):
            if isinstance(node, ast.Assign) and ast.unparse(node.targets[0]) == "formats":
                formats = [const_str(e) for e in node.value.elts]
        if formats is None:
            raise Unsupported("parse_time formats")
        body += "def timeFormats : List Py.Str := [%s]\n\n" % ", ".join(lean_chars(f) for f in formats)
        pdt = find_func(sp, "parse_daytime")
        rx, flags = find_regex(pdt)
        if rx != r"^(.*?)\s+at\s+(.*)$" or flags != ["re.I"]:
            raise Unsupported("parse_daytime regex changed: %r" % rx)
    except EXC as e:
        errors.append("%s: %s" % (type(e).__name__, e))
    body += "end Rotation.Gen\n"
    return emit("RotationParsers", body, ["loguru/_string_parsers.py"], errors)


def _gen_sink():
    """Generated/Rotation.lean: kernels and shapes of loguru/_file_sink.py and loguru/_ctime_functions.py"""
    errors = []
    body = ("import LoguruModel.Generated.RotationParsers\nset_option linter.unusedVariables false\n"
            "namespace Rotation.Gen\nopen Rotation\n\n")
    try:
        fs, _ = parse_module("_file_sink.py")
        # ---- Rotation.forward_*
        fd = find_func(fs, "forward_day", "Rotation")
        ret = fd.body[0]
        if not (len(fd.body) == 1 and isinstance(ret, ast.Return) and isinstance(ret.value, ast.BinOp)
                and isinstance(ret.value.op, ast.Add) and ast.unparse(ret.value.left) == "t"):
            raise Unsupported("forward_day shape")
        body += "/-- `forward_day`: t + timedelta(…) -/\ndef forwardDayDelta : Td := %s\n\n" % _td(ret.value.right, {})
        fw = find_func(fs, "forward_weekday", "Rotation")
        def is_step(st):
            return isinstance(st, ast.AugAssign) and isinstance(st.op, ast.Add) and ast.unparse(st.target) == "t"

        w = fw.body[0]
        if (len(fw.body) == 1 and isinstance(w, ast.While) and ast.unparse(w.test) == "True" and len(w.body) == 2
                and is_step(w.body[0]) and isinstance(w.body[1], ast.If)
                and ast.unparse(w.body[1].body[0]) == "return t" and not w.body[1].orelse):
            # while True: t += d; if stop: return t
            step_node, stop_node, negate = w.body[0].value, w.body[1].test, False
        elif (len(fw.body) == 3 and is_step(fw.body[0]) and isinstance(fw.body[1], ast.While) and not fw.body[1].orelse
                and len(fw.body[1].body) == 1 and is_step(fw.body[1].body[0])
                and ast.unparse(fw.body[1].body[0].value) == ast.unparse(fw.body[0].value)
                and ast.unparse(fw.body[2]) == "return t"):
            # t += d; while not stop: t += d; return t      (the same do-while loop)
            step_node, stop_node, negate = fw.body[0].value, fw.body[1].test, True
        else:
            raise Unsupported("forward_weekday shape")
        body += "/-- `forward_weekday`: the step of the loop -/\ndef forwardWeekdayDelta : Td := %s\n" % _td(step_node, {})
        stop, typ = Tr({"weekday": ("weekday", "int")}, _t_calls()).tr(stop_node)
        Tr.need(typ, "bool")
        if negate:
            stop = "(!%s)" % stop
        body += "/-- `forward_weekday`: the loop's exit test (t.weekday = weekday of the stepped t) -/\n"
        body += "def forwardWeekdayStop (t : Fields) (weekday : Int) : Bool := %s\n\n" % stop
        fi = find_func(fs, "forward_interval", "Rotation")
        if ast.unparse(fi.body[0]) != "return t + interval" or len(fi.body) != 1:
            raise Unsupported("forward_interval shape")

        # ---- Rotation.rotation_size
        rs = find_func(fs, "rotation_size", "Rotation")
        if [a.arg for a in rs.args.args] != ["message", "file", "size_limit"] or not rs.body \
                or not isinstance(rs.body[-1], ast.Return):
            raise Unsupported("rotation_size shape")

        def is_seek_end(n):
            return (isinstance(n, ast.Call) and ast.unparse(n.func) == "file.seek" and not n.keywords
                    and [ast.unparse(a) for a in n.args] in (["0", "2"], ["0", "os.SEEK_END"], ["0", "io.SEEK_END"]))

        STAT_SIZE = ("os.fstat(file.fileno()).st_size", "os.stat(file.fileno()).st_size", "os.stat(file.name).st_size",
                     "os.path.getsize(file.name)")
        used = set()

        class _Sizes(ast.NodeTransformer):
            """the expressions that read "the size of the file" become the variable `tell`; which one it was is
            recorded (Gen.sizeSource) and interpreted on the stream model"""
            def visit_Attribute(self, node):
                if ast.unparse(node) in STAT_SIZE:
                    used.add("stat")
                    return ast.copy_location(ast.Name(id="__size__", ctx=ast.Load()), node)
                return self.generic_visit(node)

            def visit_Call(self, node):
                if ast.unparse(node) in STAT_SIZE:
                    used.add("stat")
                    return ast.copy_location(ast.Name(id="__size__", ctx=ast.Load()), node)
                if is_seek_end(node):
                    used.add("seekvalue")
                    return ast.copy_location(ast.Name(id="__size__", ctx=ast.Load()), node)
                if ast.unparse(node) == "file.tell()":
                    used.add("tell")
                    return ast.copy_location(ast.Name(id="__size__", ctx=ast.Load()), node)
                return self.generic_visit(node)

        stmts = list(rs.body)
        seek_first = isinstance(stmts[0], ast.Expr) and is_seek_end(stmts[0].value)
        if seek_first:
            stmts = stmts[1:]

        def call_len(tr, node):
            arg = ast.unparse(node.args[0]) if len(node.args) == 1 else "?"
            if arg == "message.encode(file.encoding, file.errors)":
                return ("msgBytes", "int")
            if arg == "message":
                return ("msgChars", "int")
            raise Unsupported("len of " + arg)

        rs_env = {"size_limit": ("sizeLimit", "int"), "__size__": ("tell", "int")}
        rs_calls = {"len": call_len}
        for st in stmts[:-1]:      # plain local assignments are inlined
            if not (isinstance(st, ast.Assign) and len(st.targets) == 1 and isinstance(st.targets[0], ast.Name)):
                raise Unsupported("rotation_size statement " + ast.unparse(st)[:60])
            rs_env[st.targets[0].id] = Tr(rs_env, rs_calls).tr(_Sizes().visit(st.value))
        term, typ = Tr(rs_env, rs_calls).tr(_Sizes().visit(stmts[-1].value))
        Tr.need(typ, "bool")
        if used == {"tell"} and seek_first or used == {"seekvalue"} and not seek_first:
            source = "seekEndTell"
        elif used == {"tell"}:
            source = "tellOnly"
        elif used == {"stat"}:
            source = "statSize"
        else:
            raise Unsupported("rotation_size: where the size of the file comes from: %r" % (sorted(used),))
        body += "/-- `Rotation.rotation_size`: `tell` = what the body reads as the size of the file (see `sizeSource`) -/\n"
        body += "def rotationSize (tell msgBytes msgChars sizeLimit : Int) : Bool := %s\n" % term
        body += "/-- where that number comes from: `file.seek(0, 2)` + `file.tell()`, `tell()` alone, or the OS -/\n"
        body += "def sizeSource : SizeSource := .%s\n\n" % source

        # ---- RotationGroup.__call__: how the members are combined
        rg = find_class(find_class(fs, "Rotation"), "RotationGroup")
        gcall = [n for n in rg.body if isinstance(n, ast.FunctionDef) and n.name == "__call__"]
        if len(gcall) != 1 or [a.arg for a in gcall[0].args.args] != ["self", "message", "file"]:
            raise Unsupported("RotationGroup.__call__ shape")
        gb = gcall[0].body
        comb = None

        def member_call(node, var):
            return (isinstance(node, ast.Call) and ast.unparse(node.func) == var and not node.keywords
                    and [ast.unparse(a) for a in node.args] == ["message", "file"])

        if len(gb) == 1 and isinstance(gb[0], ast.Return) and isinstance(gb[0].value, ast.Call) \
                and ast.unparse(gb[0].value.func) in ("any", "all") and len(gb[0].value.args) == 1 \
                and isinstance(gb[0].value.args[0], (ast.GeneratorExp, ast.ListComp)):
            ge = gb[0].value.args[0]
            if len(ge.generators) == 1 and not ge.generators[0].ifs and isinstance(ge.generators[0].target, ast.Name) \
                    and ast.unparse(ge.generators[0].iter) == "self._rotations" \
                    and member_call(ge.elt, ge.generators[0].target.id) and isinstance(ge, ast.GeneratorExp):
                comb = "anyInOrder" if ast.unparse(gb[0].value.func) == "any" else "allInOrder"
        elif len(gb) == 2 and isinstance(gb[0], ast.For) and isinstance(gb[1], ast.Return) and not gb[0].orelse \
                and isinstance(gb[0].target, ast.Name) and ast.unparse(gb[0].iter) == "self._rotations" \
                and len(gb[0].body) == 1 and isinstance(gb[0].body[0], ast.If) and not gb[0].body[0].orelse \
                and len(gb[0].body[0].body) == 1 and isinstance(gb[0].body[0].body[0], ast.Return):
            test, inner, final = gb[0].body[0].test, ast.unparse(gb[0].body[0].body[0].value), ast.unparse(gb[1].value)
            var = gb[0].target.id
            if member_call(test, var) and (inner, final) == ("True", "False"):
                comb = "anyInOrder"       # for r in rotations: if r(m, f): return True  /  return False
            elif isinstance(test, ast.UnaryOp) and isinstance(test.op, ast.Not) and member_call(test.operand, var) \
                    and (inner, final) == ("False", "True"):
                comb = "allInOrder"
        if comb is None:
            raise Unsupported("RotationGroup.__call__: neither any(...)/all(...) over self._rotations nor the equivalent loop")
        body += "/-- `RotationGroup.__call__`: members asked in list order, combined with … -/\n"
        body += "def groupCombinator : GroupComb := .%s\n\n" % comb

        # ---- FileSink.write: the order of (open if needed) / rotation check / write
        fsink0 = find_class(fs, "FileSink")
        wr = find_func(fs, "write", "FileSink")
        order_w = []
        for st in wr.body:
            src = ast.unparse(st)
            if isinstance(st, ast.If) and ast.unparse(st.test) in ("self._file is None", "not self._file"):
                order_w.append("ensureOpen")
            elif isinstance(st, ast.If) and ast.unparse(st.test) == "self._watch":
                continue
            elif isinstance(st, ast.If) and "self._rotation_function(message, self._file)" in ast.unparse(st.test) \
                    and [ast.unparse(x) for x in st.body] == ["self._terminate_file(is_rotating=True)"] and not st.orelse:
                t = st.test
                ok = ast.unparse(t) == "self._rotation_function(message, self._file)" or (
                    isinstance(t, ast.BoolOp) and isinstance(t.op, ast.And) and len(t.values) == 2
                    and ast.unparse(t.values[0]) in ("self._rotation_function is not None", "self._rotation_function")
                    and ast.unparse(t.values[1]) == "self._rotation_function(message, self._file)")
                if not ok:
                    raise Unsupported("FileSink.write: rotation test " + ast.unparse(t)[:80])
                order_w.append("rotationCheck")
            elif src == "self._file.write(message)":
                order_w.append("fileWrite")
            else:
                raise Unsupported("FileSink.write statement: " + src[:60])
        body += "/-- `FileSink.write`: the order of its steps (watch/reopen left out) -/\n"
        body += "def writeOrder : List WriteStep := [%s]\n\n" % ", ".join("." + x for x in order_w)

        # ---- RotationTime.__call__
        rt = find_class(find_class(fs, "Rotation"), "RotationTime")
        call = [n for n in rt.body if isinstance(n, ast.FunctionDef) and n.name == "__call__"][0]
        first = rot = loop = None
        for node in ast.walk(call):
            if isinstance(node, ast.If) and "self._step_forward(limit)" in ast.unparse(node.body) \
                    and "start_time" in ast.unparse(node.test):
                first = node
            if isinstance(node, ast.If) and any(isinstance(x, ast.While) for x in node.body):
                rot = node
                loop = [x for x in node.body if isinstance(x, ast.While)][0]
        if first is None or rot is None:
            raise Unsupported("RotationTime.__call__ shape")
        if ast.unparse(first.body[0]) != "limit = self._step_forward(limit)" or len(first.body) != 1 or first.orelse:
            raise Unsupported("first-limit step")
        if [ast.unparse(x) for x in loop.body] != ["self._limit = self._step_forward(self._limit)"]:
            raise Unsupported("catch-up loop body")
        if ast.unparse(rot.body[-1]) != "return True" or len(rot.body) != 2:
            raise Unsupported("rotate branch")
        t = first.test
        if not (isinstance(t, ast.BoolOp) and isinstance(t.op, ast.Or) and len(t.values) == 2):
            raise Unsupported("first-limit test is not `a or b`")
        env = {"limit": ("limit", "int"), "start_time": ("start", "int"), "record_time": ("rec", "int"),
               "self._limit": ("limit", "int")}
        a, ta = Tr(env).tr(t.values[0])
        Tr.need(ta, "bool")
        wk = t.values[1]
        if not (isinstance(wk, ast.BoolOp) and isinstance(wk.op, ast.And) and len(wk.values) == 2
                and ast.unparse(wk.values[0]) == "self._weekday is not None"):
            raise Unsupported("weekday clause of the first-limit test")

        def call_lwd(tr, node):
            return ("limitWeekday", "int")

        b, tb = Tr({"self._weekday": ("w", "int")}, {"limit.weekday": call_lwd}).tr(wk.values[1])
        Tr.need(tb, "bool")
        body += "/-- `limit <= start_time or (self._weekday is not None and limit.weekday() != self._weekday)` -/\n"
        body += ("def firstLimitStep (limit start limitWeekday : Int) (weekday : Option Int) : Bool :=\n"
                 "  %s || (match weekday with | none => false | some w => %s)\n\n" % (a, b))
        r, tr_ = Tr(env).tr(rot.test)
        Tr.need(tr_, "bool")
        body += "/-- `record_time >= self._limit` -/\ndef shouldRotate (rec limit : Int) : Bool := %s\n\n" % r
        c, tc = Tr(env).tr(loop.test)
        Tr.need(tc, "bool")
        body += "/-- `while self._limit <= record_time` -/\ndef catchUpCond (limit rec : Int) : Bool := %s\n\n" % c
        cnodes = expanded(call, [rt, find_class(fs, "Rotation"), fs])

        def is_time_replace(n):
            return (isinstance(n.func, ast.Attribute) and n.func.attr == "replace" and not n.args
                    and sorted(k.arg for k in n.keywords) == ["hour", "microsecond", "minute", "second"]
                    and all(ast.unparse(k.value) == "time_init." + k.arg for k in n.keywords))

        if not any(isinstance(n, ast.Call) and is_time_replace(n) for n in cnodes):
            raise Unsupported("RotationTime.__call__: replace(hour/minute/second/microsecond = time_init.…) not found")
        if not has_expr(cnodes, "start_time.astimezone(record_time.tzinfo).replace(tzinfo=None)"):
            raise Unsupported("RotationTime.__call__: the naive first limit is no longer the creation time in the record's zone")
        # the creation time: get_ctime(realpath(file.name)), persisted back with set_ctime, read as a UTC instant
        gets = [n for n in cnodes if isinstance(n, ast.Call) and ast.unparse(n.func) == "get_ctime" and len(n.args) == 1]
        if len(gets) != 1:
            raise Unsupported("RotationTime.__call__: exactly one get_ctime(path) expected")
        path_arg = ast.unparse(gets[0].args[0])
        path_ok = path_arg == "os.path.realpath(file.name)" or any(
            isinstance(n, ast.Assign) and ast.unparse(n.targets[0]) == path_arg
            and ast.unparse(n.value) == "os.path.realpath(file.name)" for n in cnodes)
        ctime_names = [ast.unparse(n.targets[0]) for n in cnodes if isinstance(n, ast.Assign) and n.value is gets[0]]
        if not path_ok or len(ctime_names) != 1:
            raise Unsupported("RotationTime.__call__: get_ctime is not applied to os.path.realpath(file.name)")
        cname = ctime_names[0]
        if not has_call(cnodes, "set_ctime", lambda n: [ast.unparse(a) for a in n.args] == [path_arg, cname]):
            raise Unsupported("RotationTime.__call__: the creation time is no longer persisted with set_ctime")
        if not has_call(cnodes, "datetime.datetime.fromtimestamp",
                        lambda n: [ast.unparse(a) for a in n.args] == [cname]
                        and [(k.arg, ast.unparse(k.value)) for k in n.keywords] == [("tz", "datetime.timezone.utc")]):
            raise Unsupported("RotationTime.__call__: start_time is no longer fromtimestamp(creation_time, tz=utc)")

        # ---- RotationTime.__call__: when is `time_init` treated as naive?  (zone choice, and dropping tzinfo)
        def naive_test(node, local):
            """a test over `time_init`: atoms `time_init.tzinfo is None` / `time_init.utcoffset() is None`,
            a local name bound to one, `not`/and/or of these"""
            if isinstance(node, ast.Name) and node.id in local:
                return local[node.id]
            if isinstance(node, ast.Compare) and len(node.ops) == 1 and isinstance(node.ops[0], (ast.Is, ast.IsNot)) \
                    and ast.unparse(node.comparators[0]) == "None":
                src = ast.unparse(node.left)
                atom = {"time_init.tzinfo": "tzinfoIsNone", "time_init.utcoffset()": "utcoffsetIsNone"}.get(src)
                if atom is None:
                    raise Unsupported("naive test on " + src)
                return atom if isinstance(node.ops[0], ast.Is) else "(!%s)" % atom
            if isinstance(node, ast.UnaryOp) and isinstance(node.op, ast.Not):
                return "(!%s)" % naive_test(node.operand, local)
            if isinstance(node, ast.BoolOp):
                sym = " && " if isinstance(node.op, ast.And) else " || "
                return "(" + sym.join(naive_test(v, local) for v in node.values) + ")"
            raise Unsupported("naive test " + ast.unparse(node)[:60])

        local, zone_test, strip_test = {}, None, None
        for node in ast.walk(call):
            if isinstance(node, ast.Assign) and len(node.targets) == 1 and isinstance(node.targets[0], ast.Name):
                name = node.targets[0].id
                if name == "tzinfo" and isinstance(node.value, ast.IfExp) \
                        and ast.unparse(node.value.body) == "record_time.tzinfo" \
                        and ast.unparse(node.value.orelse) == "time_init.tzinfo":
                    zone_test = node.value.test
                elif "time_init" in ast.unparse(node.value) and name not in ("limit", "tzinfo", "time_init"):
                    try:
                        local[name] = naive_test(node.value, local)
                    except Unsupported:
                        pass
            if isinstance(node, ast.If) and [ast.unparse(x) for x in node.body] == ["limit = limit.replace(tzinfo=None)"]:
                strip_test = node.test
        if zone_test is None or strip_test is None:
            raise Unsupported("RotationTime.__call__: zone selection / tzinfo stripping of the first limit not found")
        body += "/-- is `time_init` read in the records' zone?  (`tzinfo = record_time.tzinfo if … else time_init.tzinfo`) -/\n"
        body += "def timeInitUsesRecordZone (tzinfoIsNone utcoffsetIsNone : Bool) : Bool := %s\n" % naive_test(zone_test, local)
        body += "/-- is the first limit made naive?  (`if …: limit = limit.replace(tzinfo=None)`) -/\n"
        body += "def timeInitLimitNaive (tzinfoIsNone utcoffsetIsNone : Bool) : Bool := %s\n\n" % naive_test(strip_test, local)

        # ---- FileSink._terminate_file / _create_file: the file a rotation creates
        tf = find_func(fs, "_terminate_file", "FileSink")
        tagged = None
        for node in tf.body:
            if isinstance(node, ast.If) and ast.unparse(node.test) == "is_rotating":
                srcs = [ast.unparse(x) for x in node.body]
                if "self._create_file(new_path)" in srcs:
                    # the tag only sticks when it is written AFTER the file exists (set_ctime swallows the OSError
                    # of a missing file) and unconditionally
                    made = srcs.index("self._create_file(new_path)")
                    tagged = "set_ctime(new_path, datetime.datetime.now().timestamp())" in srcs[made + 1:]
        if tagged is None:
            raise Unsupported("_terminate_file: creation of the new file not found")
        body += "/-- after a rotation, is the new file unconditionally tagged `set_ctime(new_path, now)`? -/\n"
        body += "def newFileTaggedWithNow : Bool := %s\n" % ("true" if tagged else "false")
        same = [n for n in ast.walk(tf) if isinstance(n, ast.If) and ast.unparse(n.test) in ("new_path == old_path", "old_path == new_path")]
        fsink = find_class(fs, "FileSink")
        if len(same) != 1:
            raise Unsupported("_terminate_file: the test `new_path == old_path` changed")
        holder = ast.Module(body=same[0].body, type_ignores=[])
        holder.name = "_terminate_file"
        if not has_call(expanded(holder, [fsink, fs]), "os.rename") \
                or not has_call(expanded(holder, [fsink, fs]), "generate_rename_path"):
            raise Unsupported("_terminate_file: a file that keeps its name is no longer renamed away")
        cf = find_func(fs, "_create_file", "FileSink")
        assigns = [ast.unparse(n.value) for n in ast.walk(cf) if isinstance(n, ast.Assign)
                   and ast.unparse(n.targets[0]) == "self._file_path"]
        tfp = [ast.unparse(n.value) for n in ast.walk(tf) if isinstance(n, ast.Assign) and ast.unparse(n.targets[0]) == "old_path"]
        body += "/-- `_create_file` remembers the path exactly as `_create_path()` produced it (what `_terminate_file`\n"
        body += "compares with a fresh `_create_path()` to decide that the full file must be renamed away) -/\n"
        body += "def filePathIsCreatedPath : Bool := %s\n\n" % (
            "true" if assigns == ["path"] and tfp and tfp[0] == "self._file_path" else "false")

        # ---- _make_rotation_function
        mk = find_func(fs, "_make_rotation_function", "FileSink")
        order, guard, default_time = [], None, None
        fsink = find_class(fs, "FileSink")
        for node in ast.walk(mk):
            if isinstance(node, ast.If) and ast.unparse(node.test) == "isinstance(rotation, str)":
                for sub in ast.walk(node):
                    if isinstance(sub, ast.Call) and ast.unparse(sub.func).startswith("string_parsers."):
                        order.append(ast.unparse(sub.func)[15:])
                holder = ast.Module(body=node.body, type_ignores=[])
                holder.name = "_make_rotation_function"
                snodes = expanded(holder, [fsink, fs])
                for sub in snodes:
                    if isinstance(sub, ast.If) and isinstance(sub.test, ast.Compare) and len(sub.test.ops) == 1 \
                            and isinstance(sub.test.ops[0], ast.Is) and ast.unparse(sub.test.comparators[0]) == "None" \
                            and len(sub.body) == 1 and isinstance(sub.body[0], ast.Assign) \
                            and ast.unparse(sub.body[0].targets[0]) == ast.unparse(sub.test.left) \
                            and isinstance(sub.body[0].value, ast.Call) \
                            and ast.unparse(sub.body[0].value.func) == "datetime.time":
                        default_time = ast.unparse(sub.body[0].value)
                if not has_call(snodes, "Rotation.RotationTime", lambda n: len(n.args) == 2 and
                                [(k.arg, ast.unparse(k.value)) for k in n.keywords] == [("weekday", "day")]) \
                        or not has_call(snodes, "partial", lambda n: ast.unparse(n.args[0]) == "Rotation.forward_weekday"
                                        and [(k.arg, ast.unparse(k.value)) for k in n.keywords] == [("weekday", "day")]):
                    raise Unsupported("weekday rotations are no longer RotationTime(partial(forward_weekday, weekday=day), time, weekday=day)")
            if isinstance(node, ast.If) and ast.unparse(node.test) == "isinstance(rotation, datetime.timedelta)":
                for sub in node.body:
                    if isinstance(sub, ast.If) and isinstance(sub.body[0], ast.Raise):
                        guard = sub
        if order != ["parse_size", "parse_duration", "parse_frequency", "parse_daytime"]:
            raise Unsupported("string dispatch order changed: %r" % (order,))
        if default_time != "datetime.time(0, 0, 0)":
            raise Unsupported("default time of a weekday rotation: %r" % (default_time,))
        if guard is None or "ValueError" not in ast.unparse(guard.body[0]):
            raise Unsupported("no ValueError guard on timedelta rotations")

        def call_td0(tr, node):
            if len(node.args) == 1 and not node.keywords and ast.unparse(node.args[0]) == "0":
                return ("(0 : Int)", "int")
            raise Unsupported("timedelta literal " + ast.unparse(node))

        g, tg = Tr({"rotation": ("rotation", "int")}, {"datetime.timedelta": call_td0}).tr(guard.test)
        Tr.need(tg, "bool")
        body += "/-- the test under which a `timedelta` rotation is rejected with ValueError (microseconds) -/\n"
        body += "def intervalRejected (rotation : Int) : Bool := %s\n\n" % g

        # ---- _ctime_functions.py: where the creation time of a file comes from
        ct, _ = parse_module("_ctime_functions.py")
        load = find_func(ct, "load_ctime_functions")
        # the platform dispatch: a chain of `if <feature test>: … return get_ctime_X, set_ctime_X`, then the fallback pair
        ATOMS = {"os.name == 'nt'": "isNt", "hasattr(os.stat_result, 'st_birthtime')": "hasBirthtime",
                 "hasattr(os, 'getxattr') and hasattr(os, 'setxattr')": "hasXattr",
                 "hasattr(os, 'setxattr') and hasattr(os, 'getxattr')": "hasXattr"}
        CODES = {"windows": 0, "macos": 1, "linux": 2, "fallback": 3}

        def returned_pair(stmts):
            rets = [x for x in stmts if isinstance(x, ast.Return)]
            if len(rets) != 1 or not isinstance(rets[0].value, ast.Tuple) or len(rets[0].value.elts) != 2:
                raise Unsupported("load_ctime_functions: a branch does not return (getter, setter)")
            g, s_ = [ast.unparse(e) for e in rets[0].value.elts]
            if not (g.startswith("get_ctime_") and s_ == "set_ctime_" + g[10:] and g[10:] in CODES):
                raise Unsupported("load_ctime_functions returns %s, %s" % (g, s_))
            return CODES[g[10:]]

        chain = []
        for st in load.body:
            if isinstance(st, ast.If):
                atom = ATOMS.get(ast.unparse(st.test))
                if atom is None or st.orelse:
                    raise Unsupported("platform test of load_ctime_functions: " + ast.unparse(st.test)[:80])
                chain.append((atom, returned_pair(st.body)))
        final = returned_pair(load.body)
        dispatch = str(final)
        for atom, code in reversed(chain):
            dispatch = "if %s then %d else %s" % (atom, code, dispatch)
        body += "/-- `load_ctime_functions`: which pair of functions is installed (0 windows, 1 macos, 2 linux xattr, 3 fallback) -/\n"
        body += "def ctimeDispatch (isNt hasBirthtime hasXattr : Bool) : Nat := %s\n" % dispatch

        def stat_field(fn_name):
            """the `st_*` field a getter returns from os.stat(filepath) (last return of the function)"""
            fn = find_func(load, fn_name)
            rets = [n for n in ast.walk(fn) if isinstance(n, ast.Return)]
            v = rets[-1].value
            if not (isinstance(v, ast.Attribute) and ast.unparse(v.value) == "os.stat(filepath)"
                    and v.attr in ("st_mtime", "st_ctime", "st_atime", "st_birthtime")):
                raise Unsupported("%s does not return a time field of os.stat(filepath): %s" % (fn_name, ast.unparse(v)))
            return fn, v.attr

        gl, linux_field = stat_field("get_ctime_linux")
        tr_ = gl.body[0]
        if not (len(gl.body) == 1 and isinstance(tr_, ast.Try) and len(tr_.body) == 1 and len(tr_.handlers) == 1
                and ast.unparse(tr_.handlers[0].type) == "OSError" and len(tr_.handlers[0].body) == 1
                and isinstance(tr_.body[0], ast.Return)):
            raise Unsupported("get_ctime_linux shape")
        g = tr_.body[0].value
        if not (isinstance(g, ast.Call) and ast.unparse(g.func) == "float" and len(g.args) == 1
                and isinstance(g.args[0], ast.Call) and ast.unparse(g.args[0].func) == "os.getxattr"
                and ast.unparse(g.args[0].args[0]) == "filepath" and len(g.args[0].args) == 2):
            raise Unsupported("get_ctime_linux does not read float(os.getxattr(filepath, b'…'))")
        get_attr = module_const(ct, g.args[0].args[1]).decode("ascii")
        sl = find_func(load, "set_ctime_linux")
        sets = [n for n in ast.walk(sl) if isinstance(n, ast.Call) and ast.unparse(n.func) == "os.setxattr"]
        if len(sets) != 1 or ast.unparse(sets[0].args[0]) != "filepath" \
                or ast.unparse(sets[0].args[2]) != "str(timestamp).encode('ascii')":
            raise Unsupported("set_ctime_linux shape")
        set_attr = module_const(ct, sets[0].args[1]).decode("ascii")
        _, fb_field = stat_field("get_ctime_fallback")
        _, mac_field = stat_field("get_ctime_macos")
        _, win_field = stat_field("get_ctime_windows")
        for nm in ("set_ctime_fallback", "set_ctime_macos"):
            if [ast.unparse(x) for x in find_func(load, nm).body] != ["pass"]:
                raise Unsupported(nm + " is no longer a no-op")
        body += "/-- the extended attribute `get_ctime_linux` reads / `set_ctime_linux` writes -/\n"
        body += "def ctimeGetAttr : Py.Str := %s\ndef ctimeSetAttr : Py.Str := %s\n" % (lean_chars(get_attr), lean_chars(set_attr))
        body += "/-- `get_ctime_linux` when the attribute cannot be read: os.stat(filepath).%s -/\n" % linux_field
        body += "def ctimeLinuxFallback (st : StatTimes) : Int := st.%s\n" % linux_field
        body += "/-- `get_ctime_fallback` (no xattr support at all): os.stat(filepath).%s -/\n" % fb_field
        body += "def ctimeNoXattr (st : StatTimes) : Int := st.%s\n" % fb_field
        body += "def ctimeMacos (st : StatTimes) : Int := st.%s\ndef ctimeWindows (st : StatTimes) : Int := st.%s\n\n" % (mac_field, win_field)
    except EXC as e:
        errors.append("%s: %s" % (type(e).__name__, e))
    body += "end Rotation.Gen\n"
    return emit("Rotation", body, ["loguru/_file_sink.py", "loguru/_ctime_functions.py"], errors)


def generate():
    a = _gen_parsers()
    b = _gen_sink()
    return a and b
