"""Generated/Frames.lean from loguru/_logger.py, _get_frame.py, _recattrs.py (C17).

C17 is mostly translation validation: the index arithmetic is trivial once the frame counts are
right, so the frame counts, the `depth + K` constant, the decorator increment, the fallback
branches and the sources of the record fields are READ FROM THE SOURCE on every run.

Fail closed: a construct outside the expected shapes makes the generated file contain no
definitions (the dependent theorems then do not build).  Where a *plausible edit* can be expressed
in the table (a logging method delegating through another one, a changed constant, a record field
fed from another local, a changed placeholder) the table is emitted faithfully and it is the
THEOREM that stops building, not the extractor.
"""
import ast

from extract_lib import Tr, Unsupported, emit, find_class, find_func, lean_chars, parse_module

PUBLIC = ["trace", "debug", "info", "success", "warning", "error", "critical", "exception", "log"]

LOCAL_OF = {
    "co_name": "co_name", "f_lineno": "f_lineno", "co_filename": "co_filename", "name": "name",
    "file_name": "file_name", "splitext(file_name)[0]": "file_stem",
    "thread.ident": "thread_ident", "thread.name": "thread_name",
    "process.ident": "process_ident", "process.name": "process_name",
    "current_datetime": "current_datetime", "elapsed": "elapsed",
}


def _body(fn):
    """statements of a function without its docstring"""
    b = list(fn.body)
    if b and isinstance(b[0], ast.Expr) and isinstance(b[0].value, ast.Constant) and isinstance(b[0].value.value, str):
        b = b[1:]
    return b


def _src(node):
    return ast.unparse(node)


def _imports(tree):
    """name -> (module, original name) for module-level `from X import a [as b]`"""
    out = {}
    for node in tree.body:
        if isinstance(node, ast.ImportFrom):
            for a in node.names:
                out[a.asname or a.name] = ("." * node.level + (node.module or ""), a.name)
    return out


def _stores(fn):
    """how often each local name is assigned anywhere inside fn (nested scopes included)"""
    cnt = {}
    for node in ast.walk(fn):
        if isinstance(node, ast.Name) and isinstance(node.ctx, (ast.Store, ast.Del)):
            cnt[node.id] = cnt.get(node.id, 0) + 1
        if isinstance(node, ast.arg):
            cnt[node.arg] = cnt.get(node.arg, 0) + 1
    return cnt


def _opt_expr(node, self_name):
    """options expression of a public method -> Lean OptExpr"""
    s = _src(node)
    if s == "%s._options" % self_name:
        return ".selfOptions"
    # (c1, ..., cp) + self._options[d:]
    if isinstance(node, ast.BinOp) and isinstance(node.op, ast.Add) and isinstance(node.left, ast.Tuple) \
            and all(isinstance(e, ast.Constant) for e in node.left.elts) \
            and isinstance(node.right, ast.Subscript) and _src(node.right.value) == "%s._options" % self_name \
            and isinstance(node.right.slice, ast.Slice) and node.right.slice.upper is None \
            and node.right.slice.step is None and isinstance(node.right.slice.lower, ast.Constant) \
            and isinstance(node.right.slice.lower.value, int) and node.right.slice.lower.value >= 0:
        return "(.prependDrop %d %d)" % (len(node.left.elts), node.right.slice.lower.value)
    raise Unsupported("options expression " + s)


def _method_row(cls, name, seen=()):
    """(chain innermost-first, OptExpr) of a public logging method, following delegation through
    other public methods (so that a delegating method shows up as a longer chain)."""
    if name in seen or len(seen) > 4:
        raise Unsupported("delegation cycle at " + name)
    fn = None
    for sub in cls.body:
        if isinstance(sub, ast.FunctionDef) and sub.name == name:
            if fn is not None:
                raise Unsupported("method %s defined twice" % name)
            fn = sub
    if fn is None:
        raise Unsupported("method %s not found" % name)
    if fn.decorator_list:
        raise Unsupported("method %s is decorated (the decorator may push frames)" % name)
    if not fn.args.args:
        raise Unsupported("method %s has no self parameter" % name)
    self_name = fn.args.args[0].arg
    body = _body(fn)
    opts_local = None
    if len(body) == 2 and isinstance(body[0], ast.Assign) and len(body[0].targets) == 1 \
            and isinstance(body[0].targets[0], ast.Name):
        opts_local = (body[0].targets[0].id, body[0].value)
        body = body[1:]
    if len(body) != 1 or not isinstance(body[0], (ast.Expr, ast.Return)) or not isinstance(body[0].value, ast.Call):
        raise Unsupported("method %s is not a single call" % name)
    call = body[0].value
    f = call.func
    if not (isinstance(f, ast.Attribute) and isinstance(f.value, ast.Name) and f.value.id == self_name):
        raise Unsupported("method %s calls %s" % (name, _src(f)))
    if f.attr == "_log":
        if len(call.args) != 6 or call.keywords:
            raise Unsupported("method %s: _log call shape %s" % (name, _src(call)))
        if _src(call.args[1]) != "False":
            raise Unsupported("method %s passes from_decorator=%s" % (name, _src(call.args[1])))
        o = call.args[2]
        if opts_local and isinstance(o, ast.Name) and o.id == opts_local[0]:
            oe = _opt_expr(opts_local[1], self_name)
        elif opts_local:
            raise Unsupported("method %s: unused local %s" % (name, opts_local[0]))
        else:
            oe = _opt_expr(o, self_name)
        return [name], oe
    if f.attr in PUBLIC and not opts_local:
        chain, oe = _method_row(cls, f.attr, seen + (name,))
        return chain + [name], oe
    raise Unsupported("method %s calls %s" % (name, _src(f)))


def _toplevel_with(fn, ctx_name):
    """does fn's own body (not nested defs) contain `with <ctx_name>:` and is its __exit__ therefore
    called from fn's frame?  Returns number of such with-statements."""
    n = 0
    todo = list(fn.body)
    while todo:
        st = todo.pop()
        if isinstance(st, (ast.FunctionDef, ast.AsyncFunctionDef, ast.ClassDef, ast.Lambda)):
            continue
        if isinstance(st, ast.With):
            for item in st.items:
                if isinstance(item.context_expr, ast.Name) and item.context_expr.id == ctx_name:
                    n += 1
        if isinstance(st, ast.AsyncWith):
            for item in st.items:
                if isinstance(item.context_expr, ast.Name) and item.context_expr.id == ctx_name:
                    raise Unsupported("async with on the catcher inside " + fn.name)
        for child in ast.iter_child_nodes(st):
            if isinstance(child, ast.stmt):
                todo.append(child)
            elif isinstance(child, ast.ExceptHandler):
                todo.extend(child.body)
    return n


# ----------------------------------------------------------------------------- canonicalisation (alpha-renaming, imports)
# The shape checks below are written against the names the code uses today.  To stay insensitive to
# behaviour-preserving rewrites, the parsed tree is first CANONICALISED: locals / private names are identified by
# their ROLE (which call produces them, which slot they are unpacked from, which argument position they are passed
# in) and renamed to today's names; qualified calls (`threading.current_thread()`, `_get_frame.get_frame(...)`) are
# resolved through the import table and rewritten to the bare name.  A role that cannot be identified is simply not
# renamed, so the checks that follow still fail closed.
CANON_CALLS = {("._get_frame", "get_frame"): "get_frame", ("os.path", "basename"): "basename", ("os.path", "splitext"): "splitext",
               ("threading", "current_thread"): "current_thread", ("multiprocessing", "current_process"): "current_process",
               ("._datetime", "aware_now"): "aware_now", ("._recattrs", "RecordFile"): "RecordFile",
               ("._recattrs", "RecordThread"): "RecordThread", ("._recattrs", "RecordProcess"): "RecordProcess"}


def _module_aliases(tree):
    """local name -> dotted module it denotes (`import a.b as c`, `import a`, `from p import m`)"""
    out = {}
    for node in tree.body:
        if isinstance(node, ast.Import):
            for a in node.names:
                if a.asname:
                    out[a.asname] = a.name
                else:
                    out[a.name.split(".")[0]] = a.name.split(".")[0]
        elif isinstance(node, ast.ImportFrom):
            base = "." * node.level + (node.module or "")
            for a in node.names:
                out.setdefault(a.asname or a.name, (base + ("" if base.endswith(".") or not base else ".") + a.name))
    return out


def _dotted(node):
    parts = []
    while isinstance(node, ast.Attribute):
        parts.append(node.attr)
        node = node.value
    if isinstance(node, ast.Name):
        parts.append(node.id)
        return list(reversed(parts))
    return None


class _Rename(ast.NodeTransformer):
    def __init__(self, names, kwargs=None, self_attrs=None, defs=None):
        self.names, self.kwargs, self.self_attrs, self.defs = names, kwargs or {}, self_attrs or {}, defs or {}

    def visit_Name(self, node):
        node.id = self.names.get(node.id, node.id)
        return node

    def visit_arg(self, node):
        node.arg = self.names.get(node.arg, node.arg)
        return node

    def visit_keyword(self, node):
        self.generic_visit(node)
        if node.arg in self.kwargs:
            node.arg = self.kwargs[node.arg]
        return node

    def visit_Attribute(self, node):
        self.generic_visit(node)
        if isinstance(node.value, ast.Name) and node.value.id == "self" and node.attr in self.self_attrs:
            node.attr = self.self_attrs[node.attr]
        return node

    def visit_FunctionDef(self, node):
        node.name = self.defs.get(node.name, node.name)
        self.generic_visit(node)
        return node

    visit_AsyncFunctionDef = visit_FunctionDef

    def visit_ClassDef(self, node):
        node.name = self.defs.get(node.name, node.name)
        self.generic_visit(node)
        return node


def _safe_map(m, scope):
    """a rename map is only applied when it is injective and does not capture a name already used in the scope"""
    m = {k: v for k, v in m.items() if k != v}
    used = {n.id for n in ast.walk(scope) if isinstance(n, ast.Name)} | {a.arg for a in ast.walk(scope) if isinstance(a, ast.arg)}
    targets = list(m.values())
    if len(set(targets)) != len(targets):
        return {}
    for k, v in m.items():
        if v in used and v not in m:          # would capture another variable
            return {}
    return m


def canonicalise(tree):
    aliases = _module_aliases(tree)
    imports = _imports(tree)
    resolved = set()

    # ---- qualified calls -> bare canonical names (whole module: _log, start_time, ...)
    for node in ast.walk(tree):
        if isinstance(node, ast.Call) and isinstance(node.func, ast.Attribute):
            d = _dotted(node.func)
            if d and d[0] in aliases and d[0] not in ("self",):
                mod = aliases[d[0]]
                path = ".".join([mod] + d[1:-1]) if len(d) > 2 else mod
                key = (path, d[-1])
                if key in CANON_CALLS:
                    node.func = ast.copy_location(ast.Name(id=CANON_CALLS[key], ctx=ast.Load()), node.func)
                    resolved.add(CANON_CALLS[key])
    for (mod, name), bare in CANON_CALLS.items():
        if bare not in resolved and imports.get(bare) == (mod, name):
            resolved.add(bare)
        elif bare in imports and imports[bare] != (mod, name):
            resolved.discard(bare)

    try:
        cls = find_class(tree, "Logger")
    except Unsupported:
        return resolved
    # ---- _log
    for fn in [f for f in cls.body if isinstance(f, ast.FunctionDef) and f.name == "_log"]:
        m = {}
        want_params = ["self", "level", "from_decorator", "options", "message", "args", "kwargs"]
        params = [a.arg for a in fn.args.args]
        if len(params) == len(want_params):
            m.update(dict(zip(params, want_params)))
        opt_param = params[3] if len(params) > 3 else None
        calls = {}
        for node in ast.walk(fn):
            if isinstance(node, ast.Assign) and len(node.targets) == 1 and isinstance(node.targets[0], ast.Name) \
                    and isinstance(node.value, ast.Call) and isinstance(node.value.func, ast.Name):
                calls.setdefault(node.value.func.id, []).append(node)
        gf = calls.get("get_frame", [])
        if len(gf) == 1:
            frame_local = gf[0].targets[0].id
            m[frame_local] = "frame"
            # the depth local: the only unpacked option the get_frame argument mentions
            unpacked = []
            for node in ast.walk(fn):
                if isinstance(node, ast.Assign) and isinstance(node.targets[0], ast.Tuple) and isinstance(node.value, ast.Name) \
                        and node.value.id == opt_param:
                    unpacked = [e.id for e in node.targets[0].elts if isinstance(e, ast.Name)]
            used = [n.id for a in gf[0].value.args for n in ast.walk(a) if isinstance(n, ast.Name) and n.id in unpacked]
            if len(set(used)) == 1:
                m[used[0]] = "depth"
            role = {"f_globals": "f_globals", "f_lineno": "f_lineno", "f_code.co_name": "co_name", "f_code.co_filename": "co_filename"}
            for node in ast.walk(fn):
                if isinstance(node, ast.Assign) and len(node.targets) == 1 and isinstance(node.targets[0], ast.Name):
                    d = _dotted(node.value) if isinstance(node.value, ast.Attribute) else None
                    if d and d[0] == frame_local and ".".join(d[1:]) in role:
                        m[node.targets[0].id] = role[".".join(d[1:])]
            inv = {v: k for k, v in m.items()}
            for node in ast.walk(fn):
                if isinstance(node, ast.Assign) and len(node.targets) == 1 and isinstance(node.targets[0], ast.Name):
                    v = node.value
                    if isinstance(v, ast.Subscript) and isinstance(v.value, ast.Name) and v.value.id == inv.get("f_globals") \
                            and isinstance(v.slice, ast.Constant) and v.slice.value == "__name__":
                        m[node.targets[0].id] = "name"
        for callee, canon_local in (("basename", "file_name"), ("current_thread", "thread"), ("current_process", "process"),
                                    ("aware_now", "current_datetime")):
            tg = {a.targets[0].id for a in calls.get(callee, [])}
            if len(tg) == 1:
                m[tg.pop()] = canon_local
        for node in ast.walk(fn):
            if isinstance(node, ast.Assign) and len(node.targets) == 1 and isinstance(node.targets[0], ast.Name) \
                    and isinstance(node.value, ast.Dict):
                keys = {k.value: v for k, v in zip(node.value.keys, node.value.values) if isinstance(k, ast.Constant)}
                if {"elapsed", "thread", "process", "time", "function"} <= set(keys):
                    m[node.targets[0].id] = "log_record"
                    if isinstance(keys["elapsed"], ast.Name):
                        m[keys["elapsed"].id] = "elapsed"
        m = _safe_map(m, fn)
        if m:
            _Rename(m).visit(fn)
        # the module constant `elapsed` is measured from: the module-level name bound to aware_now() that the
        # (now canonical) `elapsed = current_datetime - <it>` subtracts
        for node in ast.walk(fn):
            if isinstance(node, ast.Assign) and len(node.targets) == 1 and isinstance(node.targets[0], ast.Name) \
                    and node.targets[0].id == "elapsed" and isinstance(node.value, ast.BinOp) and isinstance(node.value.op, ast.Sub) \
                    and isinstance(node.value.left, ast.Name) and node.value.left.id == "current_datetime" \
                    and isinstance(node.value.right, ast.Name) and node.value.right.id != "start_time":
                y = node.value.right.id
                bound = [st for st in tree.body if isinstance(st, ast.Assign) and len(st.targets) == 1
                         and isinstance(st.targets[0], ast.Name) and st.targets[0].id == y]
                clash = any(isinstance(n, ast.Name) and n.id == "start_time" for n in ast.walk(tree))
                if len(bound) == 1 and not clash and y not in {a.arg for a in ast.walk(fn) if isinstance(a, ast.arg)} \
                        and not any(isinstance(n, ast.Name) and n.id == y and isinstance(n.ctx, ast.Store) for n in ast.walk(fn)):
                    _Rename({y: "start_time"}).visit(tree)

    # ---- catch(): alias of self, Catcher, __exit__ locals, wrapper names
    for fn in [f for f in cls.body if isinstance(f, ast.FunctionDef) and f.name == "catch"]:
        m, kw, attrs, defs = {}, {}, {}, {}
        for st in fn.body:
            if isinstance(st, ast.Assign) and len(st.targets) == 1 and isinstance(st.targets[0], ast.Name) \
                    and isinstance(st.value, ast.Name) and st.value.id == fn.args.args[0].arg:
                m[st.targets[0].id] = "logger"
        if fn.args.args[0].arg != "self":
            m[fn.args.args[0].arg] = "self"
        last = fn.body[-1]
        catcher_cls = None
        if isinstance(last, ast.Return) and isinstance(last.value, ast.Call) and isinstance(last.value.func, ast.Name):
            for st in fn.body:
                if isinstance(st, ast.ClassDef) and st.name == last.value.func.id:
                    catcher_cls = st
                    defs[st.name] = "Catcher"
                    m[st.name] = "Catcher"
        if catcher_cls is not None:
            meths = {f.name: f for f in catcher_cls.body if isinstance(f, (ast.FunctionDef, ast.AsyncFunctionDef))}
            ini = meths.get("__init__")
            if ini is not None and len(ini.args.args) == 2 and len(ini.body) == 1 and isinstance(ini.body[0], ast.Assign) \
                    and isinstance(ini.body[0].targets[0], ast.Attribute) and isinstance(ini.body[0].value, ast.Name) \
                    and ini.body[0].value.id == ini.args.args[1].arg:
                attrs[ini.body[0].targets[0].attr] = "_from_decorator"
                m_init = _safe_map({ini.args.args[0].arg: "self", ini.args.args[1].arg: "from_decorator"}, ini)
                _Rename(m_init).visit(ini)
            ex = meths.get("__exit__")
            if ex is not None:
                me = {}
                pos = [a.arg for a in ex.args.args]
                if len(pos) == 4:
                    me.update(dict(zip(pos, ["self", "type_", "value", "traceback_"])))
                if len(ex.args.kwonlyargs) == 1:
                    me[ex.args.kwonlyargs[0].arg] = "_frames"
                    kw[ex.args.kwonlyargs[0].arg] = "_frames"
                flag_attr = [k for k, v in attrs.items() if v == "_from_decorator"] or ["_from_decorator"]
                for node in ast.walk(ex):
                    if isinstance(node, ast.Assign) and len(node.targets) == 1 and isinstance(node.targets[0], ast.Name):
                        v = node.value
                        if isinstance(v, ast.Attribute) and isinstance(v.value, ast.Name) and v.value.id == pos[0] \
                                and v.attr in flag_attr:
                            me[node.targets[0].id] = "from_decorator"
                logcalls = [n for n in ast.walk(ex) if isinstance(n, ast.Call) and isinstance(n.func, ast.Attribute)
                            and n.func.attr == "_log"]
                if len(logcalls) == 1 and len(logcalls[0].args) == 6 and isinstance(logcalls[0].args[2], ast.Name):
                    opts_local = logcalls[0].args[2].id
                    me[opts_local] = "catch_options"
                    built = [n for n in ast.walk(ex) if isinstance(n, ast.Assign) and len(n.targets) == 1
                             and isinstance(n.targets[0], ast.Name) and n.targets[0].id == opts_local
                             and isinstance(n.value, (ast.List, ast.Tuple))]
                    unpacks = [n for n in ast.walk(ex) if isinstance(n, ast.Assign) and isinstance(n.targets[0], ast.Tuple)
                               and isinstance(n.value, ast.Attribute) and n.value.attr == "_options"]
                    if len(built) == 1 and len(unpacks) == 1:
                        in_built = [e.id for e in built[0].value.elts if isinstance(e, ast.Name)]
                        cand = [e.id for e in unpacks[0].targets[0].elts if isinstance(e, ast.Name) and e.id in in_built]
                        if len(cand) == 1:
                            me[cand[0]] = "depth"
                        stars = [e.value.id for e in unpacks[0].targets[0].elts if isinstance(e, ast.Starred)
                                 and isinstance(e.value, ast.Name)]
                        if len(stars) == 1:
                            me[stars[0]] = "options"
                me = _safe_map(me, ex)
                if me:
                    _Rename(me).visit(ex)
            ax = meths.get("__aexit__")
            if ax is not None and len(ax.args.args) == 4:
                ma = _safe_map(dict(zip([a.arg for a in ax.args.args], ["self", "type_", "value", "traceback_"])), ax)
                if ma:
                    _Rename(ma).visit(ax)
            callm = meths.get("__call__")
            if callm is not None:
                mc = {}
                if len(callm.args.args) == 2:
                    mc.update(dict(zip([a.arg for a in callm.args.args], ["self", "function"])))
                for st in callm.body:
                    if isinstance(st, ast.Assign) and len(st.targets) == 1 and isinstance(st.targets[0], ast.Name) \
                            and isinstance(st.value, ast.Call) and isinstance(st.value.func, ast.Name) \
                            and st.value.func.id in (catcher_cls.name, "Catcher"):
                        mc[st.targets[0].id] = "catcher"
                lastc = callm.body[-1] if callm.body else None
                dc = {}
                if isinstance(lastc, ast.Return) and isinstance(lastc.value, ast.Name):
                    dc[lastc.value.id] = "catch_wrapper"
                    mc[lastc.value.id] = "catch_wrapper"
                mc = _safe_map(mc, callm)
                if mc:
                    _Rename(mc, defs=dc).visit(callm)
        m = _safe_map(m, fn)
        _Rename(m, kwargs=kw, self_attrs=attrs, defs=defs).visit(fn)
    return resolved


def _cond_result(fn):
    """(test, value-if-true, value-if-false) source texts of a function that only selects one of two values:
    `if c: x = a else: x = b; return x`, `if c: return a [else:] return b`, `return a if c else b`."""
    b = _body(fn)
    if len(b) == 1 and isinstance(b[0], ast.Return) and isinstance(b[0].value, ast.IfExp):
        e = b[0].value
        return _src(e.test), _src(e.body), _src(e.orelse)
    if b and isinstance(b[0], ast.If):
        i = b[0]

        def single(stmts):
            if len(stmts) == 1 and isinstance(stmts[0], ast.Return) and stmts[0].value is not None:
                return ("ret", _src(stmts[0].value))
            if len(stmts) == 1 and isinstance(stmts[0], ast.Assign) and len(stmts[0].targets) == 1 \
                    and isinstance(stmts[0].targets[0], ast.Name):
                return ("set", stmts[0].targets[0].id, _src(stmts[0].value))
            return None
        a = single(i.body)
        if a and a[0] == "ret" and not i.orelse and len(b) == 2:
            r = single(b[1:])
            if r and r[0] == "ret":
                return _src(i.test), a[1], r[1]
        if a and a[0] == "ret" and len(b) == 1:
            r = single(i.orelse)
            if r and r[0] == "ret":
                return _src(i.test), a[1], r[1]
        if a and a[0] == "set" and len(b) == 2 and isinstance(b[1], ast.Return) and _src(b[1].value) == a[1]:
            r = single(i.orelse)
            if r and r[0] == "set" and r[1] == a[1]:
                return _src(i.test), a[2], r[2]
    raise Unsupported("%s does not select between two values:\n%s" % (fn.name, ast.unparse(fn)))


# ----------------------------------------------------------------------------- derivations (bind / patch / opt / root logger)
def _const_int(node):
    if isinstance(node, ast.Constant) and type(node.value) is int:
        return node.value
    if isinstance(node, ast.UnaryOp) and isinstance(node.op, ast.USub) and isinstance(node.operand, ast.Constant) \
            and type(node.operand.value) is int:
        return -node.operand.value
    return None


def _ctor_args(call, init_params, what):
    """the argument expression of every `Logger.__init__` parameter (after self) of a `Logger(...)` call, positional,
    starred and keyword arguments alike; a starred argument is returned as ("star", node)"""
    params = init_params      # [core, exception, depth, ...]
    out = []
    for a in call.args:
        out.append(("star", a.value) if isinstance(a, ast.Starred) else ("one", a))
    kws = {}
    for k in call.keywords:
        if k.arg is None or k.arg not in params or k.arg in kws:
            raise Unsupported("%s: keyword of Logger(...)" % what)
        kws[k.arg] = k.value
    return out, kws


def _derivation_args(fn, n, init_params, what, ret=None, depth_param=False):
    """`Src` of every constructor argument (after core) of the `Logger(...)` call a deriving method returns, obtained by
    symbolic execution of the method's own top-level statements: unpackings / slices / subscripts of `<self>._options`
    bind locals to old slots; anything else is a new value.  Local names are irrelevant (renaming-insensitive)."""
    if fn.decorator_list or not fn.args.args:
        raise Unsupported("%s: decorated or without self" % what)
    self_name = fn.args.args[0].arg
    opt_src = self_name + "._options"
    env = {}            # local -> ("slot", i) | ("slots", [i...])
    top = _body(fn)

    def slots_of(node):
        """old slots denoted by an expression over <self>._options, or None"""
        if _src(node) == opt_src:
            return ("slots", list(range(n)))
        if isinstance(node, ast.Subscript) and _src(node.value) == opt_src:
            sl = node.slice
            if isinstance(sl, ast.Slice):
                if sl.step is not None:
                    return None
                lo = 0 if sl.lower is None else _const_int(sl.lower)
                hi = n if sl.upper is None else _const_int(sl.upper)
                if lo is None or hi is None:
                    return None
                return ("slots", list(range(n))[lo:hi])
            k = _const_int(sl)
            if k is not None and -n <= k < n:
                return ("slot", k % n)
        return None

    if ret is None:
        rets = [s_ for s_ in top if isinstance(s_, ast.Return)]
        if len(rets) != 1 or rets[0] is not top[-1] or sum(1 for x in ast.walk(fn) if isinstance(x, ast.Return)) != 1:
            raise Unsupported("%s: exactly one final return expected" % what)
        ret = rets[0]
    for st in top:
        if st is ret:
            break
        stored = {x.id for x in ast.walk(st) if isinstance(x, ast.Name) and isinstance(x.ctx, (ast.Store, ast.Del))}
        if isinstance(st, ast.Assign) and len(st.targets) == 1:
            val = slots_of(st.value)
            t = st.targets[0]
            if val is not None and isinstance(t, ast.Name):
                env[t.id] = val
                continue
            if val is not None and val[0] == "slots" and isinstance(t, (ast.Tuple, ast.List)):
                src = val[1]
                elts = t.elts
                stars = [i for i, e in enumerate(elts) if isinstance(e, ast.Starred)]
                if len(stars) > 1 or (not stars and len(elts) != len(src)) or (stars and len(elts) - 1 > len(src)):
                    raise Unsupported("%s: unpacking arity %s" % (what, _src(st)))
                k = stars[0] if stars else len(elts)
                tail = len(elts) - k - 1 if stars else 0
                for i, e in enumerate(elts[:k]):
                    if not isinstance(e, ast.Name):
                        raise Unsupported("%s: unpacking target %s" % (what, _src(e)))
                    env[e.id] = ("slot", src[i])
                if stars:
                    e = elts[k].value
                    if not isinstance(e, ast.Name):
                        raise Unsupported("%s: starred target" % what)
                    env[e.id] = ("slots", src[k:len(src) - tail])
                    for j, e in enumerate(elts[k + 1:]):
                        if not isinstance(e, ast.Name):
                            raise Unsupported("%s: unpacking target %s" % (what, _src(e)))
                        env[e.id] = ("slot", src[len(src) - tail + j])
                continue
        # any other statement: it must not rebind a name bound to old slots (nor `depth`), and must not return
        mentioned = {x.id for x in ast.walk(st) if isinstance(x, ast.Name)}
        if stored & (set(env) | ({"depth"} if depth_param else set())) or mentioned & set(env):
            raise Unsupported("%s: %s touches a tracked local" % (what, _src(st).splitlines()[0]))
        if any(isinstance(x, ast.Attribute) and x.attr == "_options" and isinstance(x.ctx, (ast.Store, ast.Del))
               for x in ast.walk(st)):
            raise Unsupported("%s: assigns _options" % what)
        if any(isinstance(x, ast.Return) for x in ast.walk(st)) and not depth_param:
            raise Unsupported("%s: early return" % what)
    call = ret.value
    if not (isinstance(call, ast.Call) and _src(call.func) == "Logger"):
        raise Unsupported("%s: does not return Logger(...)" % what)
    pos, kws = _ctor_args(call, init_params, what)
    flat = []
    for kind, node in pos:
        if kind == "star":
            v = env.get(node.id) if isinstance(node, ast.Name) else slots_of(node)
            if v is None or v[0] != "slots":
                raise Unsupported("%s: starred argument %s" % (what, _src(node)))
            flat.extend(("old", i) for i in v[1])
        else:
            flat.append(node)
    params = init_params      # [core, exception, depth, ...]
    if len(flat) > len(params):
        raise Unsupported("%s: too many constructor arguments" % what)
    by_param = dict(zip(params, flat))
    for k, v in kws.items():
        if k in by_param:
            raise Unsupported("%s: parameter %s given twice" % (what, k))
        by_param[k] = v
    if sorted(by_param) != sorted(params):
        raise Unsupported("%s: constructor arguments %r" % (what, sorted(by_param)))
    core = by_param[params[0]]
    if isinstance(core, tuple) or _src(core) != self_name + "._core":
        raise Unsupported("%s: the derived logger does not share <self>._core" % what)
    out = []
    for prm in params[1:]:
        v = by_param[prm]
        if isinstance(v, tuple):
            out.append("(.old %d)" % v[1])
        elif isinstance(v, ast.Name) and v.id in env and env[v.id][0] == "slot":
            out.append("(.old %d)" % env[v.id][1])
        elif slots_of(v) is not None and slots_of(v)[0] == "slot":
            out.append("(.old %d)" % slots_of(v)[1])
        elif depth_param and isinstance(v, ast.Name) and v.id == "depth":
            out.append(".depthParam")
        else:
            out.append(".fresh")
    return out


def _root_logger(init_params):
    """`logger = Logger(core=..., depth=<int>, ...)` in loguru/__init__.py: Src of every constructor argument after core
    (the depth argument as `.depthParam`) and the depth constant"""
    itree, _ = parse_module("__init__.py")
    names = {}
    for node in itree.body:
        if isinstance(node, ast.ImportFrom) and node.level == 1 and node.module == "_logger":
            for a in node.names:
                if a.name == "Logger":
                    names[a.asname or a.name] = True
    cands = [n_ for n_ in itree.body if isinstance(n_, ast.Assign) and len(n_.targets) == 1
             and _src(n_.targets[0]) == "logger"]
    if len(cands) != 1 or not isinstance(cands[0].value, ast.Call) or _src(cands[0].value.func) not in names:
        raise Unsupported("__init__.py: `logger = Logger(...)` not found")
    call = cands[0].value
    for node in ast.walk(itree):
        if isinstance(node, ast.Attribute) and node.attr == "_options" and isinstance(node.ctx, ast.Store):
            raise Unsupported("__init__.py assigns _options")
    pos, kws = _ctor_args(call, init_params, "__init__.py")
    if any(k == "star" for k, _ in pos):
        raise Unsupported("__init__.py: starred argument")
    params = init_params      # [core, exception, depth, ...]
    by_param = dict(zip(params, [x for _, x in pos]))
    for k, v in kws.items():
        if k in by_param:
            raise Unsupported("__init__.py: parameter %s given twice" % k)
        by_param[k] = v
    if sorted(by_param) != sorted(params):
        raise Unsupported("__init__.py: constructor arguments %r" % sorted(by_param))
    if "depth" not in by_param or _const_int(by_param["depth"]) is None:
        raise Unsupported("__init__.py: depth of the root logger is not an int constant")
    return [".depthParam" if prm == "depth" else ".fresh" for prm in params[1:]], _const_int(by_param["depth"])



# ----------------------------------------------------------------------------- aware_now(): when the UTC offset is looked up
def _tz_lookup():
    """`Lookup` of the tzinfo `_datetime.aware_now()` attaches: `.perCall` when the function takes ONE reading of the clock
    (`datetime_.now()`), derives the tzinfo from THAT reading's timestamp through the undecorated, cache-free `_get_tzinfo`
    and combines date, time and tzinfo of the same reading; `.atImport` when the tzinfo is a module-level object; `.other`
    for anything else.  Locals may be named and inlined freely (data flow, not spelling)."""
    dtree, _ = parse_module("_datetime.py")
    imports = _imports(dtree)
    dt_names = [k for k, v in imports.items() if v == ("datetime", "datetime")]
    an = find_func(dtree, "aware_now")
    if an.decorator_list or an.args.args or isinstance(an, ast.AsyncFunctionDef):
        raise Unsupported("aware_now signature/decorators")
    b = _body(an)
    if not b or not isinstance(b[-1], ast.Return) or b[-1].value is None:
        raise Unsupported("aware_now does not end in a return")
    defs = {}
    for st in b[:-1]:
        if isinstance(st, ast.Assign) and len(st.targets) == 1 and isinstance(st.targets[0], ast.Name) \
                and st.targets[0].id not in defs:
            defs[st.targets[0].id] = st.value
        else:
            raise Unsupported("aware_now statement " + _src(st))
    now_calls = [n for n in ast.walk(an) if isinstance(n, ast.Call) and isinstance(n.func, ast.Attribute) and n.func.attr == "now"
                 and isinstance(n.func.value, ast.Name) and n.func.value.id in dt_names and not n.args and not n.keywords]
    clock = [n for n in ast.walk(an) if isinstance(n, ast.Call) and isinstance(n.func, ast.Attribute)
             and (n.func.attr in ("now", "utcnow", "today", "fromtimestamp")
                  or (n.func.attr in ("time", "time_ns", "monotonic") and _src(n.func.value) == "time"))]
    if len(now_calls) != 1 or len(clock) != 1:
        raise Unsupported("aware_now does not take exactly one reading of the clock")
    now_local = [k for k, v in defs.items() if v is now_calls[0]]
    if len(now_local) != 1:
        raise Unsupported("aware_now: the clock reading is not kept in a local")
    NOW = now_local[0]

    class Inline(ast.NodeTransformer):
        def visit_Name(self, node):
            if isinstance(node.ctx, ast.Load) and node.id in defs and node.id != NOW:
                return self.visit(ast.parse(_src(defs[node.id]), mode="eval").body)
            return node
    ret = _src(Inline().visit(ast.parse(_src(b[-1].value), mode="eval").body)).replace(NOW, "NOW")
    cls_names = [n.name for n in dtree.body if isinstance(n, ast.ClassDef)] + dt_names
    for c in cls_names:
        pre = "%s.combine(NOW.date(), NOW.time().replace(tzinfo=" % c
        if ret.startswith(pre) and ret.endswith("))"):
            tz = ret[len(pre):-2]
            break
    else:
        raise Unsupported("aware_now returns " + ret)
    fns = {}
    for nm in ("_get_tzinfo", "_fallback_tzinfo"):
        f = find_func(dtree, nm)
        cached = bool(f.decorator_list) or any(isinstance(x, (ast.Global, ast.Nonlocal)) for x in ast.walk(f)) \
            or any(isinstance(x, (ast.Subscript, ast.Attribute)) and isinstance(x.ctx, ast.Store) for x in ast.walk(f)) \
            or any(d is not None for d in f.args.defaults + f.args.kw_defaults)
        fns[nm] = cached
    modlevel = {t.id for n in dtree.body if isinstance(n, ast.Assign) for t in n.targets if isinstance(t, ast.Name)}
    if tz == "_get_tzinfo(NOW.timestamp())":
        return "other" if (fns["_get_tzinfo"] or fns["_fallback_tzinfo"]) else "perCall"
    if tz in modlevel:
        return "atImport"
    return "other"



def generate():
    errors = []
    body = "import LoguruModel.Frames.Base\nset_option linter.unusedVariables false\nnamespace Frames.Gen\nopen Frames\n\n"
    try:
        tree, _ = parse_module("_logger.py")
        resolved = canonicalise(tree)
        for nm in CANON_CALLS.values():
            if nm not in resolved:
                raise Unsupported("%s does not resolve to the expected import" % nm)
        # none of those names is rebound at module level
        for node in tree.body:
            if isinstance(node, (ast.Assign, ast.AugAssign, ast.AnnAssign, ast.FunctionDef, ast.ClassDef)):
                for sub in ast.walk(node) if isinstance(node, (ast.Assign, ast.AugAssign, ast.AnnAssign)) else [node]:
                    nm = getattr(sub, "id", None) if isinstance(sub, ast.Name) and isinstance(sub.ctx, ast.Store) \
                        else getattr(sub, "name", None)
                    if nm in ("get_frame", "basename", "splitext", "current_thread", "current_process", "aware_now"):
                        raise Unsupported("%s is rebound at module level" % nm)
        st = [n for n in tree.body if isinstance(n, ast.Assign) and _src(n.targets[0]) == "start_time"]
        if len(st) != 1 or _src(st[0].value) != "aware_now()":
            raise Unsupported("start_time is not `aware_now()` at module level")

        cls = find_class(tree, "Logger")

        # ------------------------------------------------------------------ Logger.__init__
        init = [f for f in cls.body if isinstance(f, ast.FunctionDef) and f.name == "__init__"][0]
        init_tuple = None
        for s in init.body:
            if isinstance(s, ast.Assign) and _src(s.targets[0]) == "self._options" and isinstance(s.value, ast.Tuple):
                init_tuple = [_src(e) for e in s.value.elts]
        if init_tuple is None:
            raise Unsupported("Logger.__init__ does not build self._options as a tuple")
        body += "/-- `self._options = (...)` in `Logger.__init__` -/\n"
        body += "def initOptionNames : List Py.Str := [%s]\n" % ", ".join(lean_chars(x) for x in init_tuple)
        # the slot of the tuple that receives opt()'s public `depth` keyword: opt -> Logger(core, ..., depth, ...) by
        # position -> the __init__ parameter at that position -> its place in the tuple
        init_params = [a.arg for a in init.args.args]
        optm = [f for f in cls.body if isinstance(f, ast.FunctionDef) and f.name == "opt"]
        if len(optm) != 1 or "depth" not in [a.arg for a in optm[0].args.kwonlyargs]:
            raise Unsupported("opt() has no keyword-only depth parameter")
        if sum(1 for n in ast.walk(optm[0]) if isinstance(n, ast.Name) and n.id == "depth" and isinstance(n.ctx, ast.Store)):
            raise Unsupported("opt() reassigns depth")
        rets = [n for n in ast.walk(optm[0]) if isinstance(n, ast.Return) and isinstance(n.value, ast.Call)
                and _src(n.value.func) == "Logger"]
        if len(rets) != 1 or rets[0].value.keywords:
            raise Unsupported("opt() does not end in one positional Logger(...) call")
        pos = [i for i, a_ in enumerate(rets[0].value.args) if isinstance(a_, ast.Name) and a_.id == "depth"]
        if len(pos) != 1 or any(isinstance(a_, ast.Starred) for a_ in rets[0].value.args[:pos[0]]) or pos[0] + 1 >= len(init_params):
            raise Unsupported("opt(): position of depth in Logger(...)")
        recv = init_params[pos[0] + 1]
        if init_tuple.count(recv) != 1:
            raise Unsupported("__init__ parameter %s is not one slot of _options" % recv)
        body += "/-- slot of `_options` that receives `opt(depth=...)` -/\n"
        body += "def initDepthIndex : Nat := %d\n" % init_tuple.index(recv)
        # every way opt() returns: the final `Logger(core, ..., depth, ...)` or a delegation `self.opt(k=v, ...)`
        # (e.g. from the branch of a deprecated spelling); what each hands on as depth
        optf = optm[0]
        kwd = dict(zip([a.arg for a in optf.args.kwonlyargs], optf.args.kw_defaults))
        dd = kwd.get("depth")
        if not (isinstance(dd, ast.Constant) and type(dd.value) is int):
            raise Unsupported("default of opt(depth=)")
        self_name = optf.args.args[0].arg
        paths = []

        def walk_returns(stmts, cond):
            for st in stmts:
                if isinstance(st, (ast.FunctionDef, ast.AsyncFunctionDef, ast.ClassDef)):
                    raise Unsupported("opt(): nested definition")
                if isinstance(st, ast.Return):
                    v = st.value
                    if isinstance(v, ast.Call) and _src(v.func) == "Logger":
                        a_ = v.args[pos[0]] if len(v.args) > pos[0] else None
                        if isinstance(a_, ast.Name) and a_.id == "depth":
                            fwd = ".param"
                        elif isinstance(a_, ast.Constant) and type(a_.value) is int:
                            fwd = "(.const (%d : Int))" % a_.value
                        else:
                            raise Unsupported("opt(): depth argument of Logger(...)")
                    elif isinstance(v, ast.Call) and _src(v.func) == self_name + ".opt" and not v.args \
                            and all(k.arg is not None for k in v.keywords):
                        kws = {k.arg: k.value for k in v.keywords}
                        if "depth" not in kws:
                            fwd = ".default"
                        elif isinstance(kws["depth"], ast.Name) and kws["depth"].id == "depth":
                            fwd = ".param"
                        elif isinstance(kws["depth"], ast.Constant) and type(kws["depth"].value) is int:
                            fwd = "(.const (%d : Int))" % kws["depth"].value
                        else:
                            raise Unsupported("opt(): depth keyword of the delegation")
                    else:
                        raise Unsupported("opt(): return " + (_src(v) if v is not None else "None"))
                    paths.append((cond or "otherwise", fwd))
                elif isinstance(st, ast.If):
                    walk_returns(st.body, (cond + " and " if cond else "") + _src(st.test))
                    walk_returns(st.orelse, (cond + " and " if cond else "") + "not (" + _src(st.test) + ")")
                elif isinstance(st, (ast.For, ast.While, ast.Try, ast.With, ast.Match)) and \
                        any(isinstance(n, ast.Return) for n in ast.walk(st)):
                    raise Unsupported("opt(): return inside " + type(st).__name__)

        walk_returns(_body(optf), "")
        if not paths:
            raise Unsupported("opt() never returns a logger")
        body += "/-- default of `opt(depth=...)` -/\n"
        body += "def optDepthDefault : Int := (%d : Int)\n" % dd.value
        body += "/-- every return path of `opt()` (condition, what it hands on as depth) -/\n"
        body += "def optPaths : List (Py.Str × DepthFwd) := [\n" + ",\n".join(
            "  (%s, %s)" % (lean_chars(c), f) for c, f in paths) + "]\n\n"

        # ------------------------------------------------------------------ derivations: Logger.__init__, bind, patch, opt, root
        n_opts = len(init_tuple)
        if len(init_params) != n_opts + 2 or init_params[1] != "core" or len(set(init_params)) != len(init_params):
            raise Unsupported("Logger.__init__ parameters %r" % (init_params,))
        if not any(_src(s_) == "self._core = core" for s_ in init.body):
            raise Unsupported("Logger.__init__: self._core = core")
        if sum(1 for x in ast.walk(init) if isinstance(x, ast.Attribute) and x.attr == "_options"
               and isinstance(x.ctx, ast.Store)) != 1:
            raise Unsupported("Logger.__init__ assigns _options more than once")
        if any(isinstance(x, ast.Name) and isinstance(x.ctx, ast.Store) for x in ast.walk(init)):
            raise Unsupported("Logger.__init__ rebinds a local")
        ctor_slots = []
        for e in init_tuple:
            if e not in init_params[2:]:
                raise Unsupported("_options slot %s is not a constructor parameter" % e)
            ctor_slots.append(init_params[2:].index(e))
        # no method of Logger other than __init__ stores _options (options are per-logger constants)
        for f in cls.body:
            if isinstance(f, (ast.FunctionDef, ast.AsyncFunctionDef)) and f.name != "__init__":
                for x in ast.walk(f):
                    if isinstance(x, ast.Attribute) and x.attr == "_options" and isinstance(x.ctx, (ast.Store, ast.Del)):
                        raise Unsupported("%s assigns _options" % f.name)
        body += "/-- `Logger.__init__`: the constructor parameter (position after `core`) stored in each `_options` slot -/\n"
        body += "def ctorSlots : List Nat := [%s]\n" % ", ".join(str(i) for i in ctor_slots)

        def one(name):
            fs = [f for f in cls.body if isinstance(f, ast.FunctionDef) and f.name == name]
            if len(fs) != 1:
                raise Unsupported("method %s missing or duplicated" % name)
            return fs[0]
        bind_args = _derivation_args(one("bind"), n_opts, init_params[1:], "bind")
        patch_args = _derivation_args(one("patch"), n_opts, init_params[1:], "patch")
        opt_args = _derivation_args(optf, n_opts, init_params[1:], "opt", ret=rets[0], depth_param=True)
        root_args, root_depth = _root_logger(init_params[1:])
        for nm, doc_, lst in (("bindArgs", "bind", bind_args), ("patchArgs", "patch", patch_args),
                              ("optArgs", "opt (its final return)", opt_args),
                              ("rootArgs", "loguru/__init__.py (the root logger)", root_args)):
            body += "/-- constructor arguments (after core) of the `Logger(...)` call of %s -/\n" % doc_
            body += "def %s : List Src := [%s]\n" % (nm, ", ".join(lst))
        body += "/-- `depth=` of the root logger in loguru/__init__.py -/\n"
        body += "def rootDepth : Int := (%d : Int)\n\n" % root_depth

        # ------------------------------------------------------------------ _log
        logfn = [f for f in cls.body if isinstance(f, ast.FunctionDef) and f.name == "_log"]
        if len(logfn) != 1 or logfn[0].decorator_list:
            raise Unsupported("_log missing, duplicated or decorated")
        logfn = logfn[0]
        if [a.arg for a in logfn.args.args] != ["self", "level", "from_decorator", "options", "message", "args", "kwargs"]:
            raise Unsupported("_log signature " + _src(logfn.args))
        stores = _stores(logfn)
        top = _body(logfn)
        unpack = [s for s in top if isinstance(s, ast.Assign) and _src(s.value) == "options"
                  and isinstance(s.targets[0], ast.Tuple)]
        if len(unpack) != 1 or not all(isinstance(e, ast.Name) for e in unpack[0].targets[0].elts):
            raise Unsupported("options unpacking in _log")
        names = [e.id for e in unpack[0].targets[0].elts]
        if names.count("depth") != 1:
            raise Unsupported("depth not unpacked exactly once")
        body += "/-- `(exception, depth, ...) = options` in `_log` -/\n"
        body += "def optionNames : List Py.Str := [%s]\n" % ", ".join(lean_chars(x) for x in names)
        body += "def depthIndex : Nat := %d\n\n" % names.index("depth")

        tries = [s for s in top if isinstance(s, ast.Try)]
        ftry = [t for t in tries if len(t.body) == 1 and isinstance(t.body[0], ast.Assign)
                and _src(t.body[0].targets[0]) == "frame"]
        if len(ftry) != 1:
            raise Unsupported("`try: frame = get_frame(...)` is not a top-level statement of _log")
        ftry = ftry[0]
        if top.index(ftry) < top.index(unpack[0]):
            raise Unsupported("get_frame before options are unpacked")
        call = ftry.body[0].value
        if not (isinstance(call, ast.Call) and _src(call.func) == "get_frame" and len(call.args) == 1 and not call.keywords):
            raise Unsupported("frame = " + _src(call))
        term, typ = Tr({"depth": ("depth", "int")}).tr(call.args[0])
        if typ != "int":
            raise Unsupported("get_frame argument type")
        body += "/-- `frame = get_frame(%s)` -/\n" % _src(call.args[0])
        body += "def frameIndex (depth : Int) : Int := %s\n\n" % term
        if ftry.finalbody:
            raise Unsupported("finally on the get_frame try")
        # except ValueError -> placeholders
        ph = {}
        handled = "false"
        overflow = "false"
        htypes = None
        if len(ftry.handlers) == 1 and ftry.handlers[0].type is not None and ftry.handlers[0].name is None:
            ht = ftry.handlers[0].type
            htypes = sorted(_src(e) for e in ht.elts) if isinstance(ht, ast.Tuple) else [_src(ht)]
        if htypes in (["ValueError"], ["OverflowError", "ValueError"]):
            # sys._getframe converts its argument to a C int first: OverflowError (not ValueError) beyond its range
            overflow = "true" if "OverflowError" in htypes else "false"
            h = ftry.handlers[0]
            ok = True
            for s in h.body:
                if isinstance(s, ast.Assign) and len(s.targets) == 1 and isinstance(s.targets[0], ast.Name):
                    ph[s.targets[0].id] = s.value
                elif isinstance(s, ast.Raise):
                    ok = False      # re-raise: not a placeholder fallback
                else:
                    raise Unsupported("except ValueError body: " + _src(s))
            if ok and sorted(ph) == ["co_filename", "co_name", "f_globals", "f_lineno"]:
                handled = "true"
            elif ok or ph:
                raise Unsupported("except ValueError assigns %r" % sorted(ph))
        elif ftry.handlers:
            raise Unsupported("handlers of the get_frame try: " + ", ".join(_src(h.type) if h.type else "bare" for h in ftry.handlers))
        body += "/-- `except ValueError:` assigns the four placeholders (and nothing else) -/\n"
        body += "def beyondStackHandled : Bool := %s\n" % handled
        body += "/-- the same handler also covers the OverflowError of `sys._getframe` for an index outside the C `int` range -/\n"
        body += "def overflowHandled : Bool := %s\n" % (overflow if handled == "true" else "false")
        if handled == "true":
            g = ph["f_globals"]
            if not (isinstance(g, ast.Dict) and not g.keys):
                raise Unsupported("placeholder f_globals = " + _src(g))
            for k, ty in (("f_lineno", int), ("co_name", str), ("co_filename", str)):
                v = ph[k]
                if not (isinstance(v, ast.Constant) and type(v.value) is ty):
                    raise Unsupported("placeholder %s = %s" % (k, _src(v)))
            body += "def placeholderLine : Int := (%d : Int)\n" % ph["f_lineno"].value
            body += "def placeholderFunction : Py.Str := %s\n" % lean_chars(ph["co_name"].value)
            body += "def placeholderFile : Py.Str := %s\n\n" % lean_chars(ph["co_filename"].value)
        else:
            body += "def placeholderLine : Int := 0\ndef placeholderFunction : Py.Str := []\ndef placeholderFile : Py.Str := []\n\n"
        # else: reads of the selected frame
        reads = {}
        for s in ftry.orelse:
            if isinstance(s, ast.Assign) and len(s.targets) == 1 and isinstance(s.targets[0], ast.Name):
                reads[s.targets[0].id] = _src(s.value)
            else:
                raise Unsupported("else-branch statement " + _src(s))
        want_reads = {"f_globals": "frame.f_globals", "f_lineno": "frame.f_lineno",
                      "co_name": "frame.f_code.co_name", "co_filename": "frame.f_code.co_filename"}
        if reads != want_reads:
            raise Unsupported("frame reads changed: %r" % (reads,))
        # name = f_globals["__name__"] / except KeyError: name = None
        name_srcs = ("f_globals['__name__']", 'f_globals["__name__"]')
        ntry = [t for t in tries if len(t.body) == 1 and isinstance(t.body[0], ast.Assign)
                and _src(t.body[0].targets[0]) == "name"]
        nplain = [x for x in top if isinstance(x, ast.Assign) and _src(x.targets[0]) == "name"]
        nm_handled = "false"
        if len(ntry) == 1 and not nplain:
            ntry = ntry[0]
            if _src(ntry.body[0].value) not in name_srcs:
                raise Unsupported("name = " + _src(ntry.body[0].value))
            if top.index(ntry) < top.index(ftry) or ntry.orelse or ntry.finalbody:
                raise Unsupported("name lookup shape/order")
            if len(ntry.handlers) == 1 and ntry.handlers[0].type is not None and _src(ntry.handlers[0].type) == "KeyError" \
                    and len(ntry.handlers[0].body) == 1 and _src(ntry.handlers[0].body[0]) == "name = None":
                nm_handled = "true"
            elif len(ntry.handlers) == 1 and ntry.handlers[0].type is not None and _src(ntry.handlers[0].type) == "KeyError" \
                    and len(ntry.handlers[0].body) == 1 and isinstance(ntry.handlers[0].body[0], ast.Raise):
                nm_handled = "false"
            else:
                raise Unsupported("handlers of the name lookup")
        elif not ntry and len(nplain) == 1 and _src(nplain[0].value) in name_srcs and top.index(nplain[0]) > top.index(ftry):
            nm_handled = "false"        # unguarded lookup: a missing __name__ raises KeyError
        else:
            raise Unsupported("`name = f_globals['__name__']` not found")
        body += "/-- `except KeyError: name = None` -/\n"
        body += "def missingNameIsNone : Bool := %s\n\n" % nm_handled
        # single assignment of everything the record is built from
        k2 = 2 if handled == "true" else 1
        want_counts = {"frame": 1, "f_globals": k2, "f_lineno": k2, "co_name": k2, "co_filename": k2, "depth": 1,
                       "file_name": 1, "elapsed": 1, "current_datetime": 1, "log_record": 1}
        for k, v in want_counts.items():
            if stores.get(k, 0) != v:
                raise Unsupported("local %s is assigned %d times (expected %d)" % (k, stores.get(k, 0), v))
        if stores.get("name", 0) != (2 if nm_handled == "true" else 1):
            raise Unsupported("local name is assigned %d times" % stores.get("name", 0))
        defs = {}
        for s in top:
            if isinstance(s, ast.Assign) and len(s.targets) == 1 and isinstance(s.targets[0], ast.Name):
                defs[s.targets[0].id] = s.value
        for k, want in (("file_name", "basename(co_filename)"), ("current_datetime", "aware_now()")):
            if k not in defs or _src(defs[k]) != want:
                raise Unsupported("%s = %s" % (k, _src(defs[k]) if k in defs else "?"))

        # WHEN are the calling thread / process looked up?  `thread = current_thread()` as a statement of _log's own
        # body is a lookup on every call; a module-level object, or a value kept in core.thread_locals, is stale
        # for every later call whose thread / process (or their names) differ.
        modlevel = {}
        for node in tree.body:
            if isinstance(node, ast.Assign) and len(node.targets) == 1 and isinstance(node.targets[0], ast.Name):
                modlevel[node.targets[0].id] = _src(node.value)

        def lookup_of(local, fresh):
            assigns = []
            for node in ast.walk(logfn):
                if isinstance(node, ast.Assign) and any(isinstance(t, ast.Name) and t.id == local for t in node.targets):
                    assigns.append(node)
                elif isinstance(node, (ast.AugAssign, ast.AnnAssign, ast.NamedExpr)) and \
                        isinstance(getattr(node, "target", None), ast.Name) and node.target.id == local:
                    return "other"
            if stores.get(local, 0) != len(assigns) or not assigns:
                return "other"
            if len(assigns) == 1 and assigns[0] in top and _src(assigns[0].value) == fresh and len(assigns[0].targets) == 1:
                return "perCall"
            if any("thread_locals" in _src(a.value) or any("thread_locals" in _src(t) for t in a.targets) for a in assigns):
                return "cachedPerThread"
            if len(assigns) == 1 and isinstance(assigns[0].value, ast.Name) and modlevel.get(assigns[0].value.id) == fresh:
                return "atImport"
            return "other"

        body += "/-- when `_log` looks the calling thread / process up -/\n"
        body += "def threadLookup : Lookup := .%s\n" % lookup_of("thread", "current_thread()")
        body += "def processLookup : Lookup := .%s\n\n" % lookup_of("process", "current_process()")
        body += "/-- when `aware_now()` (loguru/_datetime.py) looks the local UTC offset up -/\n"
        body += "def tzLookup : Lookup := .%s\n\n" % _tz_lookup()
        term, typ = Tr({"current_datetime": ("now", "int"), "start_time": ("start", "int")}).tr(defs["elapsed"])
        body += "/-- `elapsed = %s` -/\n" % _src(defs["elapsed"])
        body += "def elapsed (now start : Int) : Int := %s\n\n" % term
        # the record dict
        rec = defs.get("log_record")
        if not isinstance(rec, ast.Dict):
            raise Unsupported("log_record is not a dict display")
        fields = {}
        for k, v in zip(rec.keys, rec.values):
            if not (isinstance(k, ast.Constant) and isinstance(k.value, str)):
                raise Unsupported("log_record key")
            fields[k.value] = v
        for s in top[top.index([x for x in top if isinstance(x, ast.Assign) and _src(x.targets[0]) == "log_record"][0]) + 1:]:
            # later code may add keys to extra/message only
            for node in ast.walk(s):
                if isinstance(node, ast.Subscript) and isinstance(node.ctx, ast.Store) and _src(node.value) == "log_record":
                    if _src(node.slice) not in ("'message'", '"message"'):
                        raise Unsupported("log_record[%s] reassigned" % _src(node.slice))

        # _recattrs constructors: parameter order and attribute assignment
        rtree, _ = parse_module("_recattrs.py")

        def ctor(cname, want_attrs):
            c = find_class(rtree, cname)
            ini = [f for f in c.body if isinstance(f, ast.FunctionDef) and f.name == "__init__"][0]
            params = [a.arg for a in ini.args.args][1:]
            amap = {}
            for s in ini.body:
                if isinstance(s, ast.Assign) and isinstance(s.targets[0], ast.Attribute) and _src(s.targets[0].value) == "self" \
                        and isinstance(s.value, ast.Name):
                    amap[s.targets[0].attr] = s.value.id
                else:
                    raise Unsupported("%s.__init__ statement %s" % (cname, _src(s)))
            if sorted(amap) != sorted(want_attrs):
                raise Unsupported("%s attributes %r" % (cname, amap))
            return params, amap

        def arg_of(call, cname, attr, params_amap):
            params, amap = params_amap
            if not (isinstance(call, ast.Call) and _src(call.func) == cname and not call.keywords and len(call.args) == len(params)) \
                    or any(isinstance(x, ast.Starred) for x in call.args):
                return call          # not understood: becomes Local.other (the theorem breaks, not the extractor)
            return call.args[params.index(amap[attr])]

        cf, ct, cp = ctor("RecordFile", ["name", "path"]), ctor("RecordThread", ["id", "name"]), ctor("RecordProcess", ["id", "name"])

        def fmt_field(cname):
            """the attribute a handler format `{thread}` / `{process}` / `{file}` renders: `__format__` returns
            `self.<attr>.__format__(spec)` (or `format(self.<attr>, spec)`)"""
            c = find_class(rtree, cname)
            fm = [f for f in c.body if isinstance(f, ast.FunctionDef) and f.name == "__format__"]
            if len(fm) != 1 or fm[0].decorator_list or len(fm[0].args.args) != 2:
                raise Unsupported("%s.__format__" % cname)
            me, spec = [a.arg for a in fm[0].args.args]
            b_ = _body(fm[0])
            if len(b_) != 1 or not isinstance(b_[0], ast.Return):
                raise Unsupported("%s.__format__ body" % cname)
            v = b_[0].value
            for attr in ("id", "name", "path"):
                if _src(v) in ("%s.%s.__format__(%s)" % (me, attr, spec), "format(%s.%s, %s)" % (me, attr, spec)):
                    return attr
            return "?"
        body += "/-- the attribute `{file}`, `{thread}`, `{process}` render in a handler format (`__format__` of _recattrs.py) -/\n"
        body += "def recFormat : List (Py.Str × Py.Str) := [%s]\n\n" % ", ".join(
            "(%s, %s)" % (lean_chars(k), lean_chars(fmt_field(c_))) for k, c_ in
            (("file", "RecordFile"), ("thread", "RecordThread"), ("process", "RecordProcess")))
        srcs = [
            ("recName", fields["name"]), ("recFunction", fields["function"]), ("recLine", fields["line"]),
            ("recModule", fields["module"]),
            ("recFileName", arg_of(fields["file"], "RecordFile", "name", cf)),
            ("recFilePath", arg_of(fields["file"], "RecordFile", "path", cf)),
            ("recThreadId", arg_of(fields["thread"], "RecordThread", "id", ct)),
            ("recThreadName", arg_of(fields["thread"], "RecordThread", "name", ct)),
            ("recProcessId", arg_of(fields["process"], "RecordProcess", "id", cp)),
            ("recProcessName", arg_of(fields["process"], "RecordProcess", "name", cp)),
            ("recTime", fields["time"]), ("recElapsed", fields["elapsed"]),
        ]
        body += "/-- which local of `_log` feeds which record field (from the `log_record` dict display) -/\n"
        for nm, node in srcs:
            body += "def %s : Local := .%s   -- %s\n" % (nm, LOCAL_OF.get(_src(node), "other"), _src(node))
        body += "\n"

        # ------------------------------------------------------------------ public methods
        rows = []
        for m in PUBLIC:
            chain, oe = _method_row(cls, m)
            rows.append("  { name := %s, chain := [%s], opts := %s }" % (lean_chars(m), ", ".join(lean_chars(c) for c in chain), oe))
        body += "/-- every public logging method: functions between the user's call and `_log`, options expression -/\n"
        body += "def methods : List MethodRow := [\n" + ",\n".join(rows) + "]\n\n"

        # ------------------------------------------------------------------ catch
        catch = [f for f in cls.body if isinstance(f, ast.FunctionDef) and f.name == "catch"][0]
        cbody = _body(catch)
        if not any(isinstance(s, ast.Assign) and _src(s) == "logger = self" for s in cbody):
            raise Unsupported("catch: `logger = self` missing")
        catcher = [s for s in cbody if isinstance(s, ast.ClassDef) and s.name == "Catcher"]
        if len(catcher) != 1:
            raise Unsupported("class Catcher")
        catcher = catcher[0]
        if not (isinstance(cbody[-1], ast.Return) and _src(cbody[-1].value) in ("Catcher(False)", "Catcher(True)")):
            raise Unsupported("catch does not end in `return Catcher(<const>)`")
        cm_flag = _src(cbody[-1].value) == "Catcher(True)"
        cm = {f.name: f for f in catcher.body if isinstance(f, (ast.FunctionDef, ast.AsyncFunctionDef))}
        ini = cm["__init__"]
        if [a.arg for a in ini.args.args] != ["self", "from_decorator"] or ini.decorator_list:
            raise Unsupported("Catcher.__init__")
        init_attrs = {}
        for s_ in ini.body:
            if isinstance(s_, ast.Assign) and len(s_.targets) == 1 and isinstance(s_.targets[0], ast.Attribute) \
                    and _src(s_.targets[0].value) == "self" and s_.targets[0].attr not in init_attrs \
                    and (_src(s_.value) == "from_decorator" or _const_int(s_.value) is not None):
                init_attrs[s_.targets[0].attr] = s_.value
            else:
                raise Unsupported("Catcher.__init__ statement " + _src(s_))
        if "_from_decorator" not in init_attrs or _src(init_attrs["_from_decorator"]) != "from_decorator" \
                or sum(1 for v in init_attrs.values() if _src(v) == "from_decorator") != 1:
            raise Unsupported("Catcher.__init__: self._from_decorator = from_decorator")
        # state of the (shared) Catcher object / of the enclosing closure written after construction
        later = []
        for f_ in catcher.body:
            if f_ is ini:
                continue
            todo_ = [(f_, ("self", "catcher"))]
            while todo_:
                x, bases_ = todo_.pop()
                if isinstance(x, ast.ClassDef):
                    bases_ = ("catcher",)          # inside a nested class `self` is another object
                if isinstance(x, ast.Attribute) and isinstance(x.ctx, (ast.Store, ast.Del)) and isinstance(x.value, ast.Name) \
                        and x.value.id in bases_:
                    later.append(x.attr)
                elif isinstance(x, (ast.Nonlocal, ast.Global)):
                    later.extend(x.names)
                todo_.extend((c_, bases_) for c_ in ast.iter_child_nodes(x))
        later = sorted(set(later))
        ex = cm["__exit__"]
        if ex.decorator_list or isinstance(ex, ast.AsyncFunctionDef):
            raise Unsupported("Catcher.__exit__ decorated/async")
        etop = ex.body
        if not any(_src(s) == "from_decorator = self._from_decorator" for s in etop):
            raise Unsupported("__exit__: from_decorator = self._from_decorator")
        es = _stores(ex)
        if es.get("from_decorator") != 1 or es.get("catch_options") != 1:
            raise Unsupported("__exit__: from_decorator / catch_options reassigned")
        un = [s for s in etop if isinstance(s, ast.Assign) and _src(s.value) == "logger._options"]
        if len(un) != 1 or not isinstance(un[0].targets[0], ast.Tuple):
            raise Unsupported("__exit__: unpacking of logger._options")
        pre, star = [], None
        for e in un[0].targets[0].elts:
            if isinstance(e, ast.Starred):
                star = _src(e.value)
                if e is not un[0].targets[0].elts[-1]:
                    raise Unsupported("__exit__: star not last in unpacking")
            else:
                pre.append(_src(e))
        if pre.count("depth") != 1 or star is None:
            raise Unsupported("__exit__: unpacking shape " + _src(un[0]))
        body += "/-- `%s` -/\n" % _src(un[0])
        body += "def catchUnpackPrefix : List Py.Str := [%s]\n" % ", ".join(lean_chars(x) for x in pre)
        # __exit__(self, type_, value, traceback_[, *, _frames=<int>])
        if [a.arg for a in ex.args.args] != ["self", "type_", "value", "traceback_"] or ex.args.vararg or ex.args.kwarg \
                or ex.args.defaults:
            raise Unsupported("__exit__ signature " + _src(ex.args))
        kwonly = [a.arg for a in ex.args.kwonlyargs]
        env = {"depth": ("depth", "int")}
        frames_default = 0
        if kwonly == ["_frames"]:
            dflt = ex.args.kw_defaults[0]
            if not (isinstance(dflt, ast.Constant) and type(dflt.value) is int):
                raise Unsupported("__exit__: default of _frames")
            frames_default = dflt.value
            env["_frames"] = ("frames", "int")
            if es.get("_frames", 0) != 1:
                raise Unsupported("__exit__: _frames reassigned")
        elif kwonly:
            raise Unsupported("__exit__ keyword-only parameters %r" % kwonly)
        # an integer attribute of the object that the depth arithmetic reads instead of a parameter: per-OBJECT state
        frames_src, frames_attr = "param", None
        depth_stmts = [st_ for st_ in etop if any(isinstance(n_, ast.Name) and n_.id == "depth" and isinstance(n_.ctx, ast.Store)
                                                  for n_ in ast.walk(st_))]
        for st_ in depth_stmts:
            for x in ast.walk(st_):
                if isinstance(x, ast.Attribute) and isinstance(x.ctx, ast.Load) and _src(x.value) == "self" \
                        and x.attr != "_from_decorator":
                    if x.attr not in init_attrs or _const_int(init_attrs[x.attr]) is None or "_frames" in env \
                            or (frames_attr not in (None, x.attr)):
                        raise Unsupported("__exit__: depth arithmetic reads self.%s" % x.attr)
                    frames_src, frames_attr = "selfAttr", x.attr
        if frames_attr is not None:
            env["self." + frames_attr] = ("frames", "int")
            frames_default = _const_int(init_attrs[frames_attr])
        body += "/-- attributes `Catcher.__init__` sets; attributes / closure variables any other method assigns -/\n"
        body += "def catcherInitAttrs : List Py.Str := [%s]\n" % ", ".join(lean_chars(x) for x in init_attrs)
        body += "def catcherLaterWrites : List Py.Str := [%s]\n" % ", ".join(lean_chars(x) for x in later)
        body += "/-- where `__exit__` reads the extra-frame correction from: a parameter of the call or the (shared) object -/\n"
        body += "def exitFramesSrc : FramesSrc := .%s\n" % frames_src
        body += "/-- default of the keyword-only `_frames` parameter of `Catcher.__exit__` (0 when absent) -/\n"
        body += "def exitFramesDefault : Int := (%d : Int)\n" % frames_default
        # every statement of __exit__ that assigns depth after the unpacking, executed symbolically in order:
        #   `depth += e`, `depth -= e`, `depth = e`, `if [not] from_decorator: ... [else: ...]` over those;
        #   e ranges over depth, _frames, from_decorator (conditional expressions included)
        env["from_decorator"] = ("fromDecorator", "bool")
        counter = [0]

        def sym(term, stmts):
            for st in stmts:
                touches = any(isinstance(n, ast.Name) and n.id == "depth" and isinstance(n.ctx, ast.Store) for n in ast.walk(st))
                if not touches:
                    if isinstance(st, (ast.Pass, ast.Expr)) and not any(isinstance(n, ast.Call) for n in ast.walk(st)):
                        continue
                    raise Unsupported("__exit__: statement inside a depth adjustment " + _src(st))
                e2 = dict(env, depth=(term, "int"))
                if isinstance(st, ast.AugAssign) and isinstance(st.op, (ast.Add, ast.Sub)) and _src(st.target) == "depth":
                    inc, typ = Tr(e2).tr(st.value)
                    if typ != "int":
                        raise Unsupported("depth increment type")
                    term = "(%s %s %s)" % (term, "+" if isinstance(st.op, ast.Add) else "-", inc)
                    counter[0] += 1
                elif isinstance(st, ast.Assign) and len(st.targets) == 1 and _src(st.targets[0]) == "depth":
                    term, typ = Tr(e2).tr(st.value)
                    if typ != "int":
                        raise Unsupported("depth value type")
                    counter[0] += 1
                elif isinstance(st, ast.If):
                    c, typ = Tr(env).tr(st.test)
                    if typ != "bool":
                        raise Unsupported("depth adjustment condition " + _src(st.test))
                    term = "(if %s then %s else %s)" % (c, sym(term, st.body), sym(term, st.orelse))
                else:
                    raise Unsupported("__exit__: depth adjustment shape " + _src(st))
            return term

        term = "depth"
        doc = []
        first_adj = None
        for st in etop:
            touches = any(isinstance(n, ast.Name) and n.id == "depth" and isinstance(n.ctx, ast.Store) for n in ast.walk(st))
            if not touches or st is un[0]:
                continue
            if etop.index(st) < etop.index(un[0]):
                raise Unsupported("__exit__: depth adjusted before it is unpacked")
            if first_adj is None:
                first_adj = st
            term = sym(term, [st])
            doc.append(_src(st).replace("\n", " "))
        if es.get("depth", 0) != 1 + counter[0]:
            raise Unsupported("__exit__: depth is assigned %d times, %d understood" % (es.get("depth", 0), 1 + counter[0]))
        aug = [first_adj] if first_adj is not None else []
        body += "/-- `%s` in `Catcher.__exit__` -/\n" % ("; ".join(doc) or "no adjustment of depth")
        body += "def catchDepth (fromDecorator : Bool) (frames : Int) (depth : Int) : Int := %s\n" % term
        co = [s for s in etop if isinstance(s, ast.Assign) and _src(s.targets[0]) == "catch_options"]
        if len(co) != 1 or not isinstance(co[0].value, (ast.List, ast.Tuple)):
            raise Unsupported("__exit__: catch_options")
        for st in etop[etop.index(co[0]):]:
            if any(isinstance(n, ast.Name) and n.id == "depth" and isinstance(n.ctx, ast.Store) for n in ast.walk(st)):
                raise Unsupported("__exit__: depth adjusted after catch_options is built")
        rpre, rstar = [], None
        for e in co[0].value.elts:
            if isinstance(e, ast.Starred):
                rstar = _src(e.value)
                if e is not co[0].value.elts[-1]:
                    raise Unsupported("__exit__: star not last in catch_options")
            else:
                rpre.append(_src(e))
        if rstar != star:
            raise Unsupported("__exit__: catch_options does not re-splat " + str(star))
        body += "/-- `%s` -/\n" % _src(co[0])
        body += "def catchRepackPrefix : List Py.Str := [%s]\n\n" % ", ".join(lean_chars(x) for x in rpre)
        # the _log call: direct, from __exit__'s own frame, with from_decorator and catch_options
        lcalls = []
        todo = list(etop)
        while todo:
            s = todo.pop()
            if isinstance(s, (ast.FunctionDef, ast.AsyncFunctionDef, ast.ClassDef)):
                raise Unsupported("__exit__: nested definition")
            for node in ast.iter_child_nodes(s):
                if isinstance(node, ast.stmt):
                    todo.append(node)
                elif isinstance(node, ast.ExceptHandler):
                    todo.extend(node.body)
            if isinstance(s, ast.Expr) and isinstance(s.value, ast.Call) and _src(s.value.func).endswith("._log"):
                lcalls.append(s.value)
        for node in ast.walk(ex):
            if isinstance(node, ast.Lambda):
                raise Unsupported("__exit__: lambda")
        n_all = sum(1 for node in ast.walk(ex) if isinstance(node, ast.Call) and _src(node.func).endswith("_log"))
        if len(lcalls) != 1 or n_all != 1 or _src(lcalls[0].func) != "logger._log":
            raise Unsupported("__exit__: exactly one direct statement `logger._log(...)` expected")
        a = lcalls[0].args
        if len(a) != 6 or lcalls[0].keywords or _src(a[1]) != "from_decorator" or _src(a[2]) != "catch_options":
            raise Unsupported("__exit__: _log call " + _src(lcalls[0]))

        # wrapper shapes inside Catcher.__call__
        callm = cm["__call__"]
        cvar = [s for s in callm.body if isinstance(s, ast.Assign) and _src(s.targets[0]) == "catcher"]
        if len(cvar) != 1 or _src(cvar[0].value) not in ("Catcher(True)", "Catcher(False)"):
            raise Unsupported("__call__: catcher = Catcher(<const>)")
        dec_flag = _src(cvar[0].value) == "Catcher(True)"
        ifs = [s for s in callm.body if isinstance(s, ast.If) and "function" in _src(s.test) and "isclass" not in _src(s.test)]
        if len(ifs) != 1:
            raise Unsupported("__call__: shape dispatch")
        crow = []
        node = ifs[0]
        branches = []
        branch_tests = []
        while True:
            branches.append((_src(node.test), node.body))
            branch_tests.append(node.test)
            if len(node.orelse) == 1 and isinstance(node.orelse[0], ast.If):
                node = node.orelse[0]
            else:
                branches.append(("else", node.orelse))
                branch_tests.append(None)
                break
        kind_of = {"iscoroutinefunction(function)": "coroutine", "isgeneratorfunction(function)": "generator",
                   "isasyncgenfunction(function)": "asyncgen", "else": "function"}
        def branch_kind(test_node, test_src):
            """the kind of callable a branch of the dispatch handles: the `is…function(function)` predicate of its test,
            alone or or-ed with `getattr(function, <marker>, False)` probes (wrappers marking themselves as that kind)"""
            if test_src in kind_of:
                return test_src
            if isinstance(test_node, ast.BoolOp) and isinstance(test_node.op, ast.Or) and _src(test_node.values[0]) in kind_of:
                for v in test_node.values[1:]:
                    if not (isinstance(v, ast.Call) and _src(v.func) == "getattr" and len(v.args) == 3 and not v.keywords
                            and _src(v.args[0]) == "function" and isinstance(v.args[1], ast.Constant)
                            and isinstance(v.args[1].value, str) and _src(v.args[2]) == "False"):
                        return None
                return _src(test_node.values[0])
            return None

        for (test, stmts), tnode in zip(branches, branch_tests):
            test = branch_kind(tnode, test) if test != "else" else test
            if test not in kind_of:
                raise Unsupported("__call__: branch " + str(test))
            fns = [s for s in stmts if isinstance(s, (ast.FunctionDef, ast.AsyncFunctionDef)) and s.name == "catch_wrapper"]
            if len(fns) != 1 or fns[0].decorator_list:
                raise Unsupported("__call__: catch_wrapper of branch " + test)
            n = _toplevel_with(fns[0], "catcher")
            if n == 1:
                crow.append((kind_of[test], ["__exit__", "catch_wrapper"], dec_flag, frames_default))
                continue
            if n > 1:
                raise Unsupported("several `with catcher` in " + test)
            # no `with` in catch_wrapper itself: the methods of a helper class may hold it
            classes = [s for s in stmts if isinstance(s, ast.ClassDef)]
            found = 0
            for c in classes:
                for f in c.body:
                    if isinstance(f, (ast.FunctionDef, ast.AsyncFunctionDef)) and not f.decorator_list:
                        k = _toplevel_with(f, "catcher")
                        if k == 1:
                            crow.append((kind_of[test] + "." + f.name, ["__exit__", f.name], dec_flag, frames_default))
                            found += 1
                            holder = (c, f.name)
                        elif k > 1:
                            raise Unsupported("several `with catcher` in " + f.name)
            if not found:
                raise Unsupported("branch %s never enters the catcher" % test)
            if kind_of[test] == "asyncgen":
                # `async for` / anext() reach the wrapper through __anext__: either the class defines it, or it is
                # the mixin of collections.abc.AsyncGenerator (an `async def` awaiting self.asend(None): one more frame)
                if found != 1 or holder[1] != "asend":
                    raise Unsupported("asyncgen wrapper: the catcher is not entered in asend alone")
                c = holder[0]
                if [_src(b_) for b_ in c.bases] != ["AsyncGenerator"] or c.keywords or c.decorator_list:
                    raise Unsupported("asyncgen wrapper bases")
                meths = {f.name: f for f in c.body if isinstance(f, (ast.FunctionDef, ast.AsyncFunctionDef))}
                wrapper_methods = [f.name for f in c.body if isinstance(f, (ast.FunctionDef, ast.AsyncFunctionDef))]
                if len(meths) != len(wrapper_methods):
                    raise Unsupported("asyncgen wrapper: a method is defined twice")
                unknown = set(meths) - {"__init__", "asend", "athrow", "aclose", "__anext__"}
                if unknown:
                    raise Unsupported("asyncgen wrapper: unexpected methods %r" % sorted(unknown))
                an = meths.get("__anext__")
                if an is None:
                    chain = ["__exit__", "asend", "__anext__"]        # inherited stdlib coroutine
                else:
                    ab_ = _body(an)
                    if an.decorator_list or len(ab_) != 1 or not isinstance(ab_[0], ast.Return):
                        raise Unsupported("__anext__ shape")
                    v = ab_[0].value
                    if isinstance(an, ast.FunctionDef) and _src(v) == "self.asend(None)":
                        chain = ["__exit__", "asend"]                 # hands the asend coroutine over: no frame of its own
                    elif isinstance(an, ast.AsyncFunctionDef) and _src(v) == "await self.asend(None)":
                        chain = ["__exit__", "asend", "__anext__"]
                    else:
                        raise Unsupported("__anext__ body " + _src(v))
                crow.append(("asyncgen.__anext__", chain, dec_flag, frames_default))
        # plain context manager / async context manager
        crow.append(("with", ["__exit__"], cm_flag, frames_default))
        ax = cm.get("__aexit__")
        if ax is not None:
            ab = _body(ax)
            if ax.decorator_list:
                raise Unsupported("__aexit__ decorated")
            # the single call `self.__exit__(type_, value, traceback_[, _frames=K])` made from __aexit__'s OWN frame
            # (directly returned, or inside a try/finally that sets and resets per-object state around it)
            acalls, holder_stmt = [], None
            for top_st in ab:
                todo_ = [top_st]
                while todo_:
                    n_ = todo_.pop()
                    if isinstance(n_, (ast.FunctionDef, ast.AsyncFunctionDef, ast.ClassDef, ast.Lambda)):
                        raise Unsupported("__aexit__: nested definition")
                    if isinstance(n_, ast.Call) and _src(n_.func) == "self.__exit__":
                        acalls.append(n_)
                        holder_stmt = top_st
                    todo_.extend(ast.iter_child_nodes(n_))
            if len(acalls) != 1 or sum(1 for n_ in ast.walk(ax) if isinstance(n_, ast.Call) and "__exit__" in _src(n_.func)) != 1:
                raise Unsupported("__aexit__ shape")
            acall = acalls[0]
            if [_src(x) for x in acall.args] != ["type_", "value", "traceback_"]:
                raise Unsupported("__aexit__ arguments " + _src(acall))
            fr = frames_default
            if frames_src == "selfAttr":
                for top_st in ab[:ab.index(holder_stmt)]:
                    if isinstance(top_st, ast.Assign) and len(top_st.targets) == 1 \
                            and _src(top_st.targets[0]) == "self." + frames_attr and _const_int(top_st.value) is not None:
                        fr = _const_int(top_st.value)
                    elif any(isinstance(x, ast.Attribute) and x.attr == frames_attr for x in ast.walk(top_st)):
                        raise Unsupported("__aexit__: self.%s set in an unknown way" % frames_attr)
            for kw in acall.keywords:
                if kw.arg == "_frames" and isinstance(kw.value, ast.Constant) and type(kw.value.value) is int \
                        and "_frames" in env:
                    fr = kw.value.value
                else:
                    raise Unsupported("__aexit__ keyword " + _src(acall))
            if isinstance(ax, ast.FunctionDef):
                raise Unsupported("__aexit__ is not a coroutine function")
            crow.append(("async with", ["__exit__", "__aexit__"], cm_flag, fr))
        body += "/-- ways of reaching `_log` through catch(): library frames between `_log` and user code -/\n"
        body += "def catchRows : List CatchRow := [\n" + ",\n".join(
            "  { shape := %s, chain := [%s], fromDecorator := %s, frames := (%d : Int) }" % (
                lean_chars(k), ", ".join(lean_chars(c) for c in ch), "true" if fl else "false", fr)
            for k, ch, fl, fr in crow) + "]\n\n"
        body += "/-- methods the async-generator wrapper class defines itself -/\n"
        body += "def asyncGenWrapperMethods : List Py.Str := [%s]\n\n" % ", ".join(lean_chars(x) for x in wrapper_methods)

        # ------------------------------------------------------------------ _get_frame.py
        gtree, gsrc = parse_module("_get_frame.py")
        lg = find_func(gtree, "load_get_frame_function")
        sel = _cond_result(lg)
        if lg.args.args or sel != ("hasattr(sys, '_getframe')", "sys._getframe", "get_frame_fallback"):
            raise Unsupported("load_get_frame_function changed: %r" % (sel,))
        ga = [n for n in gtree.body if isinstance(n, ast.Assign) and _src(n.targets[0]) == "get_frame"]
        if len(ga) != 1 or _src(ga[0].value) != "load_get_frame_function()":
            raise Unsupported("get_frame = load_get_frame_function()")
        body += "/-- `get_frame` is `sys._getframe` whenever the interpreter has it -/\n"
        body += "def getFrameIsSysGetframe : Bool := true\n"
        # get_frame_fallback: raise/except, frame = exc_info()[2].tb_frame.f_back, the f_back loop, the None checks
        fb = find_func(gtree, "get_frame_fallback")
        if [a.arg for a in fb.args.args] != ["n"] or len(fb.body) != 1 or not isinstance(fb.body[0], ast.Try):
            raise Unsupported("get_frame_fallback shape")
        ft = fb.body[0]
        if [_src(x) for x in ft.body] != ["raise Exception"] or len(ft.handlers) != 1 or ft.orelse or ft.finalbody \
                or _src(ft.handlers[0].type) != "Exception":
            raise Unsupported("get_frame_fallback try shape")
        hb = list(ft.handlers[0].body)
        if len(hb) < 3 or _src(hb[0]) != "frame = exc_info()[2].tb_frame.f_back" or _src(hb[-1]) != "return frame" \
                or not isinstance(hb[1], ast.For) or _src(hb[1].target) != "_" or _src(hb[1].iter) != "range(n)" or hb[1].orelse:
            raise Unsupported("get_frame_fallback body")
        loop = [_src(x) for x in hb[1].body]
        if loop == ["frame = frame.f_back"]:
            breaks = "false"
        elif loop == ["if frame is None:\n    break", "frame = frame.f_back"]:
            breaks = "true"
        else:
            raise Unsupported("get_frame_fallback loop %r" % loop)
        mid = hb[2:-1]
        if not mid:
            raises = "false"
        elif len(mid) == 1 and isinstance(mid[0], ast.If) and _src(mid[0].test) == "frame is None" and not mid[0].orelse \
                and len(mid[0].body) == 1 and isinstance(mid[0].body[0], ast.Raise) and isinstance(mid[0].body[0].exc, ast.Call) \
                and _src(mid[0].body[0].exc.func) == "ValueError":
            raises = "true"
        else:
            raise Unsupported("get_frame_fallback tail " + "; ".join(_src(x) for x in mid))
        body += "/-- the fallback's loop stops at `None` instead of reading `None.f_back` -/\n"
        body += "def fallbackBreaksOnNone : Bool := %s\n" % breaks
        body += "/-- the fallback raises ValueError (like sys._getframe) when the walk ends on `None` -/\n"
        body += "def fallbackRaisesOnNone : Bool := %s\n" % raises
    except (Unsupported, SyntaxError, KeyError, AttributeError, IndexError, ValueError) as e:
        errors.append("%s: %s" % (type(e).__name__, e))
    body += "\nend Frames.Gen\n"
    return emit("Frames", body, ["loguru/_logger.py", "loguru/_get_frame.py", "loguru/_recattrs.py", "loguru/__init__.py", "loguru/_datetime.py"], errors)
