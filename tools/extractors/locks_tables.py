"""Generated/Locks.lean from loguru/_locks_machinery.py and every lock-creating call in loguru/ (C15)."""
import ast
import os

import extract_lib
from extract_lib import Unsupported, emit, find_func, lean_str, parse_module


def _loop_sets(fn):
    out = []
    for st in fn.body:
        if isinstance(st, ast.Expr) and isinstance(st.value, ast.Constant):
            continue
        if not (isinstance(st, ast.For) and isinstance(st.iter, ast.Name) and len(st.body) == 1):
            raise Unsupported("%s: unexpected statement %s" % (fn.name, ast.unparse(st)[:60]))
        call = st.body[0]
        if not (isinstance(call, ast.Expr) and isinstance(call.value, ast.Call)
                and isinstance(call.value.func, ast.Attribute) and ast.unparse(call.value.func.value) == st.target.id):
            raise Unsupported("%s: loop body %s" % (fn.name, ast.unparse(call)[:60]))
        out.append((st.iter.id, call.value.func.attr))
    return out


def generate():
    errors = []
    body = "set_option linter.unusedVariables false\nnamespace Locks.Gen\n\n"
    try:
        tree, _ = parse_module("_locks_machinery.py")
        acq = _loop_sets(find_func(tree, "acquire_locks"))
        rel = _loop_sets(find_func(tree, "release_locks"))
        if any(m != "acquire" for _, m in acq) or any(m != "release" for _, m in rel):
            raise Unsupported("acquire_locks/release_locks call something else than acquire/release")
        body += "/-- the sets acquire_locks() iterates, in order -/\n"
        body += "def acquireOrder : List String := [%s]\n" % ", ".join(lean_str(s) for s, _ in acq)
        body += "def releaseOrder : List String := [%s]\n\n" % ", ".join(lean_str(s) for s, _ in rel)
        # the at-fork registration
        reg = None
        for node in ast.walk(tree):
            if isinstance(node, ast.Call) and ast.unparse(node.func) == "os.register_at_fork":
                reg = {k.arg: ast.unparse(k.value) for k in node.keywords}
        if reg is None:
            raise Unsupported("os.register_at_fork call not found")
        body += "def hookBefore : String := %s\n" % lean_str(reg.get("before", ""))
        body += "def hookAfterInParent : String := %s\n" % lean_str(reg.get("after_in_parent", ""))
        body += "def hookAfterInChild : String := %s\n\n" % lean_str(reg.get("after_in_child", ""))
        # which set each creator registers its lock in (the `else` branch = platforms with register_at_fork)
        creators = {}
        for node in ast.walk(tree):
            if isinstance(node, ast.FunctionDef) and node.name.startswith("create_") and node.name.endswith("_lock"):
                adds = [ast.unparse(c.func.value) for c in ast.walk(node)
                        if isinstance(c, ast.Call) and isinstance(c.func, ast.Attribute) and c.func.attr == "add"]
                if adds:
                    creators[node.name] = adds[0]
                else:
                    # one level of delegation: `return _helper(<set>)` where the helper adds its parameter's lock
                    rets = [r.value for r in ast.walk(node) if isinstance(r, ast.Return) and isinstance(r.value, ast.Call)]
                    for call in rets:
                        if isinstance(call.func, ast.Name) and len(call.args) == 1 and isinstance(call.args[0], ast.Name):
                            helper = [f for f in ast.walk(tree) if isinstance(f, ast.FunctionDef) and f.name == call.func.id]
                            if helper and len(helper[0].args.args) == 1:
                                param = helper[0].args.args[0].arg
                                h_adds = [ast.unparse(c.func.value) for c in ast.walk(helper[0])
                                          if isinstance(c, ast.Call) and isinstance(c.func, ast.Attribute)
                                          and c.func.attr == "add"]
                                if h_adds == [param]:
                                    creators[node.name] = call.args[0].id
        body += "/-- creator function ↦ the weak set it registers the new lock in -/\n"
        body += "def creators : List (String × String) := [%s]\n\n" % ", ".join(
            "(%s, %s)" % (lean_str(k), lean_str(v)) for k, v in sorted(creators.items()))
        # every lock-creating call site of the package
        sites = []
        pkg = os.path.join(extract_lib.REPO, "loguru")
        for fn in sorted(os.listdir(pkg)):
            if not fn.endswith(".py"):
                continue
            t = ast.parse(open(os.path.join(pkg, fn), encoding="utf8").read())
            for node in ast.walk(t):
                if isinstance(node, ast.Assign) and isinstance(node.value, ast.Call):
                    callee = ast.unparse(node.value.func)
                    last = callee.split(".")[-1]
                    if last in ("Lock", "RLock") or (last.startswith("create_") and last.endswith("_lock")):
                        target = ast.unparse(node.targets[0])
                        # "bare" = a plain threading lock (threading.Lock(), or Lock() imported from threading);
                        # "creator" = through a registering creator; anything else supplies its own Lock() - a
                        # multiprocessing context (possibly through a local alias): a process-shared lock
                        base = callee.rsplit(".", 1)[0] if "." in callee else ""
                        kind = "creator" if last.startswith("create_") else (
                            "bare" if base in ("", "threading", "_thread") else "mp")
                        sites.append((fn, target, callee, kind))
        body += "/-- (file, assigned target, callee, kind) of every lock-creating assignment in loguru/ -/\n"
        body += "def lockSites : List (String × String × String × String) := [\n" + ",\n".join(
            "  (%s, %s, %s, %s)" % tuple(lean_str(x) for x in s) for s in sites) + "]\n\n"
        body += "/-- position of a set in acquire_locks (large when absent) -/\n"
        body += "def pos (name : String) : Nat := (acquireOrder.idxOf name)\n"
        body += "/-- every handler lock is acquired before every queue lock -/\n"
        body += "def handlerFirst : Bool := decide (pos \"handler_locks\" < pos \"queue_locks\")\n"
        body += "/-- acquire_locks() takes the logger locks before it iterates any other set -/\n"
        body += "def loggerFirst : Bool := decide (acquireOrder.head? = some \"logger_locks\")\n"
        body += "/-- release_locks() releases the logger locks after it has iterated every other set -/\n"
        body += "def loggerLast : Bool := decide (releaseOrder.getLast? = some \"logger_locks\")\n"
    except (Unsupported, SyntaxError, KeyError, AttributeError, IndexError, OSError) as e:
        errors.append("%s: %s" % (type(e).__name__, e))
    body += "\nend Locks.Gen\n"
    return emit("Locks", body, ["loguru/_locks_machinery.py", "loguru/*.py"], errors)
