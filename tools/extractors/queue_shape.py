"""Generated/QueueShape.lean: the statement shapes of Handler.emit/stop/complete_queue/_queued_writer that the
model Queue/Model.lean mirrors (C03)."""
import ast

from extract_lib import Unsupported, emit, find_func, lean_str, parse_module


def _stmts(body):
    return [ast.unparse(s) for s in body]


def generate():
    errors = []
    body = "namespace Queue.ShapeGen\n\n"
    try:
        tree, _ = parse_module("_handler.py")
        cq = find_func(tree, "complete_queue", cls="Handler")
        withs = [n for n in ast.walk(cq) if isinstance(n, ast.With)]
        if len(withs) != 1 or ast.unparse(withs[0].items[0].context_expr) != "self._confirmation_lock":
            raise Unsupported("complete_queue: no single `with self._confirmation_lock` block")
        inside = _stmts(withs[0].body)
        # statements executed after the block: the rest of the body it stands in and of every enclosing body
        # (`if not self._enqueue: return` before it and `if self._enqueue:` around it are the same function)
        after = []

        def rest_after(body, target):
            for i, st in enumerate(body):
                if st is target:
                    return body[i + 1:]
                for sub in ("body", "orelse"):
                    inner = getattr(st, sub, None)
                    if isinstance(inner, list) and any(target is x for x in ast.walk(st)):
                        r = rest_after(inner, target)
                        if r is not None:
                            return r + body[i + 1:]
            return None
        after = _stmts(rest_after(cq.body, withs[0]) or [])
        body += "/-- statements of complete_queue inside / after the confirmation lock -/\n"
        body += "def completeInsideLock : List String := [%s]\n" % ", ".join(lean_str(x) for x in inside)
        body += "def completeAfterLock : List String := [%s]\n\n" % ", ".join(lean_str(x) for x in after)
        qw = find_func(tree, "_queued_writer", cls="Handler")
        loop = [n for n in qw.body if isinstance(n, ast.While)]
        if len(loop) != 1:
            raise Unsupported("_queued_writer: no single while loop")
        # the loop variable (whatever it is called) is the name bound from `<queue>.get()`; it is rendered `message`
        got = [n.targets[0].id for n in ast.walk(loop[0]) if isinstance(n, ast.Assign) and len(n.targets) == 1
               and isinstance(n.targets[0], ast.Name) and isinstance(n.value, ast.Call)
               and isinstance(n.value.func, ast.Attribute) and n.value.func.attr == "get" and not n.value.args]
        if len(set(got)) != 1:
            raise Unsupported("_queued_writer: the loop does not bind exactly one name from <queue>.get()")

        class _Ren(ast.NodeTransformer):
            def visit_Name(self, node):
                return ast.copy_location(ast.Name(id="message", ctx=node.ctx), node) if node.id == got[0] else node
        tests = []
        for st in loop[0].body:
            if isinstance(st, ast.If):
                st = _Ren().visit(ast.parse(ast.unparse(st)).body[0])
                tests.append((ast.unparse(st.test), ast.unparse(st.body[0]) if len(st.body) == 1 else
                              "; ".join(_stmts(st.body))))
        body += "/-- the control-item tests of the worker loop, in order: (test, action) -/\n"
        body += "def workerTests : List (String × String) := [%s]\n\n" % ", ".join(
            "(%s, %s)" % (lean_str(a), lean_str(b)) for a, b in tests)
        stop = find_func(tree, "stop", cls="Handler")
        w = [n for n in stop.body if isinstance(n, ast.With)]
        if len(w) != 1 or ast.unparse(w[0].items[0].context_expr) != "self._protected_lock()":
            raise Unsupported("stop: not a single `with self._protected_lock()` block")
        flat = []
        for st in w[0].body:
            if isinstance(st, ast.If) and ast.unparse(st.test) == "self._enqueue":
                flat.append("if self._enqueue:")
                for s2 in st.body:
                    if isinstance(s2, ast.If):
                        flat.append("  if %s: %s" % (ast.unparse(s2.test), "; ".join(_stmts(s2.body))))
                    else:
                        flat.append("  " + ast.unparse(s2))
            else:
                flat.append(ast.unparse(st))
        body += "/-- Handler.stop under the handler lock -/\n"
        body += "def stopBody : List String := [%s]\n\n" % ", ".join(lean_str(x) for x in flat)
        em = find_func(tree, "emit", cls="Handler")
        crit = None
        for n in ast.walk(em):
            if isinstance(n, ast.With) and ast.unparse(n.items[0].context_expr) == "self._protected_lock()":
                crit = n
        if crit is None:
            raise Unsupported("emit: critical section not found")
        flat = []
        for st in crit.body:
            if isinstance(st, ast.If):
                flat.append("if %s: %s" % (ast.unparse(st.test), "; ".join(_stmts(st.body))) +
                            (" else: " + "; ".join(_stmts(st.orelse)) if st.orelse else ""))
            else:
                flat.append(ast.unparse(st))
        body += "/-- Handler.emit under the handler lock -/\n"
        body += "def emitCritical : List String := [%s]\n\n" % ", ".join(lean_str(x) for x in flat)
        # C03 no loss at interpreter exit: loguru/__init__.py registers logger.remove with atexit at module level,
        # outside every condition (whether or not the default handler was installed)
        itree, _ = parse_module("__init__.py")
        top = [n for n in itree.body if isinstance(n, ast.Expr) and isinstance(n.value, ast.Call)
               and ast.unparse(n.value.func).endswith("atexit.register") and
               [ast.unparse(a) for a in n.value.args] == ["logger.remove"]]
        nested = [n for n in ast.walk(itree) if isinstance(n, ast.Call) and ast.unparse(n.func).endswith("atexit.register")]
        if not nested:
            raise Unsupported("loguru/__init__.py no longer registers anything with atexit")
        body += "/-- `atexit.register(logger.remove)` is a top-level statement of loguru/__init__.py -/\n"
        body += "def atexitRemoveUnconditional : Bool := %s\n\n" % ("true" if len(top) == 1 and len(nested) == 1 else "false")
        # coroutine sinks (Queue/Async.lean): the snapshot of the tasks is taken under the handler lock, and
        # _complete_task returns at once for a task of another loop before it awaits the task
        stree, _ = parse_module("_simple_sinks.py")
        ttc = find_func(stree, "tasks_to_complete", cls="AsyncSink")
        rets = [n for n in ttc.body if isinstance(n, ast.Return)]
        snap = (len(rets) == 1 and isinstance(rets[0].value, ast.ListComp) and
                ast.unparse(rets[0].value.generators[0].iter) == "self._tasks" and
                ast.unparse(rets[0].value.elt) == "self._complete_task(%s)" % ast.unparse(rets[0].value.generators[0].target))
        httc = find_func(tree, "tasks_to_complete", cls="Handler")
        hw = [n for n in httc.body if isinstance(n, ast.With)]
        hw = [n for n in ast.walk(httc) if isinstance(n, ast.With)]
        under = (len(hw) == 1 and [ast.unparse(x) for x in hw[0].body] == ["return self._sink.tasks_to_complete()"] and
                 not any(isinstance(n, ast.Call) and ast.unparse(n.func) == "self._sink.tasks_to_complete" and
                         not any(n is x for x in ast.walk(hw[0])) for n in ast.walk(httc)))
        body += "/-- `AsyncSink.tasks_to_complete` snapshots `self._tasks`; `Handler.tasks_to_complete` calls it under the lock -/\n"
        body += "def asyncSnapshotUnderLock : Bool := %s\n" % ("true" if snap and under else "false")
        ct = find_func(stree, "_complete_task", cls="AsyncSink")
        order = []
        for n in ast.walk(ct):
            if isinstance(n, ast.If) and ast.unparse(n.test) == "get_task_loop(task) is not loop" and \
                    [ast.unparse(x) for x in n.body] == ["return"]:
                order.append((n.lineno, "skip"))
            if isinstance(n, ast.Await) and ast.unparse(n.value) == "task":
                order.append((n.lineno, "await"))
        order.sort()
        if [k for _, k in order].count("await") != 1:
            raise Unsupported("AsyncSink._complete_task does not await the task exactly once")
        body += "/-- `_complete_task` returns at once for a task that belongs to another event loop -/\n"
        body += "def asyncSkipsForeignLoop : Bool := %s\n\n" % ("true" if [k for _, k in order] == ["skip", "await"] else "false")
        # the worker's error report must not be able to kill the worker: everything ErrorInterceptor.print does with
        # sys.stderr (writes, flushes, traceback.print_exception onto it) sits inside the try whose handler swallows
        # OSError (a closed pipe, a full disk)
        etree, _ = parse_module("_error_interceptor.py")
        pr = find_func(etree, "print", cls="ErrorInterceptor")

        def touches_stderr(node):
            src = ast.unparse(node)
            return isinstance(node, ast.Call) and ("sys.stderr" in src) and not src.startswith("str(")
        guarded = []
        for t in ast.walk(pr):
            if isinstance(t, ast.Try) and any(
                    h.type is not None and "OSError" in ast.unparse(h.type) and not any(isinstance(x, ast.Raise) for x in ast.walk(h))
                    for h in t.handlers):
                for st in t.body:
                    guarded.extend(n for n in ast.walk(st) if touches_stderr(n))
        every = [n for n in ast.walk(pr) if touches_stderr(n)]
        if not every:
            raise Unsupported("ErrorInterceptor.print does not write to sys.stderr")
        body += "/-- every use of `sys.stderr` in `ErrorInterceptor.print` is inside the `try` that swallows OSError -/\n"
        body += "def reportGuardsStderr : Bool := %s\n\n" % (
            "true" if all(any(n is g for g in guarded) for n in every) else "false")
        # what travels through the queue is the formatted text with its record attached; the only part of a record
        # loguru itself makes picklable is the exception (RecordException.__reduce__ / _from_pickled_value)
        rtree, _ = parse_module("_recattrs.py")

        def guard(fn_name, call):
            fn = find_func(rtree, fn_name, cls="RecordException")
            tries = [n for n in ast.walk(fn) if isinstance(n, ast.Try) and call in ast.unparse(n.body[0])]
            if len(tries) != 1 or len(tries[0].body) != 1 or len(tries[0].handlers) != 1:
                raise Unsupported("RecordException.%s: `%s` is not the single statement of one try/except" % (fn_name, call))
            h = tries[0].handlers[0]
            if any(isinstance(n, ast.Raise) for n in ast.walk(h)):
                raise Unsupported("RecordException.%s: the except clause re-raises" % fn_name)
            return h.type is None or ast.unparse(h.type) in ("Exception", "BaseException")

        body += "/-- `RecordException.__reduce__` falls back to a value-less record for EVERY Exception raised by pickling the value -/\n"
        body += "def reduceGuardsAll : Bool := %s\n" % ("true" if guard("__reduce__", "pickle.dumps(self.value)") else "false")
        body += "/-- `__reduce__` drops an exception TYPE that cannot be pickled (fix F28) -/\n"
        body += "def reduceGuardsType : Bool := %s\n" % ("true" if guard("__reduce__", "pickle.dumps(self.type)") else "false")
        body += "/-- `_from_pickled_value` falls back likewise for every Exception raised by unpickling -/\n"
        body += "def loadGuardsAll : Bool := %s\n" % ("true" if guard("_from_pickled_value", "pickle.loads(") else "false")
    except (Unsupported, SyntaxError, KeyError, AttributeError, IndexError) as e:
        errors.append("%s: %s" % (type(e).__name__, e))
    body += "\nend Queue.ShapeGen\n"
    return emit("QueueShape", body, ["loguru/_handler.py", "loguru/_recattrs.py", "loguru/__init__.py", "loguru/_simple_sinks.py", "loguru/_error_interceptor.py"], errors)
