"""Generated/QueueShape.lean: the statement shapes of Handler.emit/stop/complete_queue/_queued_writer that the
model Queue/Model.lean mirrors (C03)."""
import ast

from extract_lib import Unsupported, emit, find_func, lean_str, parse_module


def _stmts(body):
    return [ast.unparse(s) for s in body]


def _clause(handler, lock_names, falls_to_next):
    """one `except` clause of the worker loop as a Queue.Clause: (classes, report, underLock, exit)"""
    if handler.type is None:
        classes = []
    elif isinstance(handler.type, ast.Tuple):
        classes = [ast.unparse(e).split(".")[-1] for e in handler.type.elts]
    else:
        classes = [ast.unparse(handler.type).split(".")[-1]]

    def is_report(n):
        return isinstance(n, ast.Call) and isinstance(n.func, ast.Attribute) and n.func.attr == "print" and \
            "error_interceptor" in ast.unparse(n.func.value)
    reports = [n for st in handler.body for n in ast.walk(st) if is_report(n)]
    locked = []
    for st in handler.body:
        for w in ast.walk(st):
            if isinstance(w, ast.With) and any(ast.unparse(i.context_expr) in lock_names for i in w.items):
                locked.extend(n for b in w.body for n in ast.walk(b) if is_report(n))
    inner = [n for st in handler.body for n in ast.walk(st)]
    if any(isinstance(n, ast.Raise) for n in inner):
        exit_ = "escape"
    elif any(isinstance(n, (ast.Break, ast.Return)) for n in inner):
        exit_ = "leave"
    elif falls_to_next or isinstance(handler.body[-1], ast.Continue):
        exit_ = "next"
    else:
        exit_ = "escape"      # falls into the code after the `try` with a stale item
    return "⟨[%s], %s, %s, .%s⟩" % (", ".join(lean_str(c) for c in classes), "true" if reports else "false",
                                   "true" if reports and (falls_to_next or all(any(r is x for x in locked) for r in reports))
                                   else "false", exit_)


def _worker_loop(qw):
    """`Handler._queued_writer` as a Queue.Loop (Queue/WorkerSyntax.lean); insensitive to the names of locals"""
    loops = [n for n in qw.body if isinstance(n, ast.While)]
    if len(loops) != 1:
        raise Unsupported("_queued_writer: no single while loop")
    loop = loops[0]
    aliases = {}
    for st in qw.body:
        if isinstance(st, ast.Assign) and len(st.targets) == 1 and isinstance(st.targets[0], ast.Name):
            aliases[st.targets[0].id] = ast.unparse(st.value)
    lock_names = {"self._queue_lock"} | {k for k, v in aliases.items() if v == "self._queue_lock"}
    setup_only = all(isinstance(st, (ast.Assign, ast.While)) or
                     (isinstance(st, ast.Expr) and isinstance(st.value, ast.Constant)) for st in qw.body)
    forever = (isinstance(loop.test, ast.Constant) and loop.test.value is True and not loop.orelse and
               qw.body[-1] is loop and setup_only)
    # the try around `<item> = <queue>.get()`
    get_try, item = None, None
    for st in loop.body:
        if isinstance(st, ast.Try):
            for n in st.body:
                if isinstance(n, ast.Assign) and len(n.targets) == 1 and isinstance(n.targets[0], ast.Name) and \
                        isinstance(n.value, ast.Call) and isinstance(n.value.func, ast.Attribute) and \
                        n.value.func.attr == "get" and not n.value.args:
                    get_try, item = st, n.targets[0].id
    if get_try is None or loop.body[0] is not get_try or len(get_try.body) != 1 or get_try.orelse or get_try.finalbody:
        raise Unsupported("_queued_writer: the loop does not start with `try: <item> = <queue>.get()`")
    get_clauses = [_clause(h, lock_names, False) for h in get_try.handlers]
    rest = loop.body[1:]

    def ident_test(st, const):
        return (isinstance(st, ast.If) and not st.orelse and isinstance(st.test, ast.Compare) and
                len(st.test.ops) == 1 and isinstance(st.test.ops[0], ast.Is) and
                isinstance(st.test.left, ast.Name) and st.test.left.id == item and
                isinstance(st.test.comparators[0], ast.Constant) and st.test.comparators[0].value is const)
    sentinel = len(rest) >= 1 and ident_test(rest[0], None) and len(rest[0].body) == 1 and isinstance(rest[0].body[0], ast.Break)
    confirm = (len(rest) >= 2 and ident_test(rest[1], True) and isinstance(rest[1].body[-1], ast.Continue) and
               any(isinstance(n, ast.Call) and isinstance(n.func, ast.Attribute) and n.func.attr == "set"
                   for n in ast.walk(rest[1])) and
               not any(isinstance(n, (ast.Break, ast.Return, ast.Raise)) for n in ast.walk(rest[1])))
    # the try around `<sink>.write(<item>)` inside `with <queue lock>` as the last statement of the loop body
    last = loop.body[-1]
    write_try = None
    if isinstance(last, ast.With) and any(ast.unparse(i.context_expr) in lock_names for i in last.items) and \
            len(last.body) == 1 and isinstance(last.body[0], ast.Try):
        t = last.body[0]
        if len(t.body) == 1 and isinstance(t.body[0], ast.Expr) and isinstance(t.body[0].value, ast.Call) and \
                isinstance(t.body[0].value.func, ast.Attribute) and t.body[0].value.func.attr == "write" and \
                [ast.unparse(a) for a in t.body[0].value.args] == [item] and not t.orelse and not t.finalbody:
            write_try = t
    if write_try is None:
        wt = [n for n in ast.walk(loop) if isinstance(n, ast.Try) and any(
            isinstance(c, ast.Call) and isinstance(c.func, ast.Attribute) and c.func.attr == "write" for b in n.body for c in ast.walk(b))]
        if len(wt) != 1:
            raise Unsupported("_queued_writer: no single `try: <sink>.write(<item>)`")
        write_clauses = [_clause(h, lock_names, False) for h in wt[0].handlers]
        write_last = False
    else:
        write_clauses = [_clause(h, lock_names, True) for h in write_try.handlers]
        write_last = len(rest) == 3
    # every other break / return / raise of the loop
    accounted = set()
    for h in get_try.handlers + (write_try.handlers if write_try else []):
        accounted.update(id(n) for n in ast.walk(h))
    if sentinel:
        accounted.update(id(n) for n in ast.walk(rest[0]))
    others = [n for n in ast.walk(loop) if isinstance(n, (ast.Break, ast.Return, ast.Raise)) and id(n) not in accounted]
    b = lambda x: "true" if x else "false"   # noqa: E731
    return ("{ forever := %s, getClauses := [%s], sentinelLeaves := %s, confirmNext := %s,\n    writeClauses := [%s], "
            "writeLast := %s, otherExits := %d }" % (b(forever), ", ".join(get_clauses), b(sentinel), b(confirm),
                                                   ", ".join(write_clauses), b(write_last), len(others)))


def generate():
    errors = []
    body = "import LoguruModel.Queue.WorkerSyntax\nnamespace Queue.ShapeGen\n\n"
    try:
        tree, _ = parse_module("_handler.py")
        cq = find_func(tree, "complete_queue", cls="Handler")
        withs = [n for n in ast.walk(cq) if isinstance(n, ast.With)]
        if len(withs) != 1 or ast.unparse(withs[0].items[0].context_expr) != "self._confirmation_lock":
            raise Unsupported("complete_queue: no single `with self._confirmation_lock` block")
        inside = _stmts(withs[0].body)
        # statements executed after the block: the rest of the body it stands in and of every enclosing body
        # (`if not self._enqueue: return` before it and `if self._enqueue:` around it are the same function)
        after = []

        def rest_after(body, target):
            for i, st in enumerate(body):
                if st is target:
                    return body[i + 1:]
                for sub in ("body", "orelse"):
                    inner = getattr(st, sub, None)
                    if isinstance(inner, list) and any(target is x for x in ast.walk(st)):
                        r = rest_after(inner, target)
                        if r is not None:
                            return r + body[i + 1:]
            return None
        after = _stmts(rest_after(cq.body, withs[0]) or [])
        body += "/-- statements of complete_queue inside / after the confirmation lock -/\n"
        body += "def completeInsideLock : List String := [%s]\n" % ", ".join(lean_str(x) for x in inside)
        body += "def completeAfterLock : List String := [%s]\n\n" % ", ".join(lean_str(x) for x in after)
        qw = find_func(tree, "_queued_writer", cls="Handler")
        loop = [n for n in qw.body if isinstance(n, ast.While)]
        if len(loop) != 1:
            raise Unsupported("_queued_writer: no single while loop")
        # the loop variable (whatever it is called) is the name bound from `<queue>.get()`; it is rendered `message`
        got = [n.targets[0].id for n in ast.walk(loop[0]) if isinstance(n, ast.Assign) and len(n.targets) == 1
               and isinstance(n.targets[0], ast.Name) and isinstance(n.value, ast.Call)
               and isinstance(n.value.func, ast.Attribute) and n.value.func.attr == "get" and not n.value.args]
        if len(set(got)) != 1:
            raise Unsupported("_queued_writer: the loop does not bind exactly one name from <queue>.get()")

        class _Ren(ast.NodeTransformer):
            def visit_Name(self, node):
                return ast.copy_location(ast.Name(id="message", ctx=node.ctx), node) if node.id == got[0] else node
        tests = []
        for st in loop[0].body:
            if isinstance(st, ast.If):
                st = _Ren().visit(ast.parse(ast.unparse(st)).body[0])
                tests.append((ast.unparse(st.test), ast.unparse(st.body[0]) if len(st.body) == 1 else
                              "; ".join(_stmts(st.body))))
        body += "/-- the control-item tests of the worker loop, in order: (test, action) -/\n"
        body += "def workerTests : List (String × String) := [%s]\n\n" % ", ".join(
            "(%s, %s)" % (lean_str(a), lean_str(b)) for a, b in tests)
        body += "/-- the exception structure of the worker loop (Queue/WorkerSyntax.lean, interpreted by Queue/Worker.lean) -/\n"
        body += "def workerLoop : Queue.Loop :=\n  %s\n\n" % _worker_loop(qw)
        stop = find_func(tree, "stop", cls="Handler")
        w = [n for n in stop.body if isinstance(n, ast.With)]
        if len(w) != 1 or ast.unparse(w[0].items[0].context_expr) != "self._protected_lock()":
            raise Unsupported("stop: not a single `with self._protected_lock()` block")
        flat = []
        for st in w[0].body:
            if isinstance(st, ast.If) and ast.unparse(st.test) == "self._enqueue":
                flat.append("if self._enqueue:")
                for s2 in st.body:
                    if isinstance(s2, ast.If):
                        flat.append("  if %s: %s" % (ast.unparse(s2.test), "; ".join(_stmts(s2.body))))
                    else:
                        flat.append("  " + ast.unparse(s2))
            else:
                flat.append(ast.unparse(st))
        body += "/-- Handler.stop under the handler lock -/\n"
        body += "def stopBody : List String := [%s]\n\n" % ", ".join(lean_str(x) for x in flat)
        em = find_func(tree, "emit", cls="Handler")
        crit = None
        for n in ast.walk(em):
            if isinstance(n, ast.With) and ast.unparse(n.items[0].context_expr) == "self._protected_lock()":
                crit = n
        if crit is None:
            raise Unsupported("emit: critical section not found")
        flat = []
        for st in crit.body:
            if isinstance(st, ast.If):
                flat.append("if %s: %s" % (ast.unparse(st.test), "; ".join(_stmts(st.body))) +
                            (" else: " + "; ".join(_stmts(st.orelse)) if st.orelse else ""))
            else:
                flat.append(ast.unparse(st))
        body += "/-- Handler.emit under the handler lock -/\n"
        body += "def emitCritical : List String := [%s]\n\n" % ", ".join(lean_str(x) for x in flat)
        # C03 no loss at interpreter exit: loguru/__init__.py registers logger.remove with atexit at module level,
        # outside every condition (whether or not the default handler was installed)
        itree, _ = parse_module("__init__.py")
        top = [n for n in itree.body if isinstance(n, ast.Expr) and isinstance(n.value, ast.Call)
               and ast.unparse(n.value.func).endswith("atexit.register") and
               [ast.unparse(a) for a in n.value.args] == ["logger.remove"]]
        nested = [n for n in ast.walk(itree) if isinstance(n, ast.Call) and ast.unparse(n.func).endswith("atexit.register")]
        if not nested:
            raise Unsupported("loguru/__init__.py no longer registers anything with atexit")
        body += "/-- `atexit.register(logger.remove)` is a top-level statement of loguru/__init__.py -/\n"
        body += "def atexitRemoveUnconditional : Bool := %s\n\n" % ("true" if len(top) == 1 and len(nested) == 1 else "false")
        # coroutine sinks (Queue/Async.lean): the snapshot of the tasks is taken under the handler lock, and
        # _complete_task returns at once for a task of another loop before it awaits the task
        stree, _ = parse_module("_simple_sinks.py")
        ttc = find_func(stree, "tasks_to_complete", cls="AsyncSink")
        rets = [n for n in ttc.body if isinstance(n, ast.Return)]
        snap = (len(rets) == 1 and isinstance(rets[0].value, ast.ListComp) and
                ast.unparse(rets[0].value.generators[0].iter) == "self._tasks" and
                ast.unparse(rets[0].value.elt) == "self._complete_task(%s)" % ast.unparse(rets[0].value.generators[0].target))
        httc = find_func(tree, "tasks_to_complete", cls="Handler")
        hw = [n for n in httc.body if isinstance(n, ast.With)]
        hw = [n for n in ast.walk(httc) if isinstance(n, ast.With)]
        under = (len(hw) == 1 and [ast.unparse(x) for x in hw[0].body] == ["return self._sink.tasks_to_complete()"] and
                 not any(isinstance(n, ast.Call) and ast.unparse(n.func) == "self._sink.tasks_to_complete" and
                         not any(n is x for x in ast.walk(hw[0])) for n in ast.walk(httc)))
        # which lock: the one the WRITER of the sink holds - the queue lock for an enqueued handler (the worker writes
        # under it), the handler lock otherwise; and a non-owner process has no tasks to wait for
        lock_expr = None
        if len(hw) == 1:
            e = hw[0].items[0].context_expr
            if isinstance(e, ast.Name):
                asg = [st for st in httc.body if isinstance(st, ast.Assign) and len(st.targets) == 1 and
                       isinstance(st.targets[0], ast.Name) and st.targets[0].id == e.id]
                lock_expr = ast.unparse(asg[-1].value) if asg else None
            else:
                lock_expr = ast.unparse(e)
        lock_ok = lock_expr in ("self._queue_lock if self._enqueue else self._protected_lock()",
                                "self._protected_lock() if not self._enqueue else self._queue_lock")
        if not lock_ok and len(hw) == 1:
            # the same choice written as if/else around the assignment
            for st in httc.body:
                if isinstance(st, ast.If) and ast.unparse(st.test) == "self._enqueue" and len(st.body) == 1 and len(st.orelse) == 1 \
                        and ast.unparse(st.body[0]).endswith("= self._queue_lock") and \
                        ast.unparse(st.orelse[0]).endswith("= self._protected_lock()"):
                    lock_ok = True
        owner_only = any(isinstance(st, ast.If) and ast.unparse(st.test) in (
            "self._enqueue and self._owner_process_pid != os.getpid()",
            "self._enqueue and os.getpid() != self._owner_process_pid") and
            [ast.unparse(x) for x in st.body] == ["return []"] for st in httc.body)
        body += "/-- `Handler.tasks_to_complete` takes the lock the sink's WRITER holds (queue lock when enqueued, handler lock otherwise) -/\n"
        body += "def tasksSnapshotLockIsWriters : Bool := %s\n" % ("true" if lock_ok else "false")
        body += "/-- … and returns no task in a process that does not own the enqueued handler -/\n"
        body += "def tasksOwnerOnly : Bool := %s\n" % ("true" if owner_only else "false")
        body += "/-- `AsyncSink.tasks_to_complete` snapshots `self._tasks`; `Handler.tasks_to_complete` calls it under the lock -/\n"
        body += "def asyncSnapshotUnderLock : Bool := %s\n" % ("true" if snap and under else "false")
        ct = find_func(stree, "_complete_task", cls="AsyncSink")
        order = []
        for n in ast.walk(ct):
            if isinstance(n, ast.If) and ast.unparse(n.test) == "get_task_loop(task) is not loop" and \
                    [ast.unparse(x) for x in n.body] == ["return"]:
                order.append((n.lineno, "skip"))
            if isinstance(n, ast.Await) and ast.unparse(n.value) == "task":
                order.append((n.lineno, "await"))
        order.sort()
        if [k for _, k in order].count("await") != 1:
            raise Unsupported("AsyncSink._complete_task does not await the task exactly once")
        # WHEN is "the running loop" read?  inside `_complete_task` (a coroutine: its body runs when the object returned
        # by complete() is AWAITED), and nowhere at collection time: tasks_to_complete takes EVERY task, unfiltered
        names_in = lambda node: {n.id for n in ast.walk(node) if isinstance(n, ast.Name)} | \
            {n.attr for n in ast.walk(node) if isinstance(n, ast.Attribute)}   # noqa: E731
        collect_clean = (len(rets) == 1 and isinstance(rets[0].value, ast.ListComp) and
                         len(rets[0].value.generators) == 1 and not rets[0].value.generators[0].ifs and
                         not ({"get_running_loop", "get_task_loop", "_loop", "get_event_loop"} & names_in(ttc)) and
                         len(ttc.body) == len([st for st in ttc.body if isinstance(st, ast.Return) or
                                               (isinstance(st, ast.Expr) and isinstance(st.value, ast.Constant))]))
        loop_vars = [st.targets[0].id for st in ct.body if isinstance(st, ast.Assign) and len(st.targets) == 1 and
                     isinstance(st.targets[0], ast.Name) and ast.unparse(st.value) == "get_running_loop()"]
        at_await = isinstance(ct, ast.AsyncFunctionDef) and (
            (len(loop_vars) == 1 and any(isinstance(n, ast.If) and loop_vars[0] in names_in(n.test) and
                                         "get_task_loop" in names_in(n.test) for n in ast.walk(ct))) or
            any(isinstance(n, ast.If) and {"get_running_loop", "get_task_loop"} <= names_in(n.test) for n in ast.walk(ct)))
        body += "/-- the loop whose tasks are waited for is read when the object is AWAITED (inside `_complete_task`), and `tasks_to_complete` collects every task unfiltered -/\n"
        body += "def asyncLoopReadAtAwait : Bool := %s\n" % ("true" if collect_clean and at_await else "false")
        body += "/-- `_complete_task` returns at once for a task that belongs to another event loop -/\n"
        body += "def asyncSkipsForeignLoop : Bool := %s\n\n" % ("true" if [k for _, k in order] == ["skip", "await"] else "false")
        # Handler.__init__, `if self._enqueue:` branch: the three channel objects are MULTIPROCESSING primitives that come
        # from one provider (the module, or the context passed by the user), the owner is the creating process, the
        # worker runs `_queued_writer` as a daemon thread and is started after everything it uses exists
        init = find_func(tree, "__init__", cls="Handler")
        enq = [n for n in init.body if isinstance(n, ast.If) and ast.unparse(n.test) == "self._enqueue"]
        if len(enq) != 1:
            raise Unsupported("Handler.__init__: no single top-level `if self._enqueue:` block")
        chan = {}

        def collect(stmts, cond):
            for st in stmts:
                if isinstance(st, ast.If):
                    collect(st.body, ast.unparse(st.test))
                    collect(st.orelse, "not (%s)" % ast.unparse(st.test))
                elif isinstance(st, ast.Assign) and len(st.targets) == 1 and isinstance(st.targets[0], ast.Attribute) and \
                        ast.unparse(st.targets[0].value) == "self":
                    chan.setdefault(st.targets[0].attr, []).append((cond, st.value))
        collect(enq[0].body, "")

        local = {}      # local aliases of the provider (`context = multiprocessing` ... `context.SimpleQueue()`)
        for n in ast.walk(enq[0]):
            if isinstance(n, ast.Assign) and len(n.targets) == 1 and isinstance(n.targets[0], ast.Name):
                local.setdefault(n.targets[0].id, set()).add(ast.unparse(n.value))
        allowed = {"multiprocessing", "self._multiprocessing_context"}

        def providers(attr, ctor):
            out = []
            for cond, v in chan.get(attr, []):
                if not (isinstance(v, ast.Call) and isinstance(v.func, ast.Attribute) and v.func.attr == ctor and not v.args):
                    return None
                prov = ast.unparse(v.func.value)
                if not ({prov} <= allowed or (prov in local and local[prov] <= allowed)):
                    return None
                out.append((cond, prov))
            return out or None
        pq, pe, pl = providers("_queue", "SimpleQueue"), providers("_confirmation_event", "Event"), \
            providers("_confirmation_lock", "Lock")
        same_provider = pq is not None and pq == pe == pl
        owner_here = [ast.unparse(v) for c, v in chan.get("_owner_process_pid", [])] == ["os.getpid()"]
        th = [v for c, v in chan.get("_thread", [])]
        kw = {k.arg: ast.unparse(k.value) for k in th[0].keywords} if len(th) == 1 and isinstance(th[0], ast.Call) else {}
        thread_ok = kw.get("target") == "self._queued_writer" and kw.get("daemon") == "True"
        last = enq[0].body[-1]
        started_last = isinstance(last, ast.Expr) and ast.unparse(last.value) == "self._thread.start()" and \
            len([n for n in ast.walk(init) if isinstance(n, ast.Call) and ast.unparse(n.func) == "self._thread.start"]) == 1
        body += "/-- `Handler.__init__`: queue, confirmation event and lock are multiprocessing primitives of ONE provider -/\n"
        body += "def initChannelShared : Bool := %s\n" % ("true" if same_provider else "false")
        body += "/-- … the owner is the creating process; the worker is a daemon thread running `_queued_writer`, started last -/\n"
        body += "def initOwnerAndWorker : Bool := %s\n\n" % ("true" if owner_here and thread_ok and started_last else "false")
        # what a child inherits by pickling (Handler.__getstate__ / __setstate__): which attributes are blanked, which
        # are re-created afresh in the child - everything else (queue, confirmation event + lock, owner pid, _stopped)
        # travels as it is, i.e. is shared / copied, which is what `Queue.step`'s per-process part assumes
        gs = find_func(tree, "__getstate__", cls="Handler")
        ss = find_func(tree, "__setstate__", cls="Handler")
        svar = [st.targets[0].id for st in gs.body if isinstance(st, ast.Assign) and len(st.targets) == 1 and
                isinstance(st.targets[0], ast.Name) and ast.unparse(st.value) == "self.__dict__.copy()"]
        rets = [n for n in ast.walk(gs) if isinstance(n, ast.Return)]
        if len(svar) != 1 or len(rets) != 1 or ast.unparse(rets[0].value) != svar[0]:
            raise Unsupported("Handler.__getstate__ does not return a copy of self.__dict__")
        blanked = []

        def scan(stmts, cond):
            for st in stmts:
                if isinstance(st, ast.If):
                    scan(st.body, (cond + " and " if cond else "") + ast.unparse(st.test))
                    scan(st.orelse, (cond + " and " if cond else "") + "not (%s)" % ast.unparse(st.test))
                elif isinstance(st, ast.Assign) and len(st.targets) == 1 and isinstance(st.targets[0], ast.Subscript) and \
                        ast.unparse(st.targets[0].value) == svar[0] and isinstance(st.targets[0].slice, ast.Constant):
                    if not (isinstance(st.value, ast.Constant) and st.value.value is None):
                        raise Unsupported("Handler.__getstate__ stores something other than None: " + ast.unparse(st))
                    blanked.append((st.targets[0].slice.value, cond))
        scan(gs.body, "")
        fresh = []

        def scan2(stmts, cond):
            for st in stmts:
                if isinstance(st, ast.If):
                    scan2(st.body, (cond + " and " if cond else "") + ast.unparse(st.test))
                    scan2(st.orelse, (cond + " and " if cond else "") + "not (%s)" % ast.unparse(st.test))
                elif isinstance(st, ast.Assign) and len(st.targets) == 1 and isinstance(st.targets[0], ast.Attribute) and \
                        ast.unparse(st.targets[0].value) == "self":
                    fresh.append((st.targets[0].attr, ast.unparse(st.value), cond))
        scan2(ss.body, "")
        upd = [st for st in ss.body if isinstance(st, ast.Expr) and ast.unparse(st.value).startswith("self.__dict__.update(")]
        if len(upd) != 1 or ss.body[0] is not upd[0]:
            raise Unsupported("Handler.__setstate__ does not start with self.__dict__.update(state)")
        body += "/-- attributes `Handler.__getstate__` blanks (attribute, condition) and `__setstate__` re-creates (attribute, value, condition) -/\n"
        body += "def pickleBlanked : List (String × String) := [%s]\n" % ", ".join(
            "(%s, %s)" % (lean_str(a), lean_str(c)) for a, c in blanked)
        body += "def pickleFresh : List (String × String × String) := [%s]\n\n" % ", ".join(
            "(%s, %s, %s)" % (lean_str(a), lean_str(v), lean_str(c)) for a, v, c in fresh)
        # Logger.complete(): for each handler, complete_queue() (barrier of the enqueue worker) comes BEFORE
        # tasks_to_complete() (snapshot of the coroutine-sink tasks), both under the core lock (Queue/EnqAsync.lean)
        ltree, _ = parse_module("_logger.py")
        lc = find_func(ltree, "complete", cls="Logger")

        def calls(node, attr):
            return [n for n in ast.walk(node) if isinstance(n, ast.Call) and isinstance(n.func, ast.Attribute) and n.func.attr == attr]
        fors = [n for n in ast.walk(lc) if isinstance(n, ast.For) and calls(n, "complete_queue") and calls(n, "tasks_to_complete")]
        if len(fors) != 1 or len(calls(lc, "complete_queue")) != 1 or len(calls(lc, "tasks_to_complete")) != 1:
            raise Unsupported("Logger.complete: no single loop calling complete_queue() and tasks_to_complete() once each")
        tgt = ast.unparse(fors[0].target)
        iq = [i for i, st in enumerate(fors[0].body) if calls(st, "complete_queue")][0]
        it = [i for i, st in enumerate(fors[0].body) if calls(st, "tasks_to_complete")][0]
        same_handler = (ast.unparse(calls(lc, "complete_queue")[0].func.value) == tgt and
                        ast.unparse(calls(lc, "tasks_to_complete")[0].func.value) == tgt)
        straight = not any(isinstance(n, (ast.Continue, ast.Break, ast.Return, ast.Raise)) for n in ast.walk(fors[0]))
        cw = [n for n in ast.walk(lc) if isinstance(n, ast.With) and any(n2 is fors[0] for n2 in ast.walk(n)) and
              any(ast.unparse(i.context_expr).endswith("core.lock") or ast.unparse(i.context_expr).endswith("_core.lock")
                  for i in n.items)]
        body += "/-- `Logger.complete`: per handler `complete_queue()` strictly before `tasks_to_complete()`, under the core lock -/\n"
        body += "def completeQueueBeforeTasks : Bool := %s\n\n" % ("true" if iq < it and same_handler and straight and cw else "false")
        # the worker's error report must not be able to kill the worker: everything ErrorInterceptor.print does with
        # sys.stderr (writes, flushes, traceback.print_exception onto it) sits inside the try whose handler swallows
        # OSError (a closed pipe, a full disk)
        etree, _ = parse_module("_error_interceptor.py")
        pr = find_func(etree, "print", cls="ErrorInterceptor")

        def touches_stderr(node):
            src = ast.unparse(node)
            return isinstance(node, ast.Call) and ("sys.stderr" in src) and not src.startswith("str(")
        guarded = []
        for t in ast.walk(pr):
            if isinstance(t, ast.Try) and any(
                    h.type is not None and "OSError" in ast.unparse(h.type) and not any(isinstance(x, ast.Raise) for x in ast.walk(h))
                    for h in t.handlers):
                for st in t.body:
                    guarded.extend(n for n in ast.walk(st) if touches_stderr(n))
        every = [n for n in ast.walk(pr) if touches_stderr(n)]
        if not every:
            raise Unsupported("ErrorInterceptor.print does not write to sys.stderr")
        body += "/-- every use of `sys.stderr` in `ErrorInterceptor.print` is inside the `try` that swallows OSError -/\n"
        body += "def reportGuardsStderr : Bool := %s\n\n" % (
            "true" if all(any(n is g for g in guarded) for n in every) else "false")
        # what travels through the queue is the formatted text with its record attached; the only part of a record
        # loguru itself makes picklable is the exception (RecordException.__reduce__ / _from_pickled_value)
        rtree, _ = parse_module("_recattrs.py")

        def guard(fn_name, call):
            fn = find_func(rtree, fn_name, cls="RecordException")
            tries = [n for n in ast.walk(fn) if isinstance(n, ast.Try) and call in ast.unparse(n.body[0])]
            if len(tries) != 1 or len(tries[0].body) != 1 or len(tries[0].handlers) != 1:
                raise Unsupported("RecordException.%s: `%s` is not the single statement of one try/except" % (fn_name, call))
            h = tries[0].handlers[0]
            if any(isinstance(n, ast.Raise) for n in ast.walk(h)):
                raise Unsupported("RecordException.%s: the except clause re-raises" % fn_name)
            return h.type is None or ast.unparse(h.type) in ("Exception", "BaseException")

        body += "/-- `RecordException.__reduce__` falls back to a value-less record for EVERY Exception raised by pickling the value -/\n"
        body += "def reduceGuardsAll : Bool := %s\n" % ("true" if guard("__reduce__", "pickle.dumps(self.value)") else "false")
        body += "/-- `__reduce__` drops an exception TYPE that cannot be pickled (fix F28) -/\n"
        body += "def reduceGuardsType : Bool := %s\n" % ("true" if guard("__reduce__", "pickle.dumps(self.type)") else "false")
        body += "/-- `_from_pickled_value` falls back likewise for every Exception raised by unpickling -/\n"
        body += "def loadGuardsAll : Bool := %s\n" % ("true" if guard("_from_pickled_value", "pickle.loads(") else "false")
    except (Unsupported, SyntaxError, KeyError, AttributeError, IndexError) as e:
        errors.append("%s: %s" % (type(e).__name__, e))
    body += "\nend Queue.ShapeGen\n"
    return emit("QueueShape", body, ["loguru/_handler.py", "loguru/_recattrs.py", "loguru/__init__.py", "loguru/_simple_sinks.py", "loguru/_error_interceptor.py", "loguru/_logger.py"], errors)
