"""Generated/ParseShape.lean from loguru/_logger.py: Logger._find_iter and Logger.parse (C20).

Tie G for the Parse area.  `_find_iter` is matched statement by statement against the shape the
hand model `Parse/Model.lean` mirrors; the constants the theorems depend on are extracted as
holes of that shape:

    buffer = fileobj.read(<initialRead>)
    while True:
        text = fileobj.read(chunk)
        buffer += text
        matches = list(regex.finditer(buffer))
        if not text:
            yield from matches
            break
        if len(matches) <guard op> <guard const>:
            end = matches[-<trimBack>].end()
            buffer = buffer[end:]
            yield from matches[:-<yieldHold>]

Local variable names are normalised (renaming is harmless).  Any other statement, order or
expression makes the extraction fail closed.  For `parse` the resource shape is checked: the
path branch's opener is `with open(file) as f: yield f`, the file-object branch yields the
caller's object untouched, and the whole iteration sits inside `with opener() as fileobj:`;
the order of the three argument checks (file, cast, pattern) and the cast-dict loop are checked
too.

What is pinned is the semantic content, not the source text.  Accepted without breaking the tie:
* renaming of locals (both functions), of the nested `opener` / `cast_function` and of the loop
  variables of `parse` (only the public parameter names file/pattern/cast/chunk are fixed);
* where `_find_iter` lives: the function checked is the one the call inside `parse` RESOLVES to –
  a (static) method of Logger, a module-level function, or a class attribute
  `name = staticmethod(f)` – called as `Logger.name(...)` or `name(...)`;
* the argument checks of `parse` moved into private helpers (`x = Logger._h(file)` / `x = _h(file)`
  whose straight-line body ends in `return x`): inlined one level deep, order kept;
* `import contextlib` + `contextlib.contextmanager` or `from contextlib import contextmanager [as n]`;
  `PathLike` or `os.PathLike`; `open(file)` or `open(os.fspath(file))`;
* local aliases of attribute expressions in `_find_iter` (`read = fileobj.read`) assigned once.
"""
import ast

from extract_lib import Unsupported, emit, find_class, parse_module


class Renamer(ast.NodeTransformer):
    """rename local variables in first-binding order to v0, v1, … (parameters keep p0, p1, …)"""

    def __init__(self, params):
        self.map = {p: "p%d" % i for i, p in enumerate(params)}
        self.n = 0

    def visit_Name(self, node):
        if node.id not in self.map:
            if isinstance(node.ctx, ast.Store):
                self.map[node.id] = "v%d" % self.n
                self.n += 1
            else:
                return node
        return ast.copy_location(ast.Name(id=self.map[node.id], ctx=node.ctx), node)


def norm_body(fn):
    params = [a.arg for a in fn.args.args]
    body = [s for s in fn.body
            if not (isinstance(s, ast.Expr) and isinstance(s.value, ast.Constant) and isinstance(s.value.value, str))]
    r = Renamer(params)
    return [r.visit(s) for s in body], r.map


def src(node):
    return ast.unparse(node)


def neg_const(node, what):
    """-K with K >= 1 an int literal"""
    if isinstance(node, ast.UnaryOp) and isinstance(node.op, ast.USub) and isinstance(node.operand, ast.Constant) \
            and isinstance(node.operand.value, int) and not isinstance(node.operand.value, bool) \
            and node.operand.value >= 1:
        return node.operand.value
    raise Unsupported("%s: expected a negative int literal, got %s" % (what, src(node)))


def nat_const(node, what):
    if isinstance(node, ast.Constant) and isinstance(node.value, int) and not isinstance(node.value, bool) \
            and node.value >= 0:
        return node.value
    raise Unsupported("%s: expected a non-negative int literal, got %s" % (what, src(node)))


def expect(cond, msg):
    if not cond:
        raise Unsupported(msg)


def strip_doc(body):
    return [st for st in body
            if not (isinstance(st, ast.Expr) and isinstance(st.value, ast.Constant) and isinstance(st.value.value, str))]


def stores_of(fn_or_stmts, descend_nested=False):
    """names bound in a function body (assignments, for/with targets, nested def/class names);
    nested function bodies are separate scopes and are not descended into"""
    out = []
    stmts = fn_or_stmts.body if isinstance(fn_or_stmts, (ast.FunctionDef, ast.AsyncFunctionDef)) else fn_or_stmts

    def walk(node):
        if isinstance(node, (ast.FunctionDef, ast.AsyncFunctionDef, ast.ClassDef)):
            out.append(node.name)
            if not descend_nested:
                return
        if isinstance(node, ast.Lambda) and not descend_nested:
            return
        if isinstance(node, ast.Name) and isinstance(node.ctx, (ast.Store, ast.Del)):
            out.append(node.id)
        for ch in ast.iter_child_nodes(node):
            walk(ch)
    for st in stmts:
        walk(st)
    return out


def own_nodes(stmts):
    """all nodes of these statements that belong to the enclosing function's own scope"""
    todo = list(stmts)
    while todo:
        n = todo.pop()
        yield n
        for ch in ast.iter_child_nodes(n):
            if isinstance(ch, (ast.FunctionDef, ast.AsyncFunctionDef, ast.Lambda, ast.ClassDef)):
                yield ch   # the def itself, not its body
                continue
            todo.append(ch)


class Subst(ast.NodeTransformer):
    def __init__(self, mapping):
        self.mapping = mapping

    def visit_Name(self, node):
        if isinstance(node.ctx, ast.Load) and node.id in self.mapping:
            return ast.copy_location(self.mapping[node.id], node)
        return node


def inline_attribute_aliases(fn):
    """`read = fileobj.read` (assigned once, value = attribute chain rooted at a parameter, at the top
    level of the body): substitute and drop the statement"""
    params = {a.arg for a in fn.args.args}
    counts = {}
    for n in stores_of(fn, descend_nested=True):
        counts[n] = counts.get(n, 0) + 1
    mapping, body = {}, []
    for st in fn.body:
        if isinstance(st, ast.Assign) and len(st.targets) == 1 and isinstance(st.targets[0], ast.Name) \
                and isinstance(st.value, ast.Attribute) and counts.get(st.targets[0].id) == 1:
            root = st.value
            while isinstance(root, ast.Attribute):
                root = root.value
            if isinstance(root, ast.Name) and root.id in params and counts.get(root.id, 0) == 0:
                mapping[st.targets[0].id] = st.value
                continue
        body.append(st)
    if not mapping:
        return fn
    new = ast.FunctionDef(name=fn.name, args=fn.args, body=[Subst(mapping).visit(st) for st in body],
                          decorator_list=fn.decorator_list, returns=None, type_comment=None)
    return ast.fix_missing_locations(ast.copy_location(new, fn))


def module_defs(tree, name):
    return [n for n in tree.body if isinstance(n, (ast.FunctionDef, ast.AsyncFunctionDef)) and n.name == name]


def module_rebinds(tree, name):
    """other module-level bindings of `name` (assignment, class, import)"""
    n = 0
    for st in tree.body:
        if isinstance(st, ast.ClassDef) and st.name == name:
            n += 1
        elif isinstance(st, (ast.Assign, ast.AugAssign, ast.AnnAssign)):
            n += sum(1 for x in ast.walk(st) if isinstance(x, ast.Name) and isinstance(x.ctx, ast.Store) and x.id == name)
        elif isinstance(st, (ast.Import, ast.ImportFrom)):
            n += sum(1 for a in st.names if (a.asname or a.name.split(".")[0]) == name)
    return n


def resolve_callee(tree, cls, func):
    """the FunctionDef a call `Logger.NAME(...)` / `NAME(...)` made inside a method of `cls` runs.
    -> (FunctionDef, is_method)"""
    def class_member(name):
        defs = [n for n in cls.body if isinstance(n, (ast.FunctionDef, ast.AsyncFunctionDef)) and n.name == name]
        assigns = [n for n in cls.body if isinstance(n, ast.Assign) and any(
            isinstance(t, ast.Name) and t.id == name for t in n.targets)]
        expect(len(defs) + len(assigns) == 1, "%s.%s is bound %d times" % (cls.name, name, len(defs) + len(assigns)))
        if defs:
            decs = [src(d) for d in defs[0].decorator_list]
            expect(decs == ["staticmethod"], "%s.%s is not a plain staticmethod: %r" % (cls.name, name, decs))
            return defs[0]
        v = assigns[0].value
        expect(isinstance(v, ast.Call) and src(v.func) == "staticmethod" and len(v.args) == 1 and not v.keywords
               and isinstance(v.args[0], ast.Name), "%s.%s = %s" % (cls.name, name, src(v)))
        return module_func(v.args[0].id)

    def module_func(name):
        defs = module_defs(tree, name)
        expect(len(defs) == 1 and module_rebinds(tree, name) == 0,
               "module-level %s is not bound exactly once by a def" % name)
        expect(not defs[0].decorator_list, "module-level %s is decorated" % name)
        return defs[0]

    if isinstance(func, ast.Attribute) and isinstance(func.value, ast.Name) and func.value.id == cls.name:
        return class_member(func.attr)
    if isinstance(func, ast.Name):
        return module_func(func.id)
    raise Unsupported("cannot resolve callee " + src(func))


def module_level_nodes(tree):
    """statements executed at import time: the module body, descending into if/try/with blocks but not
    into function or class bodies"""
    todo = list(tree.body)
    while todo:
        n = todo.pop(0)
        yield n
        if isinstance(n, (ast.If, ast.Try, ast.With)):
            for fld in ("body", "orelse", "finalbody"):
                todo.extend(getattr(n, fld, []) or [])
            for h in getattr(n, "handlers", []) or []:
                todo.extend(h.body)


def imported_as(tree, module, attr, strict=True):
    """source spellings under which `module.attr` is reachable through the module's imports.
    strict: the root name must be bound exactly once at module level (non-strict is used for
    `PathLike`, which loguru binds in a version-conditional block whose old branch is not modelled)"""
    out = set()
    for st in module_level_nodes(tree):
        if isinstance(st, ast.Import):
            for a in st.names:
                if a.name == module:
                    out.add((a.asname or a.name) + "." + attr)
        elif isinstance(st, ast.ImportFrom) and st.module == module and st.level == 0:
            for a in st.names:
                if a.name == attr:
                    out.add(a.asname or a.name)
    if not strict:
        return out
    return {x for x in out if module_rebinds(tree, x.split(".")[0]) == 1}


def inline_private_helpers(tree, cls, body, outer_names):
    """`x = Logger._h(a, …)` / `x = _h(a, …)` at the top level of `body`, where `_h` is private, takes
    exactly those names as parameters, has a straight-line body (no return except a final `return y`,
    no yield of its own) and binds nothing that the caller uses: replaced by the helper's body (one
    level deep).  Anything else is left alone (and will then fail the shape check)."""
    out = []
    for st in body:
        if isinstance(st, ast.Assign) and len(st.targets) == 1 and isinstance(st.targets[0], ast.Name) \
                and isinstance(st.value, ast.Call) and not st.value.keywords \
                and all(isinstance(a, ast.Name) for a in st.value.args):
            f = st.value.func
            name = f.attr if isinstance(f, ast.Attribute) else (f.id if isinstance(f, ast.Name) else "")
            if name.startswith("_") and not name.startswith("__"):
                try:
                    h = resolve_callee(tree, cls, f)
                except Unsupported:
                    out.append(st)
                    continue
                hb = strip_doc(h.body)
                params = [a.arg for a in h.args.args]
                ok = (not h.args.vararg and not h.args.kwarg and not h.args.kwonlyargs and not h.args.defaults
                      and params == [a.id for a in st.value.args] and hb and isinstance(hb[-1], ast.Return)
                      and isinstance(hb[-1].value, ast.Name))
                if ok:
                    inner = list(own_nodes(hb[:-1]))
                    ok = not any(isinstance(n, (ast.Return, ast.Yield, ast.YieldFrom, ast.Await, ast.Global, ast.Nonlocal))
                                 for n in inner)
                if ok:
                    ret, tgt = hb[-1].value.id, st.targets[0].id
                    bound = set(stores_of(hb[:-1]))
                    ok = ret in bound and not ((bound - {ret}) & (outer_names | set(params))) \
                        and (ret == tgt or tgt not in bound)
                if ok:
                    stmts = hb[:-1]
                    if ret != tgt:
                        stmts = [RenameAll({ret: tgt}).visit(x) for x in stmts]
                    out.extend(stmts)
                    continue
        out.append(st)
    return out


class RenameAll(ast.NodeTransformer):
    """rename a name everywhere (loads, stores, def names) – used for the value a helper returns"""

    def __init__(self, mapping):
        self.mapping = mapping

    def visit_Name(self, node):
        if node.id in self.mapping:
            return ast.copy_location(ast.Name(id=self.mapping[node.id], ctx=node.ctx), node)
        return node

    def visit_FunctionDef(self, node):
        self.generic_visit(node)
        if node.name in self.mapping:
            node.name = self.mapping[node.name]
        return node


_CMP = {ast.Gt: ">", ast.GtE: "≥", ast.Lt: "<", ast.LtE: "≤", ast.Eq: "=", ast.NotEq: "≠"}


def tr_eof(node):
    """the end-of-input test of `_find_iter` (names normalised: v1 = text, p2 = chunk) as a Lean Bool
    term over n = len(text), k = chunk.  Truthiness of `text` is `n != 0` for str and bytes alike; a
    comparison of `text` with a literal is NOT accepted (`text == ''` is false for b'')."""
    def num(e):
        if isinstance(e, ast.Call) and src(e) == "len(v1)":
            return "n"
        if isinstance(e, ast.Name) and e.id == "p2":
            return "k"
        if isinstance(e, ast.Constant) and isinstance(e.value, int) and not isinstance(e.value, bool) and e.value >= 0:
            return str(e.value)
        raise Unsupported("end-of-input test: number expected, got " + src(e))

    def b(e):
        if isinstance(e, ast.Name) and e.id == "v1":
            return "(n != 0)"
        if isinstance(e, ast.UnaryOp) and isinstance(e.op, ast.Not):
            return "(!" + b(e.operand) + ")"
        if isinstance(e, ast.BoolOp):
            return "(" + (" || " if isinstance(e.op, ast.Or) else " && ").join(b(x) for x in e.values) + ")"
        if isinstance(e, ast.Compare) and len(e.ops) == 1 and type(e.ops[0]) in _CMP:
            return "(decide (%s %s %s))" % (num(e.left), _CMP[type(e.ops[0])], num(e.comparators[0]))
        raise Unsupported("end-of-input test: " + src(e))
    return b(node)


def tr_cast_cond(node, key, groups, alias):
    """the test of the cast-dict loop as a Lean Bool term over: present = `key in groups`,
    isNone = `groups[key] is None`, truthy = `bool(groups[key])`.  `groups.get(key)` (or a local alias
    of it) stands for the value when present and for None when absent."""
    def is_get(e):
        return (isinstance(e, ast.Name) and alias is not None and e.id == alias) or \
            src(e) in ("%s.get(%s)" % (groups, key), "%s.get(%s, None)" % (groups, key))

    def b(e):
        if isinstance(e, ast.UnaryOp) and isinstance(e.op, ast.Not):
            return "(!" + b(e.operand) + ")"
        if isinstance(e, ast.BoolOp):
            return "(" + (" || " if isinstance(e.op, ast.Or) else " && ").join(b(x) for x in e.values) + ")"
        if isinstance(e, ast.Compare) and len(e.ops) == 1:
            op, l, r = e.ops[0], e.left, e.comparators[0]
            if isinstance(op, (ast.In, ast.NotIn)) and src(l) == key and src(r) in (groups, groups + ".keys()"):
                return "present" if isinstance(op, ast.In) else "(!present)"
            if isinstance(op, (ast.Is, ast.IsNot)) and is_get(l) and isinstance(r, ast.Constant) and r.value is None:
                return "(present && !isNone)" if isinstance(op, ast.IsNot) else "(!(present && !isNone))"
        if is_get(e):
            return "(present && truthy)"
        raise Unsupported("cast dict test: " + src(e))
    return b(node)


def find_iter_shape(fn):
    out = {}
    fn = inline_attribute_aliases(fn)
    expect([a.arg for a in fn.args.args] == ["fileobj", "regex", "chunk"] or len(fn.args.args) == 3,
           "_find_iter takes three parameters")
    expect(not fn.args.vararg and not fn.args.kwarg and not fn.args.kwonlyargs, "_find_iter signature")
    body, _ = norm_body(fn)
    expect(len(body) == 2, "_find_iter body has %d statements, expected 2" % len(body))
    init, loop = body
    # buffer = fileobj.read(<initialRead>)
    expect(isinstance(init, ast.Assign) and len(init.targets) == 1 and src(init.targets[0]) == "v0"
           and isinstance(init.value, ast.Call) and src(init.value.func) == "p0.read"
           and len(init.value.args) == 1 and not init.value.keywords,
           "initial buffer is not `fileobj.read(<const>)`: " + src(init))
    out["initialRead"] = nat_const(init.value.args[0], "initial read size")
    # while True:
    expect(isinstance(loop, ast.While) and not loop.orelse and isinstance(loop.test, ast.Constant)
           and loop.test.value in (True, 1), "loop is not `while True:`")
    st = loop.body
    expect(len(st) == 5, "loop body has %d statements, expected 5" % len(st))
    expect(src(st[0]) == "v1 = p0.read(p2)", "read statement: " + src(st[0]))
    expect(src(st[1]) == "v0 += v1", "append statement: " + src(st[1]))
    expect(src(st[2]) == "v2 = list(p1.finditer(v0))", "scan statement: " + src(st[2]))
    # if not text: yield from matches; break
    eof = st[3]
    expect(isinstance(eof, ast.If) and not eof.orelse, "end-of-input statement is not an `if` without else")
    out["eofTest"] = (tr_eof(eof.test), src(eof.test))
    expect(len(eof.body) == 2 and src(eof.body[0]) == "yield from v2" and isinstance(eof.body[1], ast.Break),
           "end-of-input branch is not `yield from matches; break`")
    out["eofYieldsAll"] = True
    # if len(matches) <op> K:
    g = st[4]
    expect(isinstance(g, ast.If) and not g.orelse, "trim statement is not an `if` without else")
    t = g.test
    expect(isinstance(t, ast.Compare) and len(t.ops) == 1 and src(t.left) == "len(v2)", "guard: " + src(t))
    k = nat_const(t.comparators[0], "guard constant")
    op = {ast.Gt: ">", ast.GtE: "≥", ast.Lt: "<", ast.LtE: "≤", ast.Eq: "=", ast.NotEq: "≠"}.get(type(t.ops[0]))
    expect(op is not None, "guard operator")
    out["guard"] = (op, k, src(t))
    b = g.body
    expect(len(b) == 3, "trim branch has %d statements, expected 3" % len(b))
    # end = matches[-T].end()
    a0 = b[0]
    expect(isinstance(a0, ast.Assign) and src(a0.targets[0]) == "v3" and isinstance(a0.value, ast.Call)
           and not a0.value.args and not a0.value.keywords and isinstance(a0.value.func, ast.Attribute)
           and a0.value.func.attr == "end" and isinstance(a0.value.func.value, ast.Subscript)
           and src(a0.value.func.value.value) == "v2", "trim point: " + src(a0))
    out["trimBack"] = neg_const(a0.value.func.value.slice, "trim index")
    expect(src(b[1]) == "v0 = v0[v3:]", "trim statement: " + src(b[1]))
    # yield from matches[:-Y]
    y = b[2]
    expect(isinstance(y, ast.Expr) and isinstance(y.value, ast.YieldFrom) and isinstance(y.value.value, ast.Subscript)
           and src(y.value.value.value) == "v2" and isinstance(y.value.value.slice, ast.Slice)
           and y.value.value.slice.lower is None and y.value.value.slice.step is None
           and y.value.value.slice.upper is not None, "yield statement: " + src(y))
    out["yieldHold"] = neg_const(y.value.value.slice.upper, "yield slice bound")
    return out


def parse_shape(tree, cls, fn):
    """-> (constants, the FunctionDef that the call inside the `with` block resolves to)"""
    out = {}
    expect([a.arg for a in fn.args.args] == ["file", "pattern"] and [a.arg for a in fn.args.kwonlyargs] == ["cast", "chunk"]
           and not fn.args.vararg and not fn.args.kwarg, "parse signature changed")
    body = strip_doc(fn.body)
    outer = set(stores_of(body)) | {"file", "pattern", "cast", "chunk"}
    body = inline_private_helpers(tree, cls, body, outer)
    expect(len(body) == 4, "parse body has %d top-level statements, expected 4 (file, cast, pattern, with)" % len(body))
    f, c, p, w = body
    cm = imported_as(tree, "contextlib", "contextmanager")
    expect(cm, "contextlib.contextmanager is not imported")
    pathlike = imported_as(tree, "os", "PathLike", strict=False)
    fspath = imported_as(tree, "os", "fspath")

    def is_cm_def(node, what):
        expect(isinstance(node, ast.FunctionDef) and not node.args.args and not node.args.vararg and not node.args.kwarg
               and not node.args.kwonlyargs and len(node.decorator_list) == 1 and src(node.decorator_list[0]) in cm,
               what + " is not a parameterless @contextmanager function")
        return node

    # --- file argument: if isinstance(file, (str, PathLike)): opener = cm(with open(file) as f: yield f)
    expect(isinstance(f, ast.If), "first statement is not the file test")
    t = f.test
    expect(isinstance(t, ast.Call) and src(t.func) == "isinstance" and len(t.args) == 2 and not t.keywords
           and src(t.args[0]) == "file", "file test: " + src(t))
    classes = [src(x) for x in (t.args[1].elts if isinstance(t.args[1], ast.Tuple) else [t.args[1]])]
    expect(all(c == "str" or c in pathlike for c in classes) and len(set(classes)) == len(classes),
           "file test: " + src(t))
    out["opensStr"] = "str" in classes
    out["opensPathLike"] = any(c in pathlike for c in classes)
    # what is handed to open(): the object itself (open() applies os.fspath), os.fspath(file), or str(file);
    # a once-assigned local `p = str(file)` in front of the opener is looked through
    as_is = {"file"} | {"%s(file)" % fp for fp in fspath}
    via_str = {"str(file)"}
    alias = {}
    for st in f.body[:-1]:
        expect(isinstance(st, ast.Assign) and len(st.targets) == 1 and isinstance(st.targets[0], ast.Name)
               and src(st.value) in as_is | via_str and st.targets[0].id not in ("file", "pattern", "cast", "chunk"),
               "path branch has more than the opener: " + src(st))
        expect(st.targets[0].id not in alias, "path alias assigned twice")
        alias[st.targets[0].id] = src(st.value)
    expect(len(f.body) >= 1, "path branch is empty")
    op1 = is_cm_def(f.body[-1], "path branch opener")
    opener = op1.name
    ob = op1.body
    expect(len(ob) == 1 and isinstance(ob[0], ast.With) and len(ob[0].items) == 1
           and isinstance(ob[0].items[0].context_expr, ast.Call) and src(ob[0].items[0].context_expr.func) == "open"
           and len(ob[0].items[0].context_expr.args) == 1 and not ob[0].items[0].context_expr.keywords
           and isinstance(ob[0].items[0].optional_vars, ast.Name)
           and len(ob[0].body) == 1 and src(ob[0].body[0]) == "yield " + ob[0].items[0].optional_vars.id,
           "path opener is not `with open(file) as f: yield f`")
    arg = src(ob[0].items[0].context_expr.args[0])
    arg = alias.get(arg, arg)
    expect(arg in as_is | via_str, "path opener opens " + arg)
    for a in alias:     # an alias must not be rebound anywhere else in parse
        expect(sum(1 for n in stores_of(body, descend_nested=True) if n == a) == 1, "path alias rebound: " + a)
    out["openViaStr"] = arg in via_str
    out["pathOpenerCloses"] = True
    expect(len(f.orelse) == 1 and isinstance(f.orelse[0], ast.If)
           and src(f.orelse[0].test) == "hasattr(file, 'read') and callable(file.read)", "file-object test")
    e = f.orelse[0]
    expect(len(e.body) == 1, "file-object branch has more than the opener")
    op2 = is_cm_def(e.body[0], "file-object opener")
    expect(op2.name == opener and len(op2.body) == 1 and src(op2.body[0]) == "yield file",
           "file-object opener is not `yield file` under the same name")
    out["fileObjectLeftOpen"] = True
    expect(len(e.orelse) == 1 and isinstance(e.orelse[0], ast.Raise) and e.orelse[0].exc is not None
           and isinstance(e.orelse[0].exc, ast.Call) and src(e.orelse[0].exc.func) == "TypeError",
           "invalid file does not raise TypeError")
    # --- cast argument
    expect(isinstance(c, ast.If) and src(c.test) == "isinstance(cast, dict)", "cast test")
    expect(len(c.body) == 1 and isinstance(c.body[0], ast.FunctionDef) and not c.body[0].decorator_list
           and len(c.body[0].args.args) == 1 and not c.body[0].args.vararg and not c.body[0].args.kwarg
           and not c.body[0].args.kwonlyargs and not c.body[0].args.defaults, "dict branch does not define the cast function")
    cfd = c.body[0]
    caster, gp = cfd.name, cfd.args.args[0].arg
    cb = strip_doc(cfd.body)
    expect(len(cb) == 1 and isinstance(cb[0], ast.For) and not cb[0].orelse and src(cb[0].iter) == "cast.items()"
           and isinstance(cb[0].target, ast.Tuple) and len(cb[0].target.elts) == 2
           and all(isinstance(x, ast.Name) for x in cb[0].target.elts), "cast dict loop changed: " + src(cfd))
    k, cv = (x.id for x in cb[0].target.elts)
    expect(len({k, cv, gp, "cast"}) == 4, "cast dict loop reuses a name")
    lb = list(cb[0].body)
    val_alias = None
    if len(lb) == 2 and isinstance(lb[0], ast.Assign) and len(lb[0].targets) == 1 and isinstance(lb[0].targets[0], ast.Name) \
            and src(lb[0].value) in ("%s.get(%s)" % (gp, k), "%s.get(%s, None)" % (gp, k)):
        val_alias = lb[0].targets[0].id
        expect(len({k, cv, gp, "cast", val_alias}) == 5, "cast dict loop reuses a name")
        lb = lb[1:]
    expect(len(lb) == 1 and isinstance(lb[0], ast.If) and not lb[0].orelse, "cast dict loop changed: " + src(cfd))
    out["castApplies"] = (tr_cast_cond(lb[0].test, k, gp, val_alias), src(lb[0].test))
    applied = {"%s[%s] = %s(%s[%s])" % (gp, k, cv, gp, k)}
    if val_alias is not None:
        applied.add("%s[%s] = %s(%s)" % (gp, k, cv, val_alias))
    expect(len(lb[0].body) == 1 and src(lb[0].body[0]) in applied, "cast dict loop changed: " + src(cfd))
    expect(len(c.orelse) == 1 and isinstance(c.orelse[0], ast.If) and src(c.orelse[0].test) == "callable(cast)"
           and [src(x) for x in c.orelse[0].body] == ["%s = cast" % caster] and len(c.orelse[0].orelse) == 1
           and isinstance(c.orelse[0].orelse[0], ast.Raise) and isinstance(c.orelse[0].orelse[0].exc, ast.Call)
           and src(c.orelse[0].orelse[0].exc.func) == "TypeError", "callable cast branch")
    # --- pattern
    recompile = imported_as(tree, "re", "compile")
    expect(isinstance(p, ast.Try) and len(p.body) == 1 and isinstance(p.body[0], ast.Assign)
           and len(p.body[0].targets) == 1 and isinstance(p.body[0].targets[0], ast.Name)
           and src(p.body[0].value) in {"%s(pattern)" % rc for rc in recompile}
           and len(p.handlers) == 1 and src(p.handlers[0].type) == "TypeError" and not p.orelse and not p.finalbody
           and len(p.handlers[0].body) == 1 and isinstance(p.handlers[0].body[0], ast.Raise)
           and isinstance(p.handlers[0].body[0].exc, ast.Call) and src(p.handlers[0].body[0].exc.func) == "TypeError",
           "pattern compilation")
    regex = p.body[0].targets[0].id
    # --- with opener() as fileobj: matches = _find_iter(fileobj, regex, chunk); for m in matches: …
    expect(isinstance(w, ast.With) and len(w.items) == 1 and src(w.items[0].context_expr) == opener + "()"
           and isinstance(w.items[0].optional_vars, ast.Name), "iteration is not inside `with opener() as fileobj:`")
    fo = w.items[0].optional_vars.id
    wb = w.body
    expect(len(wb) == 2 and isinstance(wb[0], ast.Assign) and len(wb[0].targets) == 1
           and isinstance(wb[0].targets[0], ast.Name) and isinstance(wb[0].value, ast.Call)
           and not wb[0].value.keywords and [src(a) for a in wb[0].value.args] == [fo, regex, "chunk"],
           "call of _find_iter(fileobj, regex, chunk)")
    ms = wb[0].targets[0].id
    callee = resolve_callee(tree, cls, wb[0].value.func)
    lp = wb[1]
    expect(isinstance(lp, ast.For) and src(lp.iter) == ms and not lp.orelse and isinstance(lp.target, ast.Name)
           and len(lp.body) == 3 and isinstance(lp.body[0], ast.Assign) and len(lp.body[0].targets) == 1
           and isinstance(lp.body[0].targets[0], ast.Name)
           and src(lp.body[0].value) == "%s.groupdict()" % lp.target.id, "per-match body (groupdict, cast, yield)")
    g = lp.body[0].targets[0].id
    expect([src(x) for x in lp.body[1:]] == ["%s(%s)" % (caster, g), "yield %s" % g],
           "per-match body (groupdict, cast, yield)")
    names = [opener, caster, regex, fo, ms, lp.target.id, g, "file", "pattern", "cast", "chunk"]
    expect(len(set(names)) == len(names), "parse reuses a local name: %r" % names)
    out["iterationInsideWith"] = True
    return out, callee


def lean_bool(b):
    return "true" if b else "false"


def generate():
    errors = []
    body = "set_option linter.unusedVariables false\nnamespace Parse.Gen\n\n"
    try:
        tree, _ = parse_module("_logger.py")
        cls = find_class(tree, "Logger")
        parses = [n for n in cls.body if isinstance(n, ast.FunctionDef) and n.name == "parse"]
        expect(len(parses) == 1 and [src(d) for d in parses[0].decorator_list] == ["staticmethod"],
               "Logger.parse is not a single static method")
        ps, callee = parse_shape(tree, cls, parses[0])
        fi = find_iter_shape(callee)      # the function the call inside parse resolves to
        op, k, text = fi["guard"]
        body += "/-- `if %s:` – the test that lets a round trim the buffer and yield -/\n" % text
        body += "def guard (n : Nat) : Bool := decide (n %s %d)\n\n" % (op, k)
        body += "/-- `end = matches[-%d].end()` -/\ndef trimBack : Nat := %d\n\n" % (fi["trimBack"], fi["trimBack"])
        body += "/-- `yield from matches[:-%d]` -/\ndef yieldHold : Nat := %d\n\n" % (fi["yieldHold"], fi["yieldHold"])
        body += "/-- `buffer = fileobj.read(%d)` -/\ndef initialRead : Nat := %d\n\n" % (fi["initialRead"], fi["initialRead"])
        body += "/-- `if %s:` – the end-of-input test, as a function of n = len(text) and k = chunk -/\n" % fi["eofTest"][1]
        body += "def eofTest (n k : Nat) : Bool := %s\n\n" % fi["eofTest"][0]
        body += ("/-- cast-dict loop `if %s:` – is the converter applied?  present = `key in groups`, isNone = the group did "
                 "not participate (value None), truthy = bool(value) -/\n") % ps["castApplies"][1]
        body += "def castApplies (present isNone truthy : Bool) : Bool := %s\n\n" % ps["castApplies"][0]
        body += "/-- `isinstance(file, (…))`: is a `str` / an `os.PathLike` opened by the function? -/\n"
        body += "def opensStr : Bool := %s\ndef opensPathLike : Bool := %s\n\n" % (lean_bool(ps["opensStr"]), lean_bool(ps["opensPathLike"]))
        body += "/-- is the path object turned into `str(file)` before `open()` (instead of `open(file)` / `os.fspath`)? -/\n"
        body += "def openViaStr : Bool := %s\n\n" % lean_bool(ps["openViaStr"])
        body += "/-- at end of input: `yield from matches; break` -/\ndef eofYieldsAll : Bool := %s\n\n" % lean_bool(fi["eofYieldsAll"])
        body += "/-- path branch: `with open(file) as f: yield f` -/\ndef pathOpenerCloses : Bool := %s\n\n" % lean_bool(ps["pathOpenerCloses"])
        body += "/-- file-object branch: `yield file` (the caller's object is not closed) -/\ndef fileObjectLeftOpen : Bool := %s\n\n" % lean_bool(ps["fileObjectLeftOpen"])
        body += "/-- the iteration is enclosed by `with opener() as fileobj:` -/\ndef iterationInsideWith : Bool := %s\n" % lean_bool(ps["iterationInsideWith"])
    except (Unsupported, SyntaxError, KeyError, AttributeError, IndexError, TypeError) as e:
        errors.append("%s: %s" % (type(e).__name__, e))
    body += "\nend Parse.Gen\n"
    return emit("ParseShape", body, ["loguru/_logger.py"], errors)
