"""Generated/ParseShape.lean from loguru/_logger.py: Logger._find_iter and Logger.parse (C20).

Tie G for the Parse area.  `_find_iter` is matched statement by statement against the shape the
hand model `Parse/Model.lean` mirrors; the constants the theorems depend on are extracted as
holes of that shape:

    buffer = fileobj.read(<initialRead>)
    while True:
        text = fileobj.read(chunk)
        buffer += text
        matches = list(regex.finditer(buffer))
        if not text:
            yield from matches
            break
        if len(matches) <guard op> <guard const>:
            end = matches[-<trimBack>].end()
            buffer = buffer[end:]
            yield from matches[:-<yieldHold>]

Local variable names are normalised (renaming is harmless).  Any other statement, order or
expression makes the extraction fail closed.  For `parse` the resource shape is checked: the
path branch's opener is `with open(file) as f: yield f`, the file-object branch yields the
caller's object untouched, and the whole iteration sits inside `with opener() as fileobj:`;
the order of the three argument checks (file, cast, pattern) and the cast-dict loop are checked
too.
"""
import ast

from extract_lib import Unsupported, emit, find_func, parse_module


class Renamer(ast.NodeTransformer):
    """rename local variables in first-binding order to v0, v1, … (parameters keep p0, p1, …)"""

    def __init__(self, params):
        self.map = {p: "p%d" % i for i, p in enumerate(params)}
        self.n = 0

    def visit_Name(self, node):
        if node.id not in self.map:
            if isinstance(node.ctx, ast.Store):
                self.map[node.id] = "v%d" % self.n
                self.n += 1
            else:
                return node
        return ast.copy_location(ast.Name(id=self.map[node.id], ctx=node.ctx), node)


def norm_body(fn):
    params = [a.arg for a in fn.args.args]
    body = [s for s in fn.body
            if not (isinstance(s, ast.Expr) and isinstance(s.value, ast.Constant) and isinstance(s.value.value, str))]
    r = Renamer(params)
    return [r.visit(s) for s in body], r.map


def src(node):
    return ast.unparse(node)


def neg_const(node, what):
    """-K with K >= 1 an int literal"""
    if isinstance(node, ast.UnaryOp) and isinstance(node.op, ast.USub) and isinstance(node.operand, ast.Constant) \
            and isinstance(node.operand.value, int) and not isinstance(node.operand.value, bool) \
            and node.operand.value >= 1:
        return node.operand.value
    raise Unsupported("%s: expected a negative int literal, got %s" % (what, src(node)))


def nat_const(node, what):
    if isinstance(node, ast.Constant) and isinstance(node.value, int) and not isinstance(node.value, bool) \
            and node.value >= 0:
        return node.value
    raise Unsupported("%s: expected a non-negative int literal, got %s" % (what, src(node)))


def expect(cond, msg):
    if not cond:
        raise Unsupported(msg)


def find_iter_shape(fn):
    out = {}
    expect([a.arg for a in fn.args.args] == ["fileobj", "regex", "chunk"] or len(fn.args.args) == 3,
           "_find_iter takes three parameters")
    expect(not fn.args.vararg and not fn.args.kwarg and not fn.args.kwonlyargs, "_find_iter signature")
    body, _ = norm_body(fn)
    expect(len(body) == 2, "_find_iter body has %d statements, expected 2" % len(body))
    init, loop = body
    # buffer = fileobj.read(<initialRead>)
    expect(isinstance(init, ast.Assign) and len(init.targets) == 1 and src(init.targets[0]) == "v0"
           and isinstance(init.value, ast.Call) and src(init.value.func) == "p0.read"
           and len(init.value.args) == 1 and not init.value.keywords,
           "initial buffer is not `fileobj.read(<const>)`: " + src(init))
    out["initialRead"] = nat_const(init.value.args[0], "initial read size")
    # while True:
    expect(isinstance(loop, ast.While) and not loop.orelse and isinstance(loop.test, ast.Constant)
           and loop.test.value in (True, 1), "loop is not `while True:`")
    st = loop.body
    expect(len(st) == 5, "loop body has %d statements, expected 5" % len(st))
    expect(src(st[0]) == "v1 = p0.read(p2)", "read statement: " + src(st[0]))
    expect(src(st[1]) == "v0 += v1", "append statement: " + src(st[1]))
    expect(src(st[2]) == "v2 = list(p1.finditer(v0))", "scan statement: " + src(st[2]))
    # if not text: yield from matches; break
    eof = st[3]
    expect(isinstance(eof, ast.If) and not eof.orelse and src(eof.test) == "not v1", "end-of-input test: " + src(eof.test)
           if isinstance(eof, ast.If) else "end-of-input statement is not an `if`")
    expect(len(eof.body) == 2 and src(eof.body[0]) == "yield from v2" and isinstance(eof.body[1], ast.Break),
           "end-of-input branch is not `yield from matches; break`")
    out["eofYieldsAll"] = True
    # if len(matches) <op> K:
    g = st[4]
    expect(isinstance(g, ast.If) and not g.orelse, "trim statement is not an `if` without else")
    t = g.test
    expect(isinstance(t, ast.Compare) and len(t.ops) == 1 and src(t.left) == "len(v2)", "guard: " + src(t))
    k = nat_const(t.comparators[0], "guard constant")
    op = {ast.Gt: ">", ast.GtE: "≥", ast.Lt: "<", ast.LtE: "≤", ast.Eq: "=", ast.NotEq: "≠"}.get(type(t.ops[0]))
    expect(op is not None, "guard operator")
    out["guard"] = (op, k, src(t))
    b = g.body
    expect(len(b) == 3, "trim branch has %d statements, expected 3" % len(b))
    # end = matches[-T].end()
    a0 = b[0]
    expect(isinstance(a0, ast.Assign) and src(a0.targets[0]) == "v3" and isinstance(a0.value, ast.Call)
           and not a0.value.args and not a0.value.keywords and isinstance(a0.value.func, ast.Attribute)
           and a0.value.func.attr == "end" and isinstance(a0.value.func.value, ast.Subscript)
           and src(a0.value.func.value.value) == "v2", "trim point: " + src(a0))
    out["trimBack"] = neg_const(a0.value.func.value.slice, "trim index")
    expect(src(b[1]) == "v0 = v0[v3:]", "trim statement: " + src(b[1]))
    # yield from matches[:-Y]
    y = b[2]
    expect(isinstance(y, ast.Expr) and isinstance(y.value, ast.YieldFrom) and isinstance(y.value.value, ast.Subscript)
           and src(y.value.value.value) == "v2" and isinstance(y.value.value.slice, ast.Slice)
           and y.value.value.slice.lower is None and y.value.value.slice.step is None
           and y.value.value.slice.upper is not None, "yield statement: " + src(y))
    out["yieldHold"] = neg_const(y.value.value.slice.upper, "yield slice bound")
    return out


def parse_shape(fn):
    out = {}
    body = [s for s in fn.body
            if not (isinstance(s, ast.Expr) and isinstance(s.value, ast.Constant) and isinstance(s.value.value, str))]
    expect(len(body) == 4, "parse body has %d top-level statements, expected 4 (file, cast, pattern, with)" % len(body))
    f, c, p, w = body
    # --- file argument
    expect(isinstance(f, ast.If) and src(f.test) == "isinstance(file, (str, PathLike))", "file test: " + src(f.test)
           if isinstance(f, ast.If) else "first statement is not the file test")
    expect(len(f.body) == 1 and isinstance(f.body[0], ast.FunctionDef) and f.body[0].name == "opener"
           and [src(d) for d in f.body[0].decorator_list] == ["contextlib.contextmanager"], "path branch opener")
    ob = f.body[0].body
    expect(len(ob) == 1 and isinstance(ob[0], ast.With) and len(ob[0].items) == 1
           and src(ob[0].items[0].context_expr) in ("open(file)", "open(os.fspath(file))")
           and ob[0].items[0].optional_vars is not None
           and len(ob[0].body) == 1 and src(ob[0].body[0]) == "yield " + src(ob[0].items[0].optional_vars),
           "path opener is not `with open(file) as f: yield f`")
    out["pathOpenerCloses"] = True
    expect(len(f.orelse) == 1 and isinstance(f.orelse[0], ast.If)
           and src(f.orelse[0].test) == "hasattr(file, 'read') and callable(file.read)", "file-object test")
    e = f.orelse[0]
    expect(len(e.body) == 1 and isinstance(e.body[0], ast.FunctionDef) and e.body[0].name == "opener"
           and [src(d) for d in e.body[0].decorator_list] == ["contextlib.contextmanager"]
           and len(e.body[0].body) == 1 and src(e.body[0].body[0]) == "yield file", "file-object opener is not `yield file`")
    out["fileObjectLeftOpen"] = True
    expect(len(e.orelse) == 1 and isinstance(e.orelse[0], ast.Raise) and src(e.orelse[0].exc.func) == "TypeError",
           "invalid file does not raise TypeError")
    # --- cast argument
    expect(isinstance(c, ast.If) and src(c.test) == "isinstance(cast, dict)", "cast test")
    cf = c.body
    expect(len(cf) == 1 and isinstance(cf[0], ast.FunctionDef) and cf[0].name == "cast_function"
           and src(cf[0]).split("\n", 1)[1].strip() ==
           "for key, converter in cast.items():\n        if key in groups:\n            groups[key] = converter(groups[key])",
           "cast dict loop changed: " + src(cf[0]))
    expect(len(c.orelse) == 1 and isinstance(c.orelse[0], ast.If) and src(c.orelse[0].test) == "callable(cast)"
           and src(c.orelse[0].body[0]) == "cast_function = cast" and isinstance(c.orelse[0].orelse[0], ast.Raise)
           and src(c.orelse[0].orelse[0].exc.func) == "TypeError", "callable cast branch")
    # --- pattern
    expect(isinstance(p, ast.Try) and src(p.body[0]) == "regex = re.compile(pattern)" and len(p.handlers) == 1
           and src(p.handlers[0].type) == "TypeError", "pattern compilation")
    # --- with opener() as fileobj: matches = _find_iter(...); for match in matches: groupdict, cast, yield
    expect(isinstance(w, ast.With) and len(w.items) == 1 and src(w.items[0].context_expr) == "opener()"
           and src(w.items[0].optional_vars) == "fileobj", "iteration is not inside `with opener() as fileobj:`")
    wb = w.body
    expect(len(wb) == 2 and src(wb[0]) == "matches = Logger._find_iter(fileobj, regex, chunk)", "call of _find_iter")
    lp = wb[1]
    expect(isinstance(lp, ast.For) and src(lp.iter) == "matches" and not lp.orelse
           and [src(s) for s in lp.body] == ["groups = %s.groupdict()" % src(lp.target), "cast_function(groups)",
                                             "yield groups"], "per-match body (groupdict, cast, yield)")
    out["iterationInsideWith"] = True
    return out


def lean_bool(b):
    return "true" if b else "false"


def generate():
    errors = []
    body = "namespace Parse.Gen\n\n"
    try:
        tree, _ = parse_module("_logger.py")
        fi = find_iter_shape(find_func(tree, "_find_iter", cls="Logger"))
        ps = parse_shape(find_func(tree, "parse", cls="Logger"))
        op, k, text = fi["guard"]
        body += "/-- `if %s:` – the test that lets a round trim the buffer and yield -/\n" % text
        body += "def guard (n : Nat) : Bool := decide (n %s %d)\n\n" % (op, k)
        body += "/-- `end = matches[-%d].end()` -/\ndef trimBack : Nat := %d\n\n" % (fi["trimBack"], fi["trimBack"])
        body += "/-- `yield from matches[:-%d]` -/\ndef yieldHold : Nat := %d\n\n" % (fi["yieldHold"], fi["yieldHold"])
        body += "/-- `buffer = fileobj.read(%d)` -/\ndef initialRead : Nat := %d\n\n" % (fi["initialRead"], fi["initialRead"])
        body += "/-- at end of input: `yield from matches; break` -/\ndef eofYieldsAll : Bool := %s\n\n" % lean_bool(fi["eofYieldsAll"])
        body += "/-- path branch: `with open(file) as f: yield f` -/\ndef pathOpenerCloses : Bool := %s\n\n" % lean_bool(ps["pathOpenerCloses"])
        body += "/-- file-object branch: `yield file` (the caller's object is not closed) -/\ndef fileObjectLeftOpen : Bool := %s\n\n" % lean_bool(ps["fileObjectLeftOpen"])
        body += "/-- the iteration is enclosed by `with opener() as fileobj:` -/\ndef iterationInsideWith : Bool := %s\n" % lean_bool(ps["iterationInsideWith"])
    except (Unsupported, SyntaxError, KeyError, AttributeError, IndexError, TypeError) as e:
        errors.append("%s: %s" % (type(e).__name__, e))
    body += "\nend Parse.Gen\n"
    return emit("ParseShape", body, ["loguru/_logger.py"], errors)
