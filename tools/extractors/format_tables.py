"""Generated/Format.lean from loguru/_colorizer.py, _logger.py, _handler.py (C05)."""
import ast

from extract_lib import Tr, Unsupported, emit, find_func, lean_chars, parse_module


def _const_str(node):
    if isinstance(node, ast.Constant) and isinstance(node.value, str):
        return node.value
    raise Unsupported("expected a string literal: " + ast.unparse(node))


def _kwdefault(fn, name):
    for a, d in zip(fn.args.kwonlyargs, fn.args.kw_defaults):
        if a.arg == name:
            return d
    raise Unsupported("keyword %s of %s not found" % (name, fn.name))


def _depth_kernels(fn, tag):
    """default depth, the `< 0` guard (must be the first statement and raise ValueError) and the
    `recursion_depth - 1` of the recursive call"""
    d = _kwdefault(fn, "recursion_depth")
    if not (isinstance(d, ast.Constant) and isinstance(d.value, int) and not isinstance(d.value, bool)):
        raise Unsupported("recursion_depth default of " + fn.name)
    first = fn.body[0]
    if isinstance(first, ast.Expr) and isinstance(first.value, ast.Constant):  # docstring / comment
        first = fn.body[1]
    if not (isinstance(first, ast.If) and len(first.body) == 1 and isinstance(first.body[0], ast.Raise)
            and ast.unparse(first.body[0].exc).startswith("ValueError(") and not first.orelse):
        raise Unsupported("depth guard of %s is not `if <test>: raise ValueError(...)`" % fn.name)
    env = {"recursion_depth": ("recursion_depth", "int")}
    guard, t = Tr(env).tr(first.test)
    Tr.need(t, "bool")
    nxt = None
    for node in ast.walk(fn):
        if isinstance(node, ast.Call) and ast.unparse(node.func) == "Colorizer." + fn.name:
            for kw in node.keywords:
                if kw.arg == "recursion_depth":
                    if nxt is not None:
                        raise Unsupported("several recursive calls in " + fn.name)
                    nxt, t2 = Tr(env).tr(kw.value)
                    Tr.need(t2, "int")
            # the spec is what is recursed into
            if ast.unparse(node.args[0]) != "format_spec":
                raise Unsupported("recursive call of %s is not on format_spec" % fn.name)
    if nxt is None:
        raise Unsupported("recursive call of %s not found" % fn.name)
    out = "def recursionDepth%s : Int := %d\n" % (tag, d.value)
    out += "def depthExceeded%s (recursion_depth : Int) : Bool := %s\n" % (tag, guard)
    out += "def nextDepth%s (recursion_depth : Int) : Int := %s\n\n" % (tag, nxt)
    return out


def _numbering_rule(fn):
    """the auto/manual numbering decision of _parse_with_formatting: which text is tested
    (`field_name` itself, or its first component obtained by re.split on a character class), and
    whether the automatic index is prefixed to the field name or replaces it"""
    loop = [n for n in ast.walk(fn) if isinstance(n, ast.For)]
    if len(loop) != 1 or ast.unparse(loop[0].iter) != "formatter.parse(string)":
        raise Unsupported("loop over formatter.parse(string) not found in " + fn.name)
    fld = [s for s in loop[0].body if isinstance(s, ast.If) and ast.unparse(s.test) == "field_name is not None"]
    if len(fld) != 1:
        raise Unsupported("field branch of " + fn.name)
    stmts = fld[0].body
    seps = None
    subject = "field_name"
    i = 0
    st = stmts[0]
    if isinstance(st, ast.Assign) and len(st.targets) == 1 and isinstance(st.targets[0], ast.Name):
        # first_component = re.split(r"[.\[]", field_name, maxsplit=1)[0]
        v = st.value
        ok = (isinstance(v, ast.Subscript) and isinstance(v.slice, ast.Constant) and v.slice.value == 0
              and isinstance(v.value, ast.Call) and ast.unparse(v.value.func) == "re.split"
              and len(v.value.args) == 2 and ast.unparse(v.value.args[1]) == "field_name"
              and isinstance(v.value.args[0], ast.Constant) and isinstance(v.value.args[0].value, str)
              and [(k.arg, ast.unparse(k.value)) for k in v.value.keywords] == [("maxsplit", "1")])
        if not ok:
            raise Unsupported("first statement of the field branch: " + ast.unparse(st)[:80])
        pat = v.value.args[0].value
        if not (len(pat) >= 3 and pat[0] == "[" and pat[-1] == "]" and pat[1] != "^"):
            raise Unsupported("split pattern is not a character class: " + pat)
        inner, chars, j = pat[1:-1], [], 0
        while j < len(inner):
            if inner[j] == "\\":
                j += 1
                if j >= len(inner) or inner[j].isalnum():
                    raise Unsupported("escape in split pattern: " + pat)
            elif inner[j] in "-]":
                raise Unsupported("range in split pattern: " + pat)
            chars.append(inner[j])
            j += 1
        seps = "".join(chars)
        subject = st.targets[0].id
        i = 1
    st = stmts[i]
    if not (isinstance(st, ast.If) and len(st.orelse) == 1 and isinstance(st.orelse[0], ast.If) and not st.orelse[0].orelse):
        raise Unsupported("numbering if/elif of " + fn.name)
    if ast.unparse(st.test) not in (subject + " == ''", "not " + subject) or ast.unparse(st.orelse[0].test) != subject + ".isdigit()":
        raise Unsupported("numbering tests are not on %s: %s / %s" % (subject, ast.unparse(st.test), ast.unparse(st.orelse[0].test)))
    auto = [ast.unparse(x) for x in st.body]
    if len(auto) != 3 or not auto[0].startswith("if auto_arg_index is False:\n    raise ValueError(") \
            or auto[2] != "auto_arg_index += 1":
        raise Unsupported("automatic-numbering branch: " + " ; ".join(auto)[:120])
    if auto[1] == "field_name = str(auto_arg_index) + field_name":
        prefix = "true"
    elif auto[1] == "field_name = str(auto_arg_index)":
        prefix = "false"
    else:
        raise Unsupported("automatic field name: " + auto[1])
    man = [ast.unparse(x) for x in st.orelse[0].body]
    if len(man) != 2 or not man[0].startswith("if auto_arg_index:\n    raise ValueError(") or man[1] != "auto_arg_index = False":
        raise Unsupported("manual-numbering branch: " + " ; ".join(man)[:120])
    if ast.unparse(stmts[i + 1]) != "obj, _ = formatter.get_field(field_name, args, kwargs)":
        raise Unsupported("lookup after numbering: " + ast.unparse(stmts[i + 1])[:80])
    out = "/-- which text the `== \"\"` / `.isdigit()` numbering tests of `_parse_with_formatting` look at -/\n"
    out += "def numberingSubject : Subject := %s\n" % ("Subject.wholeName" if seps is None else "Subject.firstComponent")
    out += "/-- the characters `re.split` cuts the first component at -/\n"
    out += "def headSeparators : Py.Str := %s\n" % lean_chars(seps or "")
    out += "/-- `field_name = str(auto_arg_index) + field_name` (true) or `= str(auto_arg_index)` (false) -/\n"
    out += "def autoIndexPrefixesName : Bool := %s\n\n" % prefix
    return out


def _field_eval(fn):
    """the statements of `_parse_with_formatting` that evaluate one replacement field, after the numbering, as an
    ordered list of steps checked by DATA FLOW (any local names): lookup -> convert -> expand the spec (sharing
    auto_arg_index) -> format_field -> feed.  `fn` has canonical loop variables (`_canon_loop`)."""
    loop = [n for n in ast.walk(fn) if isinstance(n, ast.For)][0]
    fld = [s for s in loop.body if isinstance(s, ast.If) and ast.unparse(s.test) == "field_name is not None"]
    if len(fld) != 1:
        raise Unsupported("field branch of " + fn.name)
    stmts = fld[0].body
    start = [i for i, s in enumerate(stmts) if "formatter.get_field(" in ast.unparse(s)]
    if len(start) != 1:
        raise Unsupported("formatter.get_field is not called exactly once")
    obj, spec, out, steps = None, "format_spec", None, []

    def names(t):
        return [e.id for e in t.elts] if isinstance(t, ast.Tuple) and all(isinstance(e, ast.Name) for e in t.elts) else \
            ([t.id] if isinstance(t, ast.Name) else None)
    for st in stmts[start[0]:]:
        if not (isinstance(st, (ast.Assign, ast.Expr)) and isinstance(st.value, ast.Call)):
            raise Unsupported("field evaluation statement " + ast.unparse(st)[:80])
        c = st.value
        f = ast.unparse(c.func)
        a = [ast.unparse(x) for x in c.args]
        kw = {k.arg: ast.unparse(k.value) for k in c.keywords}
        tg = names(st.targets[0]) if isinstance(st, ast.Assign) and len(st.targets) == 1 else None
        if f == "formatter.get_field" and a == ["field_name", "args", "kwargs"] and not kw and tg and len(tg) == 2:
            obj = tg[0]
            steps.append("lookup")
        elif f == "formatter.convert_field" and a == [obj, "conversion"] and not kw and tg and len(tg) == 1:
            obj = tg[0]
            steps.append("convert")
        elif f == "Colorizer." + fn.name and a == [spec, "args", "kwargs"] and kw.get("auto_arg_index") == "auto_arg_index" \
                and set(kw) == {"recursion_depth", "auto_arg_index", "recursive"} and tg and len(tg) == 2 and tg[1] == "auto_arg_index":
            spec = tg[0]
            steps.append("expand")
        elif f in ("formatter.format_field", "format") and a == [obj, spec] and not kw and tg and len(tg) == 1:
            # Formatter.format_field(value, spec) IS format(value, spec)
            out = tg[0]
            steps.append("format")
        elif f == "parser.feed" and a == [out] and isinstance(st, ast.Expr):
            steps.append("feed")
        else:
            raise Unsupported("field evaluation statement (data flow) " + ast.unparse(st)[:100])
    if sorted(steps) != sorted(["lookup", "convert", "expand", "format", "feed"]):
        raise Unsupported("field evaluation steps: %r" % steps)
    out_ = "/-- the statements of `_parse_with_formatting` evaluating one replacement field, in source order -/\n"
    out_ += "def fieldEval : List EvalStep := [%s]\n\n" % ", ".join("EvalStep." + x for x in steps)
    return out_


def _feed_rules(fn, tag):
    """which texts `_parse_*_formatting` hands to the markup parser verbatim (`raw=`): the literal text
    of the template (raw exactly in recursive calls, i.e. inside format specs), the formatted value /
    re-assembled field (always raw), and the `recursive=` flag of the recursive call"""
    env = {"recursive": ("recursive", "bool")}
    feeds = {}
    for node in ast.walk(fn):
        if isinstance(node, ast.Call) and ast.unparse(node.func) == "parser.feed":
            if len(node.args) != 1:
                raise Unsupported("parser.feed call shape: " + ast.unparse(node))
            what = ast.unparse(node.args[0])
            raw = "false"
            for kw in node.keywords:
                if kw.arg != "raw":
                    raise Unsupported("parser.feed keyword " + str(kw.arg))
                raw, t = Tr(env).tr(kw.value)
                Tr.need(t, "bool")
            if what in feeds:
                raise Unsupported("parser.feed(%s) occurs twice in %s" % (what, fn.name))
            feeds[what] = raw
    second = "formatted" if tag == "With" else "field"
    others = [k for k in feeds if k != "literal_text"]
    if "literal_text" not in feeds or len(others) != 1:
        raise Unsupported("texts fed to the markup parser in %s: %r" % (fn.name, sorted(feeds)))
    feeds[second] = feeds[others[0]]        # the local holding the formatted value / re-assembled field may have any name
    rec = None
    for node in ast.walk(fn):
        if isinstance(node, ast.Call) and ast.unparse(node.func) == "Colorizer." + fn.name:
            for kw in node.keywords:
                if kw.arg == "recursive":
                    rec, t = Tr(env).tr(kw.value)
                    Tr.need(t, "bool")
    if rec is None:
        raise Unsupported("recursive= of the recursive call of " + fn.name)
    d = _kwdefault(fn, "recursive")
    if not (isinstance(d, ast.Constant) and d.value is False):
        raise Unsupported("recursive default of " + fn.name)
    out = "/-- `parser.feed(literal_text, raw=…)` in `%s` -/\n" % fn.name
    out += "def literalRaw%s (recursive : Bool) : Bool := %s\n" % (tag, feeds["literal_text"])
    out += "/-- `parser.feed(%s, raw=…)` -/\n" % second
    out += "def %sRaw%s (recursive : Bool) : Bool := %s\n" % (second, tag, feeds[second])
    out += "/-- `recursive=…` of the recursive call on the format spec -/\n"
    out += "def nestedRecursive%s (recursive : Bool) : Bool := %s\n\n" % (tag, rec)
    return out


LOOP_VARS = ["literal_text", "field_name", "format_spec", "conversion"]


def _canon_loop(fn):
    """alpha-normalise the four loop variables of `for a, b, c, d in formatter.parse(string)` to the
    names of the documented tuple (literal_text, field_name, format_spec, conversion); returns a copy"""
    import copy
    fn = copy.deepcopy(fn)
    loops = [n for n in ast.walk(fn) if isinstance(n, ast.For)]
    if len(loops) != 1 or ast.unparse(loops[0].iter) not in ("formatter.parse(string)", "Formatter().parse(string)"):
        raise Unsupported("loop over formatter.parse(string) not found in " + fn.name)
    tgt = loops[0].target
    if not (isinstance(tgt, ast.Tuple) and len(tgt.elts) == 4 and all(isinstance(e, ast.Name) for e in tgt.elts)):
        raise Unsupported("loop target " + ast.unparse(tgt))
    ren = {e.id: c for e, c in zip(tgt.elts, LOOP_VARS) if e.id != c}
    if ren:
        used = {n.id for n in ast.walk(fn) if isinstance(n, ast.Name)} | {a.arg for a in fn.args.args + fn.args.kwonlyargs}
        if any(c in used and c not in ren for c in ren.values()):
            raise Unsupported("cannot alpha-normalise the loop variables of " + fn.name)
        for n in ast.walk(fn):
            if isinstance(n, ast.Name) and n.id in ren:
                n.id = ren[n.id]
    return fn


SLOT = {"field_name": "Slot.name", "conversion": "Slot.conv", "format_spec": "Slot.spec"}


class _Assembly:
    """symbolic evaluation of the straight-line code that re-assembles a field: a text is a list of atoms
    (guard, 'lit', text) | (guard, 'slot', slot) where guard is None or the slot whose truthiness guards it.
    Understands `"a%sb" % x`, `+`, f-strings, `x if slot else ""`, local aliases, `if slot:` blocks and ONE
    level of calls to a private straight-line helper of the same class; anything else is Unsupported."""

    def __init__(self, cls, slotof, depth=0):
        self.cls, self.slotof, self.depth = cls, dict(slotof), depth
        self.vars = {}

    def ev(self, e, guard):
        if isinstance(e, ast.Constant) and isinstance(e.value, str):
            return [(guard, "lit", e.value)] if e.value else []
        if isinstance(e, ast.Name):
            if e.id in self.vars:
                return [(self._and(guard, g), k, v) for g, k, v in self.vars[e.id]]
            if e.id in self.slotof:
                return [(guard, "slot", self.slotof[e.id])]
            raise Unsupported("unknown name in field assembly: " + e.id)
        if isinstance(e, ast.BinOp) and isinstance(e.op, ast.Add):
            return self.ev(e.left, guard) + self.ev(e.right, guard)
        if isinstance(e, ast.BinOp) and isinstance(e.op, ast.Mod):
            fmt = _const_str(e.left)
            args = e.right.elts if isinstance(e.right, ast.Tuple) else [e.right]
            pieces = fmt.split("%s")
            if "%" in "".join(pieces) or len(pieces) != len(args) + 1:
                raise Unsupported("field part format " + repr(fmt))
            out = []
            for i, a in enumerate(args):
                out += self.ev(ast.Constant(pieces[i]), guard) + self.ev(a, guard)
            return out + self.ev(ast.Constant(pieces[-1]), guard)
        if isinstance(e, ast.JoinedStr):
            out = []
            for v in e.values:
                if isinstance(v, ast.FormattedValue):
                    if v.conversion != -1 or v.format_spec is not None:
                        raise Unsupported("f-string conversion/spec in field assembly")
                    out += self.ev(v.value, guard)
                else:
                    out += self.ev(v, guard)
            return out
        if isinstance(e, ast.IfExp) and isinstance(e.test, ast.Name) and e.test.id in self.slotof \
                and isinstance(e.orelse, ast.Constant) and e.orelse.value == "":
            return self.ev(e.body, self._and(guard, self.slotof[e.test.id]))
        if isinstance(e, ast.Call):
            return self.call(e, guard)
        raise Unsupported("field assembly expression " + ast.unparse(e)[:60])

    @staticmethod
    def _and(g1, g2):
        if g1 is None or g1 == g2:
            return g2
        if g2 is None:
            return g1
        raise Unsupported("nested guards in field assembly")

    def call(self, e, guard):
        f = ast.unparse(e.func)
        name = f.split(".")[-1]
        if self.depth >= 1 or f not in (name, "Colorizer." + name, "self." + name, "cls." + name) or e.keywords:
            raise Unsupported("call in field assembly: " + ast.unparse(e)[:60])
        helper = [n for n in self.cls.body if isinstance(n, ast.FunctionDef) and n.name == name]
        if len(helper) != 1:
            raise Unsupported("helper %s not found" % name)
        h = helper[0]
        params = [a.arg for a in h.args.args if a.arg not in ("self", "cls")]
        if len(params) != len(e.args) or h.args.kwonlyargs or h.args.vararg or h.args.kwarg:
            raise Unsupported("helper %s signature" % name)
        sub = _Assembly(self.cls, {}, self.depth + 1)
        for p, a in zip(params, e.args):
            atoms = self.ev(a, None)
            if len(atoms) == 1 and atoms[0][1] == "slot" and atoms[0][0] is None:
                sub.slotof[p] = atoms[0][2]
            else:
                sub.vars[p] = atoms
        body = [st for st in h.body if not (isinstance(st, ast.Expr) and isinstance(st.value, ast.Constant))]
        if not body or not isinstance(body[-1], ast.Return) or body[-1].value is None:
            raise Unsupported("helper %s does not end with a return" % name)
        sub.run(body[:-1])
        return [(self._and(guard, g), k, v) for g, k, v in sub.ev(body[-1].value, None)]

    def run(self, stmts, guard=None):
        for st in stmts:
            if isinstance(st, ast.Assign) and len(st.targets) == 1 and isinstance(st.targets[0], ast.Name):
                if guard is not None:
                    raise Unsupported("guarded assignment in field assembly")
                self.vars[st.targets[0].id] = self.ev(st.value, None)
            elif isinstance(st, ast.AugAssign) and isinstance(st.target, ast.Name) and isinstance(st.op, ast.Add) \
                    and st.target.id in self.vars:
                self.vars[st.target.id] = self.vars[st.target.id] + self.ev(st.value, guard)
            elif isinstance(st, ast.If) and isinstance(st.test, ast.Name) and st.test.id in self.slotof and not st.orelse:
                self.run(st.body, self._and(guard, self.slotof[st.test.id]))
            else:
                raise Unsupported("statement in field assembly: " + ast.unparse(st)[:80])


def _atoms_to_parts(atoms):
    """canonical `Part` list: maximal runs of equal guard, each cut into segments holding one slot"""
    # merge adjacent literals of equal guard
    merged = []
    for g, k, v in atoms:
        if merged and k == "lit" and merged[-1][1] == "lit" and merged[-1][0] == g:
            merged[-1] = (g, "lit", merged[-1][2] + v)
        else:
            merged.append((g, k, v))
    parts, i = [], 0
    while i < len(merged):
        g = merged[i][0]
        j = i
        while j < len(merged) and merged[j][0] == g:
            j += 1
        run = merged[i:j]
        slots = [x for x in run if x[1] == "slot"]
        if not slots:
            if g is not None:
                raise Unsupported("guarded literal part")
            parts.append("Part.lit %s" % lean_chars("".join(v for _g, _k, v in run)))
        else:
            pre, seen = "", 0
            for idx, (_g, k, v) in enumerate(run):
                if k == "lit":
                    pre += v
                    continue
                seen += 1
                post = ""
                if seen == len(slots):      # trailing literals belong to the last slot of the run
                    post = "".join(x[2] for x in run[idx + 1:])
                parts.append("Part.fmt %s %s %s %s" % (lean_chars(pre), v, lean_chars(post),
                                                       "none" if g is None else "(some %s)" % g))
                pre = ""
                if seen == len(slots):
                    break
        i = j
    return parts


def _field_parts(fn, cls):
    """what `_parse_without_formatting` re-assembles for a field and feeds verbatim, as an ordered `Part`
    list; the brace doubling of the literal.  `fn` has canonical loop variables (`_canon_loop`)."""
    loop = [n for n in ast.walk(fn) if isinstance(n, ast.For)][0]
    body = loop.body
    # 1. brace doubling, must come before the literal is fed
    st = body[0]
    ok = (isinstance(st, ast.If) and ast.unparse(st.body[0]) == "literal_text += literal_text[-1]" and len(st.body) == 1
          and not st.orelse and isinstance(st.test, ast.BoolOp) and isinstance(st.test.op, ast.And)
          and ast.unparse(st.test.values[0]) == "literal_text" and isinstance(st.test.values[1], ast.Compare)
          and ast.unparse(st.test.values[1].left) == "literal_text[-1]"
          and isinstance(st.test.values[1].ops[0], ast.In))
    if not ok:
        raise Unsupported("brace doubling statement has another shape: " + ast.unparse(st)[:80])
    doubled = _const_str(st.test.values[1].comparators[0])
    if ast.unparse(body[1]) != "parser.feed(literal_text, raw=recursive)":
        raise Unsupported("literal is not fed right after doubling")
    fld = body[2]
    if not (isinstance(fld, ast.If) and ast.unparse(fld.test) == "field_name is not None" and len(body) == 3):
        raise Unsupported("field branch shape")
    asm = _Assembly(cls, SLOT)
    fed = None
    for st in fld.body:
        if fed is None and isinstance(st, ast.If) and ast.unparse(st.test) in ("field_name == 'message'", "'message' == field_name"):
            stores = {n.id for n in ast.walk(st) if isinstance(n, ast.Name) and isinstance(n.ctx, ast.Store)}
            if stores & (set(asm.vars) | set(LOOP_VARS)):
                raise Unsupported("colour-slot branch assigns to the field text")
            continue  # colour slots (area Markup)
        if isinstance(st, ast.Expr) and isinstance(st.value, ast.Call) and ast.unparse(st.value.func) == "parser.feed":
            c = st.value
            if fed is not None or len(c.args) != 1:
                raise Unsupported("second feed in the field branch")
            fed = asm.ev(c.args[0], None)
            continue
        if fed is None:
            asm.run([st])
            continue
        # after the field is fed: only the recursion into the spec for colour slots
        if isinstance(st, ast.Assign) and isinstance(st.value, ast.Call) \
                and ast.unparse(st.value.func) == "Colorizer._parse_without_formatting":
            continue
        if isinstance(st, ast.Expr) and isinstance(st.value, ast.Call) and isinstance(st.value.func, ast.Attribute) \
                and st.value.func.attr in ("extend", "append") and ast.unparse(st.value.func.value) != "parser":
            continue
        raise Unsupported("unexpected statement after the field is fed: " + ast.unparse(st)[:80])
    if not fed:
        raise Unsupported("field is never fed")
    parts = _atoms_to_parts(fed)
    out = "/-- `literal_text[-1] in %r` -/\ndef doubledChars : Py.Str := %s\n" % (doubled, lean_chars(doubled))
    out += "/-- field re-assembly of `_parse_without_formatting`, in source order -/\n"
    out += "def fieldParts : List Part := [\n  " + ",\n  ".join(parts) + "]\n\n"
    return out


# ----------------------------------------------------------------------------- Round 5: Logger._log argument preparation
def _prep_cond(node):
    """guards of the preparation blocks of Logger._log over the option flags and the truthiness of args/kwargs"""
    if isinstance(node, ast.BoolOp):
        sym = " && " if isinstance(node.op, ast.And) else " || "
        return "(" + sym.join(_prep_cond(v) for v in node.values) + ")"
    if isinstance(node, ast.UnaryOp) and isinstance(node.op, ast.Not):
        return "(!%s)" % _prep_cond(node.operand)
    if isinstance(node, ast.Name) and node.id in ("lazy", "capture", "record", "colors"):
        return node.id
    if isinstance(node, ast.Name) and node.id in ("args", "kwargs"):
        return "hasArgs" if node.id == "args" else "hasKwargs"
    raise Unsupported("preparation guard " + ast.unparse(node))


def _guarded(st):
    """one top-level statement of _log -> (guard expression | None, [statements]); understands
    `if g: body` (no else) and `x = <value> if g else x`"""
    if isinstance(st, ast.If) and not st.orelse:
        return st.test, list(st.body)
    if isinstance(st, ast.Assign) and len(st.targets) == 1 and isinstance(st.targets[0], ast.Name) \
            and isinstance(st.value, ast.IfExp) and isinstance(st.value.orelse, ast.Name) \
            and st.value.orelse.id == st.targets[0].id:
        return st.value.test, [ast.copy_location(ast.Assign(targets=st.targets, value=st.value.body), st)]
    return None, [st]


def _lazy_part(st):
    """`args = [f() for f in args]` -> 'args'; `kwargs = {k: v() for k, v in kwargs.items()}` -> 'kwargs'"""
    if not (isinstance(st, ast.Assign) and len(st.targets) == 1 and isinstance(st.targets[0], ast.Name)):
        return None
    tgt, v = st.targets[0].id, st.value
    if tgt == "args" and isinstance(v, ast.ListComp) and len(v.generators) == 1:
        g = v.generators[0]
        if (isinstance(g.target, ast.Name) and not g.ifs and ast.unparse(g.iter) == "args" and isinstance(v.elt, ast.Call)
                and isinstance(v.elt.func, ast.Name) and v.elt.func.id == g.target.id and not v.elt.args and not v.elt.keywords):
            return "args"
    if tgt == "kwargs" and isinstance(v, ast.DictComp) and len(v.generators) == 1:
        g = v.generators[0]
        if (isinstance(g.target, ast.Tuple) and len(g.target.elts) == 2 and all(isinstance(e, ast.Name) for e in g.target.elts)
                and not g.ifs and ast.unparse(g.iter) == "kwargs.items()" and isinstance(v.key, ast.Name)
                and v.key.id == g.target.elts[0].id and isinstance(v.value, ast.Call) and isinstance(v.value.func, ast.Name)
                and v.value.func.id == g.target.elts[1].id and not v.value.args and not v.value.keywords):
            return "kwargs"
    return None


def _log_regions(log):
    """the top-level statements of Logger._log between `log_record = {...}` and the patchers, split into the argument
    preparation (blocks guarded by lazy / capture / record) and the message chain (everything that touches
    colored_message / colors / log_record['message']).  The preparation must be complete before the message is
    formatted; patchers run after it (they see, and may replace, the formatted message)."""
    body = log.body
    i_rec = [i for i, s in enumerate(body) if isinstance(s, ast.Assign) and ast.unparse(s.targets[0]) == "log_record"
             and isinstance(s.value, ast.Dict)]
    i_pat = [i for i, s in enumerate(body) if "patcher(log_record)" in ast.unparse(s)]
    if len(i_rec) != 1 or not i_pat or i_rec[0] > i_pat[0]:
        raise Unsupported("log_record = {...} / patchers not found at the top level of _log")
    prep, chain, formatting = [], [], False
    for st in body[i_rec[0] + 1:i_pat[0]]:
        src = ast.unparse(st)
        names = {n.id for n in ast.walk(st) if isinstance(n, ast.Name)}
        if "colored_message" in names or "colors" in names or "log_record['message']" in src:
            chain.append(st)
            if src != "colored_message = None":
                formatting = True
            continue
        g, _stmts = _guarded(st)
        gnames = {n.id for n in ast.walk(g) if isinstance(n, ast.Name)} if g is not None else set()
        if gnames & {"lazy", "capture", "record"}:
            if formatting:
                raise Unsupported("argument preparation after the message is formatted: " + src[:80])
            prep.append(st)
        elif names & {"args", "kwargs", "log_record", "message"}:
            raise Unsupported("statement on the arguments between the record and the patchers: " + src[:80])
    for st in body[:i_rec[0]]:
        if "colored_message" in ast.unparse(st):
            raise Unsupported("colored_message used before the record exists")
    for st in body[i_pat[0]:]:
        if "log_record['message'] =" in ast.unparse(st) or "colored_message =" in ast.unparse(st):
            raise Unsupported("message assigned after the patchers")
    if not chain:
        raise Unsupported("message chain of _log not found")
    return prep, chain, body[i_rec[0]].value


def _log_message_chain(log):
    return _log_regions(log)[1]


def _log_prep(log):
    """the statements of Logger._log between `log_record = {...}` and the `if colors:` chain: the lazy / capture /
    record blocks in SOURCE ORDER, their guards, the order in which the lazy block evaluates args and kwargs,
    the keyword the record is bound to and the conflict check that precedes the binding.  Anything else that
    touches args / kwargs / log_record there fails closed."""
    prep_stmts, _chain, rec = _log_regions(log)
    msg = [ast.unparse(v) for k, v in zip(rec.keys, rec.values) if isinstance(k, ast.Constant) and k.value == "message"]
    if msg != ["str(message)"]:
        raise Unsupported("log_record['message'] is not initialised with str(message): %r" % msg)
    steps, guards, lazy_order, key, checked = [], {}, [], None, False
    for st in prep_stmts:
        g, stmts = _guarded(st)
        names = {n.id for s in stmts for n in ast.walk(s) if isinstance(n, ast.Name)}
        if g is None:
            if names & {"args", "kwargs", "log_record", "message"}:
                raise Unsupported("unguarded statement on the arguments before the message chain: " + ast.unparse(st)[:80])
            continue
        kind = None
        for s in stmts:
            lp = _lazy_part(s)
            src = ast.unparse(s)
            if lp is not None:
                k2 = "forceLazy"
                if lp in lazy_order:
                    raise Unsupported("lazy block evaluates %s twice" % lp)
                lazy_order.append(lp)
            elif src == "log_record['extra'].update(kwargs)":
                k2 = "captureExtra"
            elif isinstance(s, ast.If) and not s.orelse and len(s.body) == 1 and isinstance(s.body[0], ast.Raise) \
                    and ast.unparse(s.body[0].exc).startswith("TypeError(") and isinstance(s.test, ast.Compare) \
                    and len(s.test.ops) == 1 and isinstance(s.test.ops[0], ast.In) \
                    and ast.unparse(s.test.comparators[0]) == "kwargs" and isinstance(s.test.left, ast.Constant):
                k2 = "bindRecord"
                if key is not None:
                    raise Unsupported("conflict check after the record is bound")
                checked = s.test.left.value
            elif (isinstance(s, ast.Expr) and isinstance(s.value, ast.Call) and ast.unparse(s.value.func) == "kwargs.update"
                  and not s.value.args and len(s.value.keywords) == 1 and ast.unparse(s.value.keywords[0].value) == "log_record"):
                k2, key = "bindRecord", s.value.keywords[0].arg
            elif (isinstance(s, ast.Assign) and len(s.targets) == 1 and isinstance(s.targets[0], ast.Subscript)
                  and ast.unparse(s.targets[0].value) == "kwargs" and isinstance(s.targets[0].slice, ast.Constant)
                  and ast.unparse(s.value) == "log_record"):
                k2, key = "bindRecord", s.targets[0].slice.value
            else:
                raise Unsupported("statement of a preparation block: " + src[:80])
            if kind not in (None, k2):
                raise Unsupported("one block mixes %s and %s" % (kind, k2))
            kind = k2
        if kind is None:
            raise Unsupported("empty preparation block")
        gs = _prep_cond(g)
        if kind in guards:
            if guards[kind] != gs or steps[-1] != kind:
                raise Unsupported("preparation step %s is split with different guards / interleaved" % kind)
        else:
            guards[kind] = gs
            steps.append(kind)
    if sorted(steps) != ["bindRecord", "captureExtra", "forceLazy"]:
        raise Unsupported("preparation blocks found: %r" % steps)
    if key is None or checked != key:
        raise Unsupported("record keyword %r is bound without the conflict check on the same key (%r)" % (key, checked))
    if sorted(lazy_order) != ["args", "kwargs"]:
        raise Unsupported("lazy block evaluates %r" % lazy_order)
    out = "/-- the blocks of `Logger._log` between `log_record = {…}` and the message chain, in source order -/\n"
    out += "def logPrep : List PrepStep := [%s]\n" % ", ".join("PrepStep." + s for s in steps)
    out += "/-- the order in which the `lazy` block calls the arguments -/\n"
    out += "def lazyOrder : List LazyPart := [%s]\n" % ", ".join("LazyPart." + s for s in lazy_order)
    out += "def lazyGuard (lazy capture record colors hasArgs hasKwargs : Bool) : Bool := %s\n" % guards["forceLazy"]
    out += "def captureGuard (lazy capture record colors hasArgs hasKwargs : Bool) : Bool := %s\n" % guards["captureExtra"]
    out += "def recordGuard (lazy capture record colors hasArgs hasKwargs : Bool) : Bool := %s\n" % guards["bindRecord"]
    out += "/-- the keyword `opt(record=True)` binds the record to; a caller's keyword of that name is a `TypeError` -/\n"
    out += "def recordKey : Py.Str := %s\n\n" % lean_chars(key)
    return out


def _cond(node):
    """conditions of Handler.emit / Logger._log over the four/three boolean inputs"""
    if isinstance(node, ast.BoolOp):
        sym = " && " if isinstance(node.op, ast.And) else " || "
        return "(" + sym.join(_cond(v) for v in node.values) + ")"
    if isinstance(node, ast.UnaryOp) and isinstance(node.op, ast.Not):
        return "(!%s)" % _cond(node.operand)
    src = ast.unparse(node)
    table = {"is_raw": "isRaw", "self._is_formatter_dynamic": "dynamic", "self._colorize": "colorize",
             "colored_message is None": "cmNone", "colored_message is not None": "(!cmNone)",
             "args": "hasArgs", "kwargs": "hasKwargs", "colors": "colors"}
    if src in table:
        return table[src]
    raise Unsupported("condition " + src)


PRE = {"self._memoize_dynamic_format(dynamic_format)": ("precomputed_format", "Precomputed.dynStripped"),
       "self._memoize_dynamic_format(dynamic_format, ansi_level)": (None, "Precomputed.dynColored"),
       "self._decolorized_format": ("precomputed_format", "Precomputed.staticStripped"),
       "self._precolorized_formats[level_id]": ("precomputed_format", "Precomputed.staticColored")}


def _emit_leaf(stmts):
    pre, coloring, res = None, False, None
    for st in stmts:
        src = ast.unparse(st)
        if isinstance(st, ast.Assign):
            tgt, val = ast.unparse(st.targets[0]), ast.unparse(st.value)
            if tgt == "formatted":
                if val == "record['message']":
                    res = "Branch.rawMessage"
                elif val == "colored_message.colorize(ansi_level)":
                    res = "Branch.rawColored"
                elif val == "precomputed_format.format_map(formatter_record)":
                    if pre is None:
                        raise Unsupported("format_map on an unknown precomputed format")
                    res = "Branch.formatMap %s %s" % (pre, "true" if coloring else "false")
                else:
                    raise Unsupported("formatted = " + val)
            elif val in PRE and tgt in ("precomputed_format", "(_, precomputed_format)", "(formatter, precomputed_format)"):
                pre = PRE[val][1]
            elif tgt == "ansi_level" or tgt == "coloring_message":
                continue
            elif tgt == "formatter_record['message']" and val == "coloring_message":
                coloring = True
            else:
                raise Unsupported("emit statement " + src[:80])
        else:
            raise Unsupported("emit statement " + src[:80])
    if res is None:
        raise Unsupported("branch without `formatted = ...`")
    return res


def _emit_tree(node_list):
    """if/elif/else chain -> Lean if-expression"""
    if len(node_list) == 1 and isinstance(node_list[0], ast.If):
        n = node_list[0]
        if not n.orelse:
            raise Unsupported("if without else in emit's formatting chain")
        return "(if %s then %s else %s)" % (_cond(n.test), _emit_tree(n.body), _emit_tree(n.orelse))
    return "(" + _emit_leaf(node_list) + ")"


# ----------------------------------------------------------------------------- Round 5: decision chains as truth tables
# The `if/elif/else` chains of Logger._log (message) and Handler.emit (formatting) are no longer translated
# syntactically: they are EXECUTED abstractly for every assignment of their boolean inputs and emitted as a
# canonical decision table.  Any restructuring that keeps the decisions (hoisted `colored_message = None`, merged
# branches, nested ifs, renamed temporaries) yields the byte-identical table; a changed decision changes a row.
import itertools


def _beval(node, atoms, env):
    """evaluate a condition over boolean atoms (source text -> variable, or '!variable')"""
    if isinstance(node, ast.BoolOp):
        vals = [_beval(v, atoms, env) for v in node.values]
        return all(vals) if isinstance(node.op, ast.And) else any(vals)
    if isinstance(node, ast.UnaryOp) and isinstance(node.op, ast.Not):
        return not _beval(node.operand, atoms, env)
    src = ast.unparse(node)
    if src in atoms:
        a = atoms[src]
        return (not env[a[1:]]) if a.startswith("!") else env[a]
    raise Unsupported("condition " + src)


def _lean_table(name, params, ret, rows, doc):
    """`def name (params : Bool) : ret := match … with | rows`"""
    out = "/-- %s -/\n" % doc
    out += "def %s (%s : Bool) : %s :=\n  match %s with\n" % (name, " ".join(params), ret, ", ".join(params))
    for vals, res in rows:
        out += "  | %s => %s\n" % (", ".join("true" if v else "false" for v in vals), res)
    return out + "\n"


MSG_ATOMS = {"colors": "colors", "args": "hasArgs", "kwargs": "hasKwargs"}


def _message_chain(stmts, env, st):
    """abstract execution of the message chain of _log: st = {'cm': …, 'msg': …}"""
    for s in stmts:
        src = ast.unparse(s)
        if isinstance(s, ast.If):
            _message_chain(s.body if _beval(s.test, MSG_ATOMS, env) else s.orelse, env, st)
        elif src == "colored_message = None":
            st["cm"] = "none"
        elif src == "colored_message = Colorizer.prepare_message(message, args, kwargs)":
            st["cm"] = "MsgBranch.coloredFormat"
        elif src == "colored_message = Colorizer.prepare_simple_message(str(message))":
            st["cm"] = "MsgBranch.coloredSimple"
        elif src == "log_record['message'] = colored_message.stripped":
            if st["cm"] in (None, "none"):
                raise Unsupported("colored_message.stripped read while colored_message is None/unset")
            st["msg"] = st["cm"]
        elif src == "log_record['message'] = message.format(*args, **kwargs)":
            st["msg"] = "MsgBranch.strFormat"
        else:
            raise Unsupported("message chain statement " + src[:100])


def _message_table(chain):
    rows = []
    for vals in itertools.product([False, True], repeat=3):
        env = dict(zip(("colors", "hasArgs", "hasKwargs"), vals))
        st = {"cm": None, "msg": "MsgBranch.untouched"}
        _message_chain(chain, env, st)
        if st["cm"] is None:
            raise Unsupported("colored_message is not set on every path of the message chain")
        # the message is the coloured one exactly when a coloured message is handed to the handlers
        if (st["cm"] != "none") != (st["msg"] in ("MsgBranch.coloredFormat", "MsgBranch.coloredSimple")):
            raise Unsupported("colored_message and record['message'] disagree on a path of the message chain")
        rows.append((vals, st["msg"]))
    return _lean_table("messageBranch", ["colors", "hasArgs", "hasKwargs"], "MsgBranch", rows,
                       "what `Logger._log` does with the message, for every value of `colors`, `bool(args)`, `bool(kwargs)` "
                       "(decision table obtained by executing the `if colors: … elif args or kwargs: …` chain)")


EMIT_ATOMS = {"is_raw": "isRaw", "self._is_formatter_dynamic": "dynamic", "self._colorize": "colorize",
              "colored_message is None": "cmNone", "colored_message is not None": "!cmNone"}


def _emit_chain(stmts, env, st):
    for s in stmts:
        src = ast.unparse(s)
        if isinstance(s, ast.If):
            _emit_chain(s.body if _beval(s.test, EMIT_ATOMS, env) else s.orelse, env, st)
            continue
        if not isinstance(s, ast.Assign) or len(s.targets) != 1:
            raise Unsupported("emit statement " + src[:80])
        tgt, val = s.targets[0], ast.unparse(s.value)
        tsrc = ast.unparse(tgt)
        if tsrc == "formatted":
            if val == "record['message']":
                st["res"] = "Branch.rawMessage"
            elif val == "colored_message.colorize(ansi_level)":
                if env["cmNone"]:
                    raise Unsupported("colored_message.colorize reached with colored_message None")
                st["res"] = "Branch.rawColored"
            elif val == "precomputed_format.format_map(formatter_record)":
                if st["pre"] is None:
                    raise Unsupported("format_map on an unknown precomputed format")
                st["res"] = "Branch.formatMap %s %s" % (st["pre"], "true" if st["coloring"] else "false")
            else:
                raise Unsupported("formatted = " + val)
        elif val in PRE and (tsrc == "precomputed_format" or (
                isinstance(tgt, ast.Tuple) and len(tgt.elts) == 2 and all(isinstance(e, ast.Name) for e in tgt.elts)
                and tgt.elts[1].id == "precomputed_format")):
            if (PRE[val][0] is None) != isinstance(tgt, ast.Tuple):
                raise Unsupported("emit statement " + src[:80])
            st["pre"] = PRE[val][1]
        elif tsrc == "ansi_level" and val == "self._levels_ansi_codes[level_id]":
            continue
        elif tsrc == "coloring_message" and ".make_coloring_message(" in val:
            if env["cmNone"]:
                raise Unsupported("make_coloring_message reached with colored_message None")
            continue
        elif tsrc == "formatter_record['message']" and val == "coloring_message":
            st["coloring"] = True
        else:
            raise Unsupported("emit statement " + src[:80])


def _emit_table(chain):
    rows = []
    for vals in itertools.product([False, True], repeat=4):
        env = dict(zip(("isRaw", "dynamic", "colorize", "cmNone"), vals))
        st = {"pre": None, "coloring": False, "res": None}
        _emit_chain(chain, env, st)
        if st["res"] is None:
            raise Unsupported("a path of emit's formatting chain leaves `formatted` unset")
        rows.append((vals, st["res"]))
    return _lean_table("emitBranch", ["isRaw", "dynamic", "colorize", "cmNone"], "Branch", rows,
                       "the raw / dynamic / static × colorize × coloured-message decisions of `Handler.emit` "
                       "(decision table obtained by executing the chain for every input)")


def _cm_dropped(em, chain_line):
    """`if colored_message is not None and colored_message.stripped != record["message"]: colored_message = None`
    – the statements before the formatting chain that reset colored_message, as a table over
    (a coloured message was handed over, its stripped text differs from record["message"])"""
    atoms = {"colored_message is not None": "given", "colored_message is None": "!given",
             "colored_message.stripped != record['message']": "differs",
             "colored_message.stripped == record['message']": "!differs",
             "record['message'] != colored_message.stripped": "differs"}
    resets = [n for n in ast.walk(em) if isinstance(n, ast.If) and n.lineno < chain_line and any(
        ast.unparse(x) == "colored_message = None" for x in ast.walk(n) if isinstance(x, ast.Assign))]
    resets = [n for n in resets if not any(n is not m and n in list(ast.walk(m)) for m in resets)]
    if not resets:
        raise Unsupported("emit never compares colored_message.stripped with record['message']")
    def execute(stmts, env, st):
        for x in stmts:
            if isinstance(x, ast.If):
                # `and` short-circuits: `.stripped` is only read when a coloured message is (still) there
                execute(x.body if _beval(x.test, atoms, dict(env, given=st["cm"])) else x.orelse, env, st)
            elif ast.unparse(x) == "colored_message = None":
                st["cm"] = False
            elif isinstance(x, ast.Pass):
                continue
            else:
                raise Unsupported("reset of colored_message: " + ast.unparse(x)[:80])
    rows = []
    for vals in itertools.product([False, True], repeat=2):
        env = dict(zip(("given", "differs"), vals))
        st = {"cm": env["given"]}
        execute(resets, env, st)
        rows.append((vals, "true" if (env["given"] and not st["cm"]) else "false"))
    return _lean_table("cmDropped", ["given", "differs"], "Bool", rows,
                       "is the coloured message handed to `emit` discarded before formatting (a patcher replaced "
                       "`record[\"message\"]`)")


def _memoize(htree):
    """`memoize(function)` is `functools.lru_cache(maxsize=N)(function)`; both prepare functions are memoised"""
    fn = find_func(htree, "memoize")
    rets = [n for n in ast.walk(fn) if isinstance(n, ast.Return)]
    if len(rets) != 1:
        raise Unsupported("memoize has %d return statements" % len(rets))
    c = rets[0].value
    ok = (isinstance(c, ast.Call) and len(c.args) == 1 and ast.unparse(c.args[0]) == fn.args.args[0].arg and not c.keywords
          and isinstance(c.func, ast.Call) and ast.unparse(c.func.func) in ("functools.lru_cache", "lru_cache")
          and not c.func.args and [k.arg for k in c.func.keywords] == ["maxsize"]
          and isinstance(c.func.keywords[0].value, ast.Constant) and isinstance(c.func.keywords[0].value.value, int)
          and not isinstance(c.func.keywords[0].value.value, bool) and c.func.keywords[0].value.value >= 0)
    if not ok:
        raise Unsupported("memoize is not functools.lru_cache(maxsize=<int>)(function): " + ast.unparse(rets[0])[:80])
    calls = [ast.unparse(n) for n in ast.walk(htree) if isinstance(n, ast.Call) and ast.unparse(n.func) == "memoize"]
    counts = [calls.count("memoize(%s)" % f) for f in ("prepare_colored_format", "prepare_stripped_format")]
    if counts[0] < 1 or counts[0] != counts[1] or len(calls) != counts[0] + counts[1]:
        raise Unsupported("the dynamic-format memoizers are not memoize(prepare_colored_format) / memoize(prepare_stripped_format)")
    out = "/-- `functools.lru_cache(maxsize=…)` around the preparation of a dynamic format -/\n"
    out += "def memoizeMaxsize : Nat := %d\n\n" % c.func.keywords[0].value.value
    return out


SINK_KINDS = [("File", "PathLike"), ("Stream", "'write'"), ("Standard", "logging.Handler"),
              ("Coroutine", "iscoroutinefunction"), ("Callable", "callable(sink)")]


def _terminators(add):
    """the terminator of each sink kind: the last constant assigned in the kind's branch of the sink dispatch,
    or the constant assigned before the dispatch when the branch assigns none"""
    chain = [n for n in add.body if isinstance(n, ast.If) and "PathLike" in ast.unparse(n.test)]
    if len(chain) != 1:
        raise Unsupported("sink dispatch of Logger.add")
    default = None
    for n in add.body:
        if n is chain[0]:
            break
        if isinstance(n, ast.Assign) and ast.unparse(n.targets[0]) == "terminator":
            default = _const_str(n.value)
        elif any(isinstance(x, ast.Name) and x.id == "terminator" and isinstance(x.ctx, ast.Store) for x in ast.walk(n)):
            raise Unsupported("terminator assigned inside a compound statement before the sink dispatch")
    branches, n = [], chain[0]
    while True:
        branches.append((ast.unparse(n.test), n.body))
        if len(n.orelse) == 1 and isinstance(n.orelse[0], ast.If):
            n = n.orelse[0]
        else:
            break
    for n2 in add.body[add.body.index(chain[0]) + 1:]:
        if any(isinstance(x, ast.Name) and x.id == "terminator" and isinstance(x.ctx, ast.Store) for x in ast.walk(n2)):
            raise Unsupported("terminator assigned after the sink dispatch")
    if len(branches) != len(SINK_KINDS):
        raise Unsupported("sink dispatch has %d branches" % len(branches))
    out = ""
    for (kind, mark), (test, body) in zip(SINK_KINDS, branches):
        if mark not in test:
            raise Unsupported("sink dispatch branch for %s: %s" % (kind, test[:60]))
        v = default
        for st in body:
            if isinstance(st, ast.Assign) and ast.unparse(st.targets[0]) == "terminator":
                v = _const_str(st.value)
            elif any(isinstance(x, ast.Name) and x.id == "terminator" and isinstance(x.ctx, ast.Store) for x in ast.walk(st)):
                raise Unsupported("terminator assigned in a nested statement of the %s branch" % kind)
        if v is None:
            raise Unsupported("no terminator for " + kind)
        out += "def terminator%s : Py.Str := %s\n" % (kind, lean_chars(v))
    return out + "\n"


def generate():
    errors = []
    body = "import LoguruModel.Format.Base\nset_option linter.unusedVariables false\nnamespace Format.Gen\nopen Format\n\n"
    try:
        ctree, _ = parse_module("_colorizer.py")
        from extract_lib import find_class
        ccls = find_class(ctree, "Colorizer")
        pwf = _canon_loop(find_func(ctree, "_parse_with_formatting", "Colorizer"))
        pwo = _canon_loop(find_func(ctree, "_parse_without_formatting", "Colorizer"))
        body += _depth_kernels(pwf, "With")
        body += _depth_kernels(pwo, "Without")
        a = _kwdefault(pwf, "auto_arg_index")
        if not (isinstance(a, ast.Constant) and isinstance(a.value, int) and not isinstance(a.value, bool)):
            raise Unsupported("auto_arg_index default")
        body += "def autoArgIndexDefault : Nat := %d\n\n" % a.value
        body += _numbering_rule(pwf)
        body += _field_eval(pwf)
        body += _feed_rules(pwf, "With")
        body += _feed_rules(pwo, "Without")
        body += _field_parts(pwo, ccls)
        # prepare_format / prepare_message call the parsers with defaults only
        for name, callee, nargs in (("prepare_format", "Colorizer._parse_without_formatting", 1),
                                    ("prepare_message", "Colorizer._parse_with_formatting", 3)):
            fn = find_func(ctree, name, "Colorizer")
            calls = [n for n in ast.walk(fn) if isinstance(n, ast.Call) and ast.unparse(n.func) == callee]
            if len(calls) != 1 or calls[0].keywords or len(calls[0].args) != nargs:
                raise Unsupported("%s does not call %s with default depth" % (name, callee))

        # Logger.add: format + terminator + "{exception}"
        ltree, _ = parse_module("_logger.py")
        add = find_func(ltree, "add", "Logger")
        comp = [n for n in ast.walk(add) if isinstance(n, ast.Call) and ast.unparse(n.func) == "Colorizer.prepare_format"]
        if len(comp) != 1 or len(comp[0].args) != 1:
            raise Unsupported("prepare_format call in Logger.add")
        env = {"format": ("format", "str"), "terminator": ("terminator", "str")}
        term, t = Tr(env).tr(comp[0].args[0])
        Tr.need(t, "str")
        body += "/-- `%s` -/\n" % ast.unparse(comp[0].args[0])
        body += "def composeFormat (format terminator : Py.Str) : Py.Str := %s\n" % term
        body += _terminators(add)

        # Logger._log: which formatter the message goes through
        log = find_func(ltree, "_log", "Logger")
        chain = _log_message_chain(log)
        body += _message_table(chain)
        body += _log_prep(log)

        # Handler.emit: the formatting chain
        htree, _ = parse_module("_handler.py")
        em = find_func(htree, "emit", "Handler")
        chain = [s for s in ast.walk(em) if isinstance(s, ast.If) and ast.unparse(s.test) in ("is_raw", "not is_raw")]
        if len(chain) != 1:
            raise Unsupported("`if is_raw:` chain of Handler.emit")
        body += _emit_table(chain)
        body += _cm_dropped(em, chain[0].lineno)
        body += _memoize(htree)
        # dynamic formats are prepared by prepare_format without any suffix; Message(formatted) is what the sink gets
        for fname in ("prepare_stripped_format", "prepare_colored_format"):
            fn = find_func(htree, fname)
            if "Colorizer.prepare_format(format_)" not in ast.unparse(fn):
                raise Unsupported(fname + " does not call Colorizer.prepare_format(format_)")
        src = ast.unparse(em)
        if "str_record = Message(formatted)" not in src:
            raise Unsupported("emit does not wrap `formatted` into Message")
    except (Unsupported, SyntaxError, KeyError, AttributeError, IndexError) as e:
        errors.append("%s: %s" % (type(e).__name__, e))
    body += "\nend Format.Gen\n"
    return emit("Format", body, ["loguru/_colorizer.py", "loguru/_logger.py", "loguru/_handler.py"], errors)
