"""Generated/WorkerShape.lean: where the enqueue worker thread produces output relative to `_queue_lock` (C15, model
Conc/ForkWorker.lean).  Kept apart from QueueShape so that C15 does not depend on the other shapes of C03."""
import ast

from extract_lib import Unsupported, emit, find_func, parse_module


def generate():
    errors = []
    body = "namespace Worker.ShapeGen\n\n"
    try:
        tree, _ = parse_module("_handler.py")
        qw = find_func(tree, "_queued_writer", cls="Handler")
        # everything the worker thread outputs (sink write, error report on sys.stderr) happens under `lock`
        # (= self._queue_lock, which acquire_locks() takes before a fork)
        aliases = [ast.unparse(n.targets[0]) for n in qw.body if isinstance(n, ast.Assign) and len(n.targets) == 1
                   and ast.unparse(n.value) == "self._queue_lock"]
        lock_names = set(aliases) | {"self._queue_lock"}

        def outputs(node):
            return [c for c in ast.walk(node) if isinstance(c, ast.Call) and ast.unparse(c.func) in
                    ("self._sink.write", "self._error_interceptor.print")]

        all_out = outputs(qw)
        locked = []
        for w in ast.walk(qw):
            if isinstance(w, ast.With) and len(w.items) == 1 and ast.unparse(w.items[0].context_expr) in lock_names:
                locked.extend(outputs(w))
        if not any(ast.unparse(c.func) == "self._sink.write" for c in all_out):
            raise Unsupported("_queued_writer does not call self._sink.write")
        body += "/-- every sink write and every error report of the worker thread is lexically inside `with <queue lock>` -/\n"
        body += "def workerOutputUnderLock : Bool := %s\n\n" % (
            "true" if all(any(c is l for l in locked) for c in all_out) else "false")
    except (Unsupported, SyntaxError, KeyError, AttributeError, IndexError) as e:
        errors.append("%s: %s" % (type(e).__name__, e))
    body += "end Worker.ShapeGen\n"
    return emit("WorkerShape", body, ["loguru/_handler.py"], errors)
