"""Generated/Catch.lean from loguru/_logger.py, `Logger.catch` (C16).

Extracted: the early-return tests of `Catcher.__exit__` in source order, the effectful tail of
`__exit__` (flag set / `_log` inside try / flag reset in finally / onerror / `return not reraise`),
the depth increment for decorators, the `return not reraise` kernel, the `from_decorator` constants
of the two `Catcher(...)` constructions, the shape of the four wrapper branches of
`Catcher.__call__`, the pass-through `athrow` and `aclose`, `__anext__` = `asend(None)`, the `_frames` depth adjustment, and the delegation of `__aenter__/__aexit__`.
Fails closed on any other shape.
"""
import ast

from extract_lib import Tr, Unsupported, emit, lean_chars, parse_module

U = ast.unparse


def _find_catch(tree):
    for node in ast.walk(tree):
        if isinstance(node, ast.ClassDef) and node.name == "Logger":
            for sub in node.body:
                if isinstance(sub, ast.FunctionDef) and sub.name == "catch":
                    return sub
    raise Unsupported("Logger.catch not found")


def _strip_doc(body):
    if body and isinstance(body[0], ast.Expr) and isinstance(body[0].value, ast.Constant) \
            and isinstance(body[0].value.value, str):
        return body[1:]
    return body


def _methods(cls):
    return {n.name: n for n in cls.body if isinstance(n, (ast.FunctionDef, ast.AsyncFunctionDef))}


def _is_return_const(stmt, value):
    return isinstance(stmt, ast.Return) and (
        (stmt.value is None and value is None)
        or (isinstance(stmt.value, ast.Constant) and stmt.value.value is value))


def _exit(fn):
    """returns (tests, effects, depth_incr, return_expr, default_frames)"""
    ar = fn.args
    if [a.arg for a in ar.args] != ["self", "type_", "value", "traceback_"] or ar.vararg or ar.kwarg \
            or ar.posonlyargs or ar.defaults:
        raise Unsupported("__exit__ signature: " + U(fn.args))
    # keyword-only `_frames=<int>`: extra frames between __exit__ and the block (set by __aexit__)
    if [a.arg for a in ar.kwonlyargs] != ["_frames"] or len(ar.kw_defaults) != 1 \
            or not isinstance(ar.kw_defaults[0], ast.Constant) or type(ar.kw_defaults[0].value) is not int \
            or ar.kw_defaults[0].value < 0:
        raise Unsupported("__exit__ signature (expected keyword-only _frames=<n>): " + U(fn.args))
    default_frames = ar.kw_defaults[0].value
    body = _strip_doc(fn.body)
    tests = []
    i = 0
    known = {
        "type_ is None": ("noneType", None),
        "getattr(logger._core.thread_locals, 'already_logging_exception', False)": ("guardFlag", False),
        "not issubclass(type_, exception)": ("notSubclass", False),
        "exclude is not None and issubclass(type_, exclude)": ("excluded", False),
    }
    while i < len(body) and isinstance(body[i], ast.If) and U(body[i].test) in known:
        name, ret = known[U(body[i].test)]
        st = body[i]
        if st.orelse or len(st.body) != 1 or not _is_return_const(st.body[0], ret):
            raise Unsupported("early return of test %s: %s" % (name, U(st)))
        tests.append(name)
        i += 1
    rest = body[i:]
    effects = []
    depth_incr = None
    flag = "logger._core.thread_locals.already_logging_exception"
    saw_options = False
    saw_frames = False
    ret_expr = None
    for st in rest:
        s = U(st)
        if s == "from_decorator = self._from_decorator":
            continue
        if s == "_, depth, _, *options = logger._options":
            saw_options = True
            continue
        if isinstance(st, ast.If) and U(st.test) == "from_decorator" and not st.orelse and len(st.body) == 1:
            b = st.body[0]
            if isinstance(b, ast.AugAssign) and isinstance(b.op, ast.Add) and U(b.target) == "depth" \
                    and isinstance(b.value, ast.Constant) and isinstance(b.value.value, int):
                depth_incr = b.value.value
            elif isinstance(b, ast.Assign) and U(b.targets[0]) == "depth" and isinstance(b.value, ast.BinOp) \
                    and isinstance(b.value.op, ast.Add) and U(b.value.left) == "depth" \
                    and isinstance(b.value.right, ast.Constant) and isinstance(b.value.right.value, int):
                depth_incr = b.value.right.value
            else:
                raise Unsupported("depth adjustment: " + s)
            if depth_incr < 0:
                raise Unsupported("negative depth adjustment")
            continue
        if s == "depth += _frames" or s == "depth = depth + _frames":
            if depth_incr is None or saw_frames or effects:
                raise Unsupported("`depth += _frames` is misplaced or repeated")
            saw_frames = True
            continue
        if s == "catch_options = [(type_, value, traceback_), depth, True, *options]":
            if not saw_frames:
                raise Unsupported("catch_options built before `depth += _frames`")
            continue
        if s == flag + " = True":
            effects.append("setFlag")
            continue
        if isinstance(st, ast.Try):
            if st.handlers or st.orelse or len(st.body) != 1 or len(st.finalbody) != 1:
                raise Unsupported("try shape: " + s)
            if U(st.body[0]) != "logger._log(level, from_decorator, catch_options, message, (), {})":
                raise Unsupported("_log call: " + U(st.body[0]))
            if U(st.finalbody[0]) != flag + " = False":
                raise Unsupported("finally body: " + U(st.finalbody[0]))
            effects += ["logInTry", "resetFlagInFinally"]
            continue
        if isinstance(st, ast.If) and U(st.test) == "onerror is not None" and not st.orelse \
                and len(st.body) == 1 and U(st.body[0]) == "onerror(value)":
            effects.append("onerrorIfNotNone")
            continue
        if isinstance(st, ast.Return) and st is rest[-1]:
            ret_expr = st.value
            effects.append("returnNotReraise")
            continue
        raise Unsupported("unexpected statement in __exit__: " + s)
    if not saw_options or depth_incr is None or ret_expr is None or not saw_frames:
        raise Unsupported("__exit__ misses options/depth/_frames/return")
    return tests, effects, depth_incr, ret_expr, default_frames


def _call_args_ok(call):
    return isinstance(call, ast.Call) and U(call) == "function(*args, **kwargs)"


def _wrapper_fn(fn, catcher_name):
    """`def catch_wrapper(*args, **kwargs): with catcher: return <inner>` / `return default`"""
    if U(fn.args) != "*args, **kwargs" or fn.decorator_list:
        raise Unsupported("wrapper signature: " + U(fn.args))
    body = _strip_doc(fn.body)
    if len(body) != 2 or not isinstance(body[0], ast.With):
        raise Unsupported("wrapper body: " + U(fn))
    w = body[0]
    if len(w.items) != 1 or U(w.items[0].context_expr) != catcher_name or w.items[0].optional_vars is not None:
        raise Unsupported("with item: " + U(w))
    if len(w.body) != 1 or not isinstance(w.body[0], ast.Return):
        raise Unsupported("with body is not a single return: " + U(w))
    v = w.body[0].value
    if isinstance(v, ast.Await) and _call_args_ok(v.value):
        inner = "awaitCall"
    elif isinstance(v, ast.YieldFrom) and _call_args_ok(v.value):
        inner = "yieldFromCall"
    elif _call_args_ok(v):
        inner = "plainCall"
    else:
        raise Unsupported("inside with: " + U(w.body[0]))
    if U(body[1]) != "return default":
        raise Unsupported("after with: " + U(body[1]))
    return isinstance(fn, ast.AsyncFunctionDef), inner, "returnDefault"


def _asyncgen_branch(stmts, catcher_name):
    if len(stmts) != 2 or not isinstance(stmts[0], ast.ClassDef) or not isinstance(stmts[1], ast.FunctionDef):
        raise Unsupported("async generator branch")
    cls, fn = stmts
    if [U(b) for b in cls.bases] != ["AsyncGenerator"] or cls.keywords or cls.decorator_list:
        raise Unsupported("wrapper class bases: " + U(cls)[:80])
    ms = _methods(cls)
    if sorted(ms) != ["__anext__", "__init__", "aclose", "asend", "athrow"]:
        raise Unsupported("wrapper class methods: %s" % sorted(ms))
    if len([n for n in cls.body if not (isinstance(n, ast.Expr) and isinstance(n.value, ast.Constant))]) != 5:
        raise Unsupported("wrapper class has other members")
    if U(ms["__init__"].args) != "self, gen" or [U(s) for s in _strip_doc(ms["__init__"].body)] != ["self._gen = gen"]:
        raise Unsupported("wrapper __init__")
    a = ms["asend"]
    if not isinstance(a, ast.AsyncFunctionDef) or U(a.args) != "self, value":
        raise Unsupported("asend signature")
    body = _strip_doc(a.body)
    want_with = ("with %s:\n    try:\n        return await self._gen.asend(value)\n    except StopAsyncIteration:\n"
                 "        pass\n    except:\n        raise" % catcher_name)
    if len(body) != 2 or U(body[0]) != want_with or U(body[1]) != "raise StopAsyncIteration":
        raise Unsupported("asend body: " + U(a))
    n = ms["__anext__"]
    # a plain method returning the asend coroutine itself, so that the frame awaiting `__anext__`
    # (the `async for`) is the caller of `asend` exactly as for an explicit `asend(None)`
    if not isinstance(n, ast.FunctionDef) or U(n.args) != "self" or n.decorator_list \
            or [U(s) for s in _strip_doc(n.body)] != ["return self.asend(None)"]:
        raise Unsupported("__anext__ is not `return self.asend(None)`: " + U(n))
    t = ms["athrow"]
    if not isinstance(t, ast.AsyncFunctionDef) or U(t.args) != "self, *args, **kwargs" \
            or [U(s) for s in _strip_doc(t.body)] != ["return await self._gen.athrow(*args, **kwargs)"]:
        raise Unsupported("athrow is not a plain pass-through: " + U(t))
    c = ms["aclose"]
    if not isinstance(c, ast.AsyncFunctionDef) or U(c.args) != "self" or c.decorator_list \
            or [U(s) for s in _strip_doc(c.body)] != ["return await self._gen.aclose()"]:
        raise Unsupported("aclose is not a plain pass-through to the wrapped generator's aclose: " + U(c))
    if U(fn.args) != "*args, **kwargs" or [U(s) for s in _strip_doc(fn.body)] != \
            ["gen = function(*args, **kwargs)", "return %s(gen)" % cls.name]:
        raise Unsupported("async generator catch_wrapper: " + U(fn))
    return True, "asendTry", "raiseStopAsyncIteration"


def generate():
    errors = []
    body = "import LoguruModel.Catch.Base\nset_option linter.unusedVariables false\nnamespace Catch.Gen\n\n"
    try:
        tree, _ = parse_module("_logger.py")
        catch = _find_catch(tree)
        cbody = _strip_doc(catch.body)
        catcher = [n for n in cbody if isinstance(n, ast.ClassDef)]
        if len(catcher) != 1:
            raise Unsupported("Catcher class not found")
        catcher = catcher[0]
        last = cbody[-1]
        if not (isinstance(last, ast.Return) and isinstance(last.value, ast.Call)
                and U(last.value.func) == catcher.name and len(last.value.args) == 1
                and isinstance(last.value.args[0], ast.Constant) and isinstance(last.value.args[0].value, bool)):
            raise Unsupported("catch() does not end with `return Catcher(<bool>)`")
        ctx_from_decorator = last.value.args[0].value
        ms = _methods(catcher)
        for need in ("__init__", "__enter__", "__exit__", "__call__", "__aenter__", "__aexit__"):
            if need not in ms:
                raise Unsupported("Catcher.%s missing" % need)
        if [U(s) for s in _strip_doc(ms["__init__"].body)] != ["self._from_decorator = from_decorator"]:
            raise Unsupported("Catcher.__init__")
        if [U(s) for s in _strip_doc(ms["__enter__"].body)] != ["return None"]:
            raise Unsupported("Catcher.__enter__")
        if not isinstance(ms["__aenter__"], ast.AsyncFunctionDef) or \
                [U(s) for s in _strip_doc(ms["__aenter__"].body)] != ["return self.__enter__()"]:
            raise Unsupported("Catcher.__aenter__ does not delegate to __enter__")
        ax = ms["__aexit__"]
        axb = _strip_doc(ax.body)
        if not isinstance(ax, ast.AsyncFunctionDef) or U(ax.args) != "self, type_, value, traceback_" or len(axb) != 1 \
                or not isinstance(axb[0], ast.Return) or not isinstance(axb[0].value, ast.Call):
            raise Unsupported("Catcher.__aexit__ does not delegate to __exit__")
        axc = axb[0].value
        if U(axc.func) != "self.__exit__" or [U(a) for a in axc.args] != ["type_", "value", "traceback_"] \
                or [k.arg for k in axc.keywords] != ["_frames"] or not isinstance(axc.keywords[0].value, ast.Constant) \
                or type(axc.keywords[0].value.value) is not int or axc.keywords[0].value.value < 0:
            raise Unsupported("Catcher.__aexit__ is not `return self.__exit__(type_, value, traceback_, _frames=<n>)`: " + U(axb[0]))
        async_frames = axc.keywords[0].value.value

        tests, effects, depth_incr, ret_expr, sync_frames = _exit(ms["__exit__"])
        term, typ = Tr({"reraise": ("reraise", "bool")}).tr(ret_expr)
        if typ != "bool":
            raise Unsupported("__exit__ return expression is not boolean")

        call = ms["__call__"]
        if U(call.args) != "self, function":
            raise Unsupported("__call__ signature")
        cb = _strip_doc(call.body)
        # if isclass(function): raise TypeError ; catcher = Catcher(True) ; if/elif chain ; update_wrapper ; return
        if len(cb) != 5 or not (isinstance(cb[0], ast.If) and U(cb[0].test) == "isclass(function)"
                                and len(cb[0].body) == 1 and isinstance(cb[0].body[0], ast.Raise)):
            raise Unsupported("__call__ prologue")
        asg = cb[1]
        if not (isinstance(asg, ast.Assign) and len(asg.targets) == 1 and isinstance(asg.targets[0], ast.Name)
                and isinstance(asg.value, ast.Call) and U(asg.value.func) == catcher.name and len(asg.value.args) == 1
                and isinstance(asg.value.args[0], ast.Constant) and isinstance(asg.value.args[0].value, bool)):
            raise Unsupported("catcher construction: " + U(asg))
        cname = asg.targets[0].id
        dec_from_decorator = asg.value.args[0].value
        shapes = []
        node = cb[2]
        wrapper_names = set()
        while True:
            if not isinstance(node, ast.If) or not (isinstance(node.test, ast.Call) and U(node.test.args[0]) == "function"
                                                    and len(node.test.args) == 1):
                raise Unsupported("branch test: " + U(node)[:60])
            pred = U(node.test.func)
            if pred == "isasyncgenfunction":
                sh = _asyncgen_branch(node.body, cname)
                wrapper_names.add(node.body[1].name)
            else:
                if len(node.body) != 1 or not isinstance(node.body[0], (ast.FunctionDef, ast.AsyncFunctionDef)):
                    raise Unsupported("branch body of " + pred)
                sh = _wrapper_fn(node.body[0], cname)
                wrapper_names.add(node.body[0].name)
            shapes.append((pred,) + sh)
            if len(node.orelse) == 1 and isinstance(node.orelse[0], ast.If):
                node = node.orelse[0]
                continue
            if len(node.orelse) != 1 or not isinstance(node.orelse[0], ast.FunctionDef):
                raise Unsupported("else branch")
            shapes.append(("",) + _wrapper_fn(node.orelse[0], cname))
            wrapper_names.add(node.orelse[0].name)
            break
        if len(wrapper_names) != 1:
            raise Unsupported("wrapper functions carry different names: %s" % sorted(wrapper_names))
        wname = wrapper_names.pop()
        if U(cb[3]) != "functools.update_wrapper(%s, function)" % wname or U(cb[4]) != "return " + wname:
            raise Unsupported("__call__ epilogue: %s / %s" % (U(cb[3]), U(cb[4])))

        body += "/-- early-return tests of `Catcher.__exit__`, in source order -/\n"
        body += "def exitTests : List ExitTest := [%s]\n\n" % ", ".join("." + t for t in tests)
        body += "/-- statements of `Catcher.__exit__` after the tests, in source order -/\n"
        body += "def exitEffects : List ExitEffect := [%s]\n\n" % ", ".join("." + e for e in effects)
        body += "/-- `if from_decorator: depth += %d` -/\ndef depthIncr : Nat := %d\n\n" % (depth_incr, depth_incr)
        body += "/-- `depth += _frames`; `__exit__(…, *, _frames=%d)` as the `with` statement calls it; " \
                "`__aexit__` calls `self.__exit__(…, _frames=%d)` (its own frame sits between) -/\n" % (sync_frames, async_frames)
        body += "def syncExitFrames : Nat := %d\ndef asyncExitFrames : Nat := %d\n\n" % (sync_frames, async_frames)
        body += "/-- `return %s` -/\ndef exitReturn (reraise : Bool) : Bool := %s\n\n" % (U(ret_expr), term)
        body += "/-- `catcher = Catcher(%s)` in `__call__`, `return Catcher(%s)` at the end of `catch()` -/\n" % (
            dec_from_decorator, ctx_from_decorator)
        body += "def decoratorFromDecorator : Bool := %s\n" % ("true" if dec_from_decorator else "false")
        body += "def contextFromDecorator : Bool := %s\n\n" % ("true" if ctx_from_decorator else "false")
        body += "/-- the branches of `Catcher.__call__`, in source order -/\n"
        body += "def shapes : List Shape := [\n" + ",\n".join(
            "  { test := %s, isAsync := %s, inner := .%s, after := .%s }" % (
                lean_chars(p), "true" if a else "false", i, f) for p, a, i, f in shapes) + "]\n\n"
        body += "/-- `AsyncGenCatchWrapper.athrow` is `return await self._gen.athrow(*args, **kwargs)` -/\n"
        body += "def athrowPassThrough : Bool := true\n"
        body += "/-- `AsyncGenCatchWrapper.aclose` is `return await self._gen.aclose()` -/\n"
        body += "def aclosePassThrough : Bool := true\n"
        body += "/-- `AsyncGenCatchWrapper.__anext__` is the plain method `return self.asend(None)` -/\n"
        body += "def anextIsAsendNone : Bool := true\n"
        body += "/-- `__aenter__/__aexit__` return `self.__enter__()` / `self.__exit__(type_, value, traceback_)` -/\n"
        body += "def asyncContextDelegates : Bool := true\n"
    except (Unsupported, SyntaxError, KeyError, AttributeError, IndexError) as e:
        errors.append("%s: %s" % (type(e).__name__, e))
    body += "\nend Catch.Gen\n"
    return emit("Catch", body, ["loguru/_logger.py"], errors)
