"""Generated/Catch.lean from loguru/_logger.py, `Logger.catch` (C16).

Extracted: the early-return tests of `Catcher.__exit__` in source order, the effectful tail of
`__exit__` (flag set / `_log` inside try / flag reset in finally / onerror / `return not reraise`),
the depth increment for decorators, the `return not reraise` kernel, the `from_decorator` constants
of the two `Catcher(...)` constructions, the shape of the four wrapper branches of
`Catcher.__call__`, the pass-through `athrow` and `aclose`, `__anext__` = `asend(None)`, the `_frames` depth adjustment, and the delegation of `__aenter__/__aexit__`.
Fails closed on any other shape.
"""
import ast

from extract_lib import Tr, Unsupported, emit, lean_chars, parse_module

U = ast.unparse


def _find_catch(tree):
    for node in ast.walk(tree):
        if isinstance(node, ast.ClassDef) and node.name == "Logger":
            for sub in node.body:
                if isinstance(sub, ast.FunctionDef) and sub.name == "catch":
                    return sub
    raise Unsupported("Logger.catch not found")


def _strip_doc(body):
    if body and isinstance(body[0], ast.Expr) and isinstance(body[0].value, ast.Constant) \
            and isinstance(body[0].value.value, str):
        return body[1:]
    return body


def _methods(cls):
    return {n.name: n for n in cls.body if isinstance(n, (ast.FunctionDef, ast.AsyncFunctionDef))}


def _is_return_const(stmt, value):
    return isinstance(stmt, ast.Return) and (
        (stmt.value is None and value is None)
        or (isinstance(stmt.value, ast.Constant) and stmt.value.value is value))


def _exit(fn):
    """returns (tests, effects, depth_incr, return_expr, default_frames, onerror_test)"""
    ar = fn.args
    if [a.arg for a in ar.args] != ["self", "type_", "value", "traceback_"] or ar.vararg or ar.kwarg \
            or ar.posonlyargs or ar.defaults:
        raise Unsupported("__exit__ signature: " + U(fn.args))
    # keyword-only `_frames=<int>`: extra frames between __exit__ and the block (set by __aexit__)
    if [a.arg for a in ar.kwonlyargs] != ["_frames"] or len(ar.kw_defaults) != 1 \
            or not isinstance(ar.kw_defaults[0], ast.Constant) or type(ar.kw_defaults[0].value) is not int \
            or ar.kw_defaults[0].value < 0:
        raise Unsupported("__exit__ signature (expected keyword-only _frames=<n>): " + U(fn.args))
    default_frames = ar.kw_defaults[0].value
    body = _strip_doc(fn.body)
    # ---- early returns.  Semantic content pinned: WHICH tests, in WHICH evaluation order, each one
    # leading to a falsy return (None / False: both mean "do not suppress").  Accepted spellings: one
    # `if` per test, several tests joined by `or` in one `if` (evaluated left to right), and the
    # exclude test as `if exclude is not None: if issubclass(type_, exclude): return False`.
    known = {
        "type_ is None": "noneType",
        "not issubclass(type_, exception)": "notSubclass",
        "exclude is not None and issubclass(type_, exclude)": "excluded",
    }
    store = [None]     # the object whose attribute `already_logging_exception` is the guard flag (READ, not assumed)

    def test_name(d):
        # `getattr(<store>, 'already_logging_exception', False)`: which object carries the flag is extracted
        if isinstance(d, ast.Call) and U(d.func) == "getattr" and len(d.args) == 3 and not d.keywords \
                and isinstance(d.args[1], ast.Constant) and d.args[1].value == "already_logging_exception" \
                and isinstance(d.args[2], ast.Constant) and d.args[2].value is False:
            if store[0] not in (None, U(d.args[0])):
                raise Unsupported("guard flag read from two different objects")
            store[0] = U(d.args[0])
            return "guardFlag"
        return known.get(U(d))

    def falsy_return(stmts):
        return len(stmts) == 1 and isinstance(stmts[0], ast.Return) and (
            stmts[0].value is None or (isinstance(stmts[0].value, ast.Constant)
                                       and (stmts[0].value.value is None or stmts[0].value.value is False)))

    def disjuncts(e):
        if isinstance(e, ast.BoolOp) and isinstance(e.op, ast.Or):
            out = []
            for v in e.values:
                out += disjuncts(v)
            return out
        return [e]

    tests = []
    i = 0
    while i < len(body) and isinstance(body[i], ast.If) and not body[i].orelse:
        st = body[i]
        if U(st.test) == "exclude is not None" and len(st.body) == 1 and isinstance(st.body[0], ast.If) \
                and not st.body[0].orelse and U(st.body[0].test) == "issubclass(type_, exclude)" \
                and falsy_return(st.body[0].body):
            tests.append("excluded")
            i += 1
            continue
        names = [test_name(d) for d in disjuncts(st.test)]
        if None in names or not falsy_return(st.body):
            break           # not an early return of known tests: judged as an ordinary statement below
        tests += names
        i += 1
    rest = body[i:]

    # ---- the effectful tail.  Local names are irrelevant (alpha-renaming); single-assignment aliases of
    # `self._from_decorator` and `logger._core.thread_locals` and of the options list are looked through.
    FD, TL = "self._from_decorator", (store[0] or "logger._core.thread_locals")
    alias = {}                    # local name -> canonical expression text
    depth_name = options_name = None
    optlist = None                # canonical text of the list handed to _log, once built
    optlist_name = None

    class Canon(ast.NodeTransformer):
        def visit_Name(self, node):
            if isinstance(node.ctx, ast.Load) and node.id in alias:
                return ast.parse(alias[node.id], mode="eval").body
            if node.id == depth_name:
                return ast.Name("DEPTH", node.ctx)
            if node.id == options_name:
                return ast.Name("OPTIONS", node.ctx)
            return node

    def canon(node):
        import copy
        return U(ast.fix_missing_locations(Canon().visit(copy.deepcopy(node))))

    def assigned_once(name):
        n = 0
        for node in ast.walk(fn):
            if isinstance(node, ast.Name) and node.id == name and isinstance(node.ctx, (ast.Store, ast.Del)):
                n += 1
        return n == 1

    def int_const(e):
        return isinstance(e, ast.Constant) and type(e.value) is int

    unpack = {}
    onerror_test = [None]
    phase = 0     # 0 prologue, 1 depth adjusted by decorator, 2 frames added, 3 list built, 4 flag set, 5 logged, 6 onerror, 7 returned
    effects = []
    depth_incr = None
    ret_expr = None
    flag = TL + ".already_logging_exception"
    want_list = "[(type_, value, traceback_), DEPTH, True, *OPTIONS]"
    for st in rest:
        s = U(st)
        # local alias of an attribute expression (any name, assigned exactly once)
        if phase <= 3 and isinstance(st, ast.Assign) and len(st.targets) == 1 and isinstance(st.targets[0], ast.Name) \
                and canon(st.value) in (FD, TL):
            if not assigned_once(st.targets[0].id):
                raise Unsupported("alias assigned more than once: " + s)
            alias[st.targets[0].id] = canon(st.value)
            continue
        # `_, depth, _, *options = logger._options`
        if phase == 0 and isinstance(st, ast.Assign) and len(st.targets) == 1 and isinstance(st.targets[0], ast.Tuple) \
                and U(st.value) == "logger._options" and depth_name is None:
            el = st.targets[0].elts
            if len(el) == 4 and all(isinstance(x, ast.Name) for x in el[:3]) and isinstance(el[3], ast.Starred) \
                    and isinstance(el[3].value, ast.Name) and len({el[0].id, el[1].id, el[3].value.id}) == 3 \
                    and el[1].id != el[2].id and el[3].value.id != el[2].id:
                depth_name, options_name = el[1].id, el[3].value.id
                # positions of `logger._options` that are read: the depth, the tail; the others are dropped
                unpack["depth_pos"] = 1
                unpack["dropped"] = [0, 2]
                unpack["rest_from"] = 3
                continue
            raise Unsupported("unpacking of logger._options: " + s)
        # decorator adjustment: `if from_decorator: depth += K` / `depth = depth + K` / `depth += K if from_decorator else 0`
        if phase == 0 and depth_name is not None:
            k = None
            if isinstance(st, ast.If) and canon(st.test) == FD and not st.orelse and len(st.body) == 1:
                b = st.body[0]
                if isinstance(b, ast.AugAssign) and isinstance(b.op, ast.Add) and canon(b.target) == "DEPTH" and int_const(b.value):
                    k = b.value.value
                elif isinstance(b, ast.Assign) and len(b.targets) == 1 and canon(b.targets[0]) == "DEPTH" \
                        and isinstance(b.value, ast.BinOp) and isinstance(b.value.op, ast.Add):
                    l, r = b.value.left, b.value.right
                    if canon(l) == "DEPTH" and int_const(r):
                        k = r.value
                    elif canon(r) == "DEPTH" and int_const(l):
                        k = l.value
                if k is None:
                    raise Unsupported("depth adjustment: " + s)
            elif isinstance(st, ast.AugAssign) and isinstance(st.op, ast.Add) and canon(st.target) == "DEPTH" \
                    and isinstance(st.value, ast.IfExp) and canon(st.value.test) == FD and int_const(st.value.body) \
                    and int_const(st.value.orelse) and st.value.orelse.value == 0:
                k = st.value.body.value
            if k is not None:
                if k < 0:
                    raise Unsupported("negative depth adjustment")
                depth_incr = k
                phase = 1
                continue
        # `depth += _frames`
        if phase == 1 and ((isinstance(st, ast.AugAssign) and isinstance(st.op, ast.Add) and canon(st.target) == "DEPTH"
                            and U(st.value) == "_frames")
                           or (isinstance(st, ast.Assign) and len(st.targets) == 1 and canon(st.targets[0]) == "DEPTH"
                               and canon(st.value) in ("DEPTH + _frames", "_frames + DEPTH"))):
            phase = 2
            continue
        # the options list (may also be written inline in the _log call)
        if phase == 2 and isinstance(st, ast.Assign) and len(st.targets) == 1 and isinstance(st.targets[0], ast.Name) \
                and canon(st.value) == want_list:
            if not assigned_once(st.targets[0].id):
                raise Unsupported("options list assigned more than once: " + s)
            optlist_name = st.targets[0].id
            phase = 3
            continue
        if phase in (2, 3) and isinstance(st, ast.Assign) and len(st.targets) == 1 and canon(st.targets[0]) == flag \
                and isinstance(st.value, ast.Constant) and st.value.value is True:
            effects.append("setFlag")
            phase = 4
            continue
        if phase == 4 and isinstance(st, ast.Try):
            if st.handlers or st.orelse or len(st.body) != 1 or len(st.finalbody) != 1:
                raise Unsupported("try shape: " + s)
            call = st.body[0].value if isinstance(st.body[0], ast.Expr) else None
            if not (isinstance(call, ast.Call) and U(call.func) == "logger._log" and not call.keywords and len(call.args) == 6):
                raise Unsupported("_log call: " + U(st.body[0]))
            a = call.args
            third = want_list if (optlist_name is not None and isinstance(a[2], ast.Name) and a[2].id == optlist_name) \
                else canon(a[2])
            if [U(a[0]), canon(a[1]), third, U(a[3]), U(a[4]), U(a[5])] != ["level", FD, want_list, "message", "()", "{}"]:
                raise Unsupported("_log call arguments: " + U(st.body[0]))
            f = st.finalbody[0]
            if not (isinstance(f, ast.Assign) and len(f.targets) == 1 and canon(f.targets[0]) == flag
                    and isinstance(f.value, ast.Constant) and f.value.value is False):
                raise Unsupported("finally body: " + U(f))
            effects += ["logInTry", "resetFlagInFinally"]
            phase = 5
            continue
        if phase == 5 and isinstance(st, ast.If) and U(st.test) in ("onerror is not None", "onerror") and not st.orelse \
                and len(st.body) == 1 and U(st.body[0]) == "onerror(value)":
            # which test guards the call is extracted (not assumed): `is not None` calls every callable,
            # a bare truthiness test skips callables that are falsy (`__len__() == 0`, `__bool__() is False`)
            effects.append("onerrorIfNotNone")
            onerror_test[0] = "isNotNone" if U(st.test) == "onerror is not None" else "truthy"
            phase = 6
            continue
        if phase in (5, 6) and isinstance(st, ast.Return) and st is rest[-1] and st.value is not None:
            ret_expr = st.value
            effects.append("returnNotReraise")
            phase = 7
            continue
        raise Unsupported("unexpected statement in __exit__ (phase %d): %s" % (phase, s))
    if phase != 7 or depth_incr is None:
        raise Unsupported("__exit__ misses options/depth/_frames/log/return")
    # the list handed to `_log` (checked above against `want_list`, whether assigned first or written inline)
    unpack["slots"] = ["excTriple", "depthAdjusted", "constTrue", "rest"]
    return tests, effects, depth_incr, ret_expr, default_frames, onerror_test[0], TL, unpack


def _fn_kind(fn):
    """the kind of function object a `def` statement creates (what `inspect.is*function` will say of it):
    `async` or not, with a `yield` / `yield from` of its own (nested scopes do not count) or not"""
    has_yield = [False]

    def walk(node):
        for child in ast.iter_child_nodes(node):
            if isinstance(child, (ast.FunctionDef, ast.AsyncFunctionDef, ast.Lambda, ast.ClassDef)):
                continue        # a scope of its own (a class body cannot yield on behalf of the function either)
            if isinstance(child, (ast.Yield, ast.YieldFrom)):
                has_yield[0] = True
            walk(child)
    for st in fn.body:
        if isinstance(st, (ast.FunctionDef, ast.AsyncFunctionDef, ast.ClassDef)):
            continue
        if isinstance(st, (ast.Yield, ast.YieldFrom)):
            has_yield[0] = True
        walk(st)
    if fn.decorator_list:
        raise Unsupported("decorated wrapper function: its kind is not syntactic")
    if isinstance(fn, ast.AsyncFunctionDef):
        return "asyncgen" if has_yield[0] else "coroutine"
    return "generator" if has_yield[0] else "plain"


def _flag_store(tree, store):
    """which storage the guard flag uses, from the expression `__exit__` reads/writes it through"""
    if store == "logger._core.thread_locals":
        # one flag per thread iff the Core creates a `threading.local()` (also after unpickling)
        core = [n for n in tree.body if isinstance(n, ast.ClassDef) and n.name == "Core"]
        if len(core) != 1:
            raise Unsupported("class Core not found")
        assigned = []
        for node in ast.walk(core[0]):
            if isinstance(node, ast.Assign) and any(U(t) == "self.thread_locals" for t in node.targets):
                assigned.append(U(node.value))
            elif isinstance(node, (ast.AugAssign, ast.AnnAssign)) and U(node.target) == "self.thread_locals":
                assigned.append("?")
        ok = {"threading.local()"}
        for node in tree.body:                      # `from threading import local` -> `local()` is the same object
            if isinstance(node, ast.ImportFrom) and node.module == "threading" and node.level == 0:
                ok |= {"%s()" % (al.asname or al.name) for al in node.names if al.name == "local"}
        if not assigned or any(a not in ok for a in assigned):
            raise Unsupported("Core.thread_locals is not always a threading.local(): %s" % assigned)
        return "threadLocal"
    parts = store.split(".")
    if parts[0] in ("logger", "self") and all(p.isidentifier() for p in parts) and "thread_locals" not in parts:
        return "shared"          # an attribute of an object every thread sees (Core, Logger, the Catcher)
    raise Unsupported("guard flag storage not understood: " + store)


def _option_names(tree):
    """the names of the logger options in the order `Logger.__init__` packs them into `self._options`, the
    order `Logger._log` unpacks its `options` argument, and the constant K of `get_frame(depth + K)`"""
    logger = [n for n in tree.body if isinstance(n, ast.ClassDef) and n.name == "Logger"]
    if len(logger) != 1:
        raise Unsupported("class Logger not found")
    ms = _methods(logger[0])
    init_names = None
    for node in ast.walk(ms["__init__"]):
        if isinstance(node, ast.Assign) and [U(t) for t in node.targets] == ["self._options"]:
            if not isinstance(node.value, ast.Tuple) or not all(isinstance(e, ast.Name) for e in node.value.elts) \
                    or init_names is not None:
                raise Unsupported("Logger.__init__: self._options is not one tuple of names")
            init_names = [e.id for e in node.value.elts]
    log_names = None
    frame_extra = None
    for node in ast.walk(ms["_log"]):
        if isinstance(node, ast.Assign) and U(node.value) == "options" and len(node.targets) == 1:
            t = node.targets[0]
            if not isinstance(t, ast.Tuple) or not all(isinstance(e, ast.Name) for e in t.elts) or log_names is not None:
                raise Unsupported("Logger._log: options is not unpacked into one tuple of names")
            log_names = [e.id for e in t.elts]
        if isinstance(node, ast.Call) and U(node.func) == "get_frame" and len(node.args) == 1:
            a = node.args[0]
            k = None
            if isinstance(a, ast.BinOp) and isinstance(a.op, ast.Add):       # `depth + K` or `K + depth`
                for x, y in ((a.left, a.right), (a.right, a.left)):
                    if U(x) == "depth" and isinstance(y, ast.Constant) and type(y.value) is int and y.value >= 0:
                        k = y.value
            if k is None or frame_extra is not None:
                raise Unsupported("Logger._log: get_frame argument: " + U(a))
            frame_extra = k
    if init_names is None or log_names is None or frame_extra is None:
        raise Unsupported("option names / get_frame(depth + K) not found")
    if len(set(init_names)) != len(init_names) or len(set(log_names)) != len(log_names):
        raise Unsupported("duplicate option names")
    return init_names, log_names, frame_extra


def _call_args_ok(call):
    return isinstance(call, ast.Call) and U(call) == "function(*args, **kwargs)"


def _wrapper_fn(fn, catcher_name):
    """`def catch_wrapper(*args, **kwargs): with catcher: return <inner>` / `return default`"""
    if U(fn.args) != "*args, **kwargs" or fn.decorator_list:
        raise Unsupported("wrapper signature: " + U(fn.args))
    body = _strip_doc(fn.body)
    if len(body) != 2 or not isinstance(body[0], ast.With):
        raise Unsupported("wrapper body: " + U(fn))
    w = body[0]
    if len(w.items) != 1 or U(w.items[0].context_expr) != catcher_name or w.items[0].optional_vars is not None:
        raise Unsupported("with item: " + U(w))
    if len(w.body) != 1 or not isinstance(w.body[0], ast.Return):
        raise Unsupported("with body is not a single return: " + U(w))
    v = w.body[0].value
    if isinstance(v, ast.Await) and _call_args_ok(v.value):
        inner = "awaitCall"
    elif isinstance(v, ast.YieldFrom) and _call_args_ok(v.value):
        inner = "yieldFromCall"
    elif _call_args_ok(v):
        inner = "plainCall"
    else:
        raise Unsupported("inside with: " + U(w.body[0]))
    if U(body[1]) != "return default":
        raise Unsupported("after with: " + U(body[1]))
    return isinstance(fn, ast.AsyncFunctionDef), inner, "returnDefault", _fn_kind(fn), False


def _asyncgen_branch(stmts, catcher_name, marker):
    """class + `def catch_wrapper` [+ `catch_wrapper.<marker> = True`, the attribute the branch TEST looks for,
    so that a decorator stacked on top takes this branch again]"""
    if len(stmts) not in (2, 3) or not isinstance(stmts[0], ast.ClassDef) or not isinstance(stmts[1], ast.FunctionDef):
        raise Unsupported("async generator branch")
    sets_marker = False
    if len(stmts) == 3:
        m = stmts[2]
        if not (isinstance(m, ast.Assign) and len(m.targets) == 1 and isinstance(m.targets[0], ast.Attribute)
                and U(m.targets[0].value) == stmts[1].name and isinstance(m.value, ast.Constant) and m.value.value is True):
            raise Unsupported("async generator branch, third statement: " + U(m))
        if m.targets[0].attr != marker:
            raise Unsupported("the wrapper is marked with %r but the branch test looks for %r" % (m.targets[0].attr, marker))
        sets_marker = True
    cls, fn = stmts[0], stmts[1]
    if [U(b) for b in cls.bases] != ["AsyncGenerator"] or cls.keywords or cls.decorator_list:
        raise Unsupported("wrapper class bases: " + U(cls)[:80])
    ms = _methods(cls)
    if sorted(ms) != ["__anext__", "__init__", "aclose", "asend", "athrow"]:
        raise Unsupported("wrapper class methods: %s" % sorted(ms))
    if len([n for n in cls.body if not (isinstance(n, ast.Expr) and isinstance(n.value, ast.Constant))]) != 5:
        raise Unsupported("wrapper class has other members")
    if U(ms["__init__"].args) != "self, gen" or [U(s) for s in _strip_doc(ms["__init__"].body)] != ["self._gen = gen"]:
        raise Unsupported("wrapper __init__")
    a = ms["asend"]
    if not isinstance(a, ast.AsyncFunctionDef) or U(a.args) != "self, value":
        raise Unsupported("asend signature")
    body = _strip_doc(a.body)
    want_with = ("with %s:\n    try:\n        return await self._gen.asend(value)\n    except StopAsyncIteration:\n"
                 "        pass\n    except:\n        raise" % catcher_name)
    if len(body) != 2 or U(body[0]) != want_with or U(body[1]) != "raise StopAsyncIteration":
        raise Unsupported("asend body: " + U(a))
    n = ms["__anext__"]
    # a plain method returning the asend coroutine itself, so that the frame awaiting `__anext__`
    # (the `async for`) is the caller of `asend` exactly as for an explicit `asend(None)`
    if not isinstance(n, ast.FunctionDef) or U(n.args) != "self" or n.decorator_list \
            or [U(s) for s in _strip_doc(n.body)] != ["return self.asend(None)"]:
        raise Unsupported("__anext__ is not `return self.asend(None)`: " + U(n))
    t = ms["athrow"]
    if not isinstance(t, ast.AsyncFunctionDef) or U(t.args) != "self, *args, **kwargs" \
            or [U(s) for s in _strip_doc(t.body)] != ["return await self._gen.athrow(*args, **kwargs)"]:
        raise Unsupported("athrow is not a plain pass-through: " + U(t))
    c = ms["aclose"]
    if not isinstance(c, ast.AsyncFunctionDef) or U(c.args) != "self" or c.decorator_list \
            or [U(s) for s in _strip_doc(c.body)] != ["return await self._gen.aclose()"]:
        raise Unsupported("aclose is not a plain pass-through to the wrapped generator's aclose: " + U(c))
    if U(fn.args) != "*args, **kwargs" or [U(s) for s in _strip_doc(fn.body)] != \
            ["gen = function(*args, **kwargs)", "return %s(gen)" % cls.name]:
        raise Unsupported("async generator catch_wrapper: " + U(fn))
    return True, "asendTry", "raiseStopAsyncIteration", _fn_kind(fn), sets_marker


def generate():
    errors = []
    body = "import LoguruModel.Catch.Base\nset_option linter.unusedVariables false\nnamespace Catch.Gen\n\n"
    try:
        tree, _ = parse_module("_logger.py")
        catch = _find_catch(tree)
        cbody = _strip_doc(catch.body)
        catcher = [n for n in cbody if isinstance(n, ast.ClassDef)]
        if len(catcher) != 1:
            raise Unsupported("Catcher class not found")
        catcher = catcher[0]
        # building the catcher is INERT: besides the `@logger.catch` shortcut for a bare callable, catch()
        # only binds `logger = self`, defines the class and returns an instance - it validates nothing, looks
        # nothing up (levels are resolved when a record is produced) and cannot raise
        others = [n for n in cbody[:-1] if n is not catcher]
        shortcut = ("if callable(exception) and (not isclass(exception) or not issubclass(exception, BaseException)):\n"
                    "    return self.catch()(exception)")
        if len(others) != 2 or U(others[0]) != shortcut or U(others[1]) != "logger = self" \
                or cbody.index(others[1]) > cbody.index(catcher):
            raise Unsupported("catch() does more than build the Catcher: " + " / ".join(U(n)[:90] for n in others))
        last = cbody[-1]
        if not (isinstance(last, ast.Return) and isinstance(last.value, ast.Call)
                and U(last.value.func) == catcher.name and len(last.value.args) == 1
                and isinstance(last.value.args[0], ast.Constant) and isinstance(last.value.args[0].value, bool)):
            raise Unsupported("catch() does not end with `return Catcher(<bool>)`")
        ctx_from_decorator = last.value.args[0].value
        ms = _methods(catcher)
        for need in ("__init__", "__enter__", "__exit__", "__call__", "__aenter__", "__aexit__"):
            if need not in ms:
                raise Unsupported("Catcher.%s missing" % need)
        if [U(s) for s in _strip_doc(ms["__init__"].body)] != ["self._from_decorator = from_decorator"]:
            raise Unsupported("Catcher.__init__")
        if [U(s) for s in _strip_doc(ms["__enter__"].body)] != ["return None"]:
            raise Unsupported("Catcher.__enter__")
        if not isinstance(ms["__aenter__"], ast.AsyncFunctionDef) or \
                [U(s) for s in _strip_doc(ms["__aenter__"].body)] != ["return self.__enter__()"]:
            raise Unsupported("Catcher.__aenter__ does not delegate to __enter__")
        ax = ms["__aexit__"]
        axb = _strip_doc(ax.body)
        if not isinstance(ax, ast.AsyncFunctionDef) or U(ax.args) != "self, type_, value, traceback_" or len(axb) != 1 \
                or not isinstance(axb[0], ast.Return) or not isinstance(axb[0].value, ast.Call):
            raise Unsupported("Catcher.__aexit__ does not delegate to __exit__")
        axc = axb[0].value
        if U(axc.func) != "self.__exit__" or [U(a) for a in axc.args] != ["type_", "value", "traceback_"] \
                or [k.arg for k in axc.keywords] != ["_frames"] or not isinstance(axc.keywords[0].value, ast.Constant) \
                or type(axc.keywords[0].value.value) is not int or axc.keywords[0].value.value < 0:
            raise Unsupported("Catcher.__aexit__ is not `return self.__exit__(type_, value, traceback_, _frames=<n>)`: " + U(axb[0]))
        async_frames = axc.keywords[0].value.value

        tests, effects, depth_incr, ret_expr, sync_frames, onerror_test, store, unpack = _exit(ms["__exit__"])
        init_names, log_names, frame_extra = _option_names(tree)
        flag_store = _flag_store(tree, store)
        term, typ = Tr({"reraise": ("reraise", "bool")}).tr(ret_expr)
        if typ != "bool":
            raise Unsupported("__exit__ return expression is not boolean")

        call = ms["__call__"]
        if U(call.args) != "self, function":
            raise Unsupported("__call__ signature")
        cb = _strip_doc(call.body)
        # if isclass(function): raise TypeError ; catcher = Catcher(True) ; if/elif chain ; update_wrapper ; return
        if len(cb) != 5 or not (isinstance(cb[0], ast.If) and U(cb[0].test) == "isclass(function)"
                                and len(cb[0].body) == 1 and isinstance(cb[0].body[0], ast.Raise)):
            raise Unsupported("__call__ prologue")
        asg = cb[1]
        if not (isinstance(asg, ast.Assign) and len(asg.targets) == 1 and isinstance(asg.targets[0], ast.Name)
                and isinstance(asg.value, ast.Call) and U(asg.value.func) == catcher.name and len(asg.value.args) == 1
                and isinstance(asg.value.args[0], ast.Constant) and isinstance(asg.value.args[0].value, bool)):
            raise Unsupported("catcher construction: " + U(asg))
        cname = asg.targets[0].id
        dec_from_decorator = asg.value.args[0].value
        shapes = []
        node = cb[2]
        wrapper_names = set()
        KIND_OF_PRED = {"iscoroutinefunction": "coroutine", "isgeneratorfunction": "generator",
                        "isasyncgenfunction": "asyncgen"}
        markers = set()
        atoms_of = []
        while True:
            if not isinstance(node, ast.If):
                raise Unsupported("branch test: " + U(node)[:60])
            # the test: `is<kind>function(function)` [or getattr(function, "<marker>", False)], a disjunction
            disj = node.test.values if isinstance(node.test, ast.BoolOp) and isinstance(node.test.op, ast.Or) else [node.test]
            atoms, preds, marker = [], [], None
            for d in disj:
                if isinstance(d, ast.Call) and len(d.args) == 1 and not d.keywords and U(d.args[0]) == "function" \
                        and U(d.func) in KIND_OF_PRED:
                    atoms.append(".isKind .%s" % KIND_OF_PRED[U(d.func)])
                    preds.append(U(d.func))
                elif isinstance(d, ast.Call) and U(d.func) == "getattr" and len(d.args) == 3 and not d.keywords \
                        and U(d.args[0]) == "function" and isinstance(d.args[1], ast.Constant) \
                        and isinstance(d.args[1].value, str) and isinstance(d.args[2], ast.Constant) and d.args[2].value is False:
                    atoms.append(".hasMarker")
                    marker = d.args[1].value
                    markers.add(marker)
                else:
                    raise Unsupported("branch test: " + U(node.test)[:90])
            if len(preds) != 1:
                raise Unsupported("branch test without exactly one is*function predicate: " + U(node.test)[:90])
            pred = preds[0]
            atoms_of.append(atoms)
            if pred == "isasyncgenfunction":
                sh = _asyncgen_branch(node.body, cname, marker)
                wrapper_names.add(node.body[1].name)
            else:
                if len(node.body) != 1 or not isinstance(node.body[0], (ast.FunctionDef, ast.AsyncFunctionDef)):
                    raise Unsupported("branch body of " + pred)
                if marker is not None:
                    raise Unsupported("marker test outside the async generator branch")
                sh = _wrapper_fn(node.body[0], cname)
                wrapper_names.add(node.body[0].name)
            shapes.append((pred,) + sh)
            if len(node.orelse) == 1 and isinstance(node.orelse[0], ast.If):
                node = node.orelse[0]
                continue
            if len(node.orelse) != 1 or not isinstance(node.orelse[0], ast.FunctionDef):
                raise Unsupported("else branch")
            shapes.append(("",) + _wrapper_fn(node.orelse[0], cname))
            atoms_of.append([])
            wrapper_names.add(node.orelse[0].name)
            break
        if len(markers) > 1:
            raise Unsupported("several marker attributes: %s" % sorted(markers))
        if len(wrapper_names) != 1:
            raise Unsupported("wrapper functions carry different names: %s" % sorted(wrapper_names))
        wname = wrapper_names.pop()
        if U(cb[3]) != "functools.update_wrapper(%s, function)" % wname or U(cb[4]) != "return " + wname:
            raise Unsupported("__call__ epilogue: %s / %s" % (U(cb[3]), U(cb[4])))

        body += "/-- early-return tests of `Catcher.__exit__`, in source order -/\n"
        body += "def exitTests : List ExitTest := [%s]\n\n" % ", ".join("." + t for t in tests)
        body += "/-- statements of `Catcher.__exit__` after the tests, in source order -/\n"
        body += "def exitEffects : List ExitEffect := [%s]\n\n" % ", ".join("." + e for e in effects)
        body += "/-- the test guarding `onerror(value)` -/\ndef onerrorTest : OnerrorTest := .%s\n\n" % (onerror_test or "isNotNone")
        body += "/-- catch() itself only binds `logger = self`, defines `Catcher` and returns an instance -/\n"
        body += "def constructionInert : Bool := true\n\n"
        body += "/-- `if from_decorator: depth += %d` -/\ndef depthIncr : Nat := %d\n\n" % (depth_incr, depth_incr)
        body += "/-- `depth += _frames`; `__exit__(…, *, _frames=%d)` as the `with` statement calls it; " \
                "`__aexit__` calls `self.__exit__(…, _frames=%d)` (its own frame sits between) -/\n" % (sync_frames, async_frames)
        body += "def syncExitFrames : Nat := %d\ndef asyncExitFrames : Nat := %d\n\n" % (sync_frames, async_frames)
        body += "/-- `return %s` -/\ndef exitReturn (reraise : Bool) : Bool := %s\n\n" % (U(ret_expr), term)
        body += "/-- `catcher = Catcher(%s)` in `__call__`, `return Catcher(%s)` at the end of `catch()` -/\n" % (
            dec_from_decorator, ctx_from_decorator)
        body += "def decoratorFromDecorator : Bool := %s\n" % ("true" if dec_from_decorator else "false")
        body += "def contextFromDecorator : Bool := %s\n\n" % ("true" if ctx_from_decorator else "false")
        body += "/-- the branches of `Catcher.__call__`, in source order -/\n"
        body += "def shapes : List Shape := [\n" + ",\n".join(
            "  { test := %s, isAsync := %s, inner := .%s, after := .%s }" % (
                lean_chars(p), "true" if a else "false", i, f) for p, a, i, f, _k, _m in shapes) + "]\n\n"
        body += "/-- per branch of `Catcher.__call__` (source order): the test as a disjunction of atoms, the KIND of\n" \
                "    function object the `catch_wrapper` defined there is (syntactic: async / own yield), and whether\n" \
                "    the branch sets the marker attribute its test looks for on that wrapper -/\n"
        body += "def branches : List Branch := [\n" + ",\n".join(
            "  { atoms := [%s], wrapperKind := .%s, setsMarker := %s }" % (", ".join(at), k, "true" if m else "false")
            for at, (_p, _a, _i, _f, k, m) in zip(atoms_of, shapes)) + "]\n\n"
        body += "/-- `functools.update_wrapper(catch_wrapper, function)`: the wrapper's `__dict__` is updated with the\n" \
                "    decorated function's, so a marker attribute travels outwards through a stack of decorators -/\n"
        body += "def wrapperCopiesDict : Bool := true\n\n"
        body += "/-- `self._options = (%s)` in `Logger.__init__` -/\n" % ", ".join(init_names)
        body += "def initOptionNames : List (List Char) := [%s]\n" % ", ".join(lean_chars(n) for n in init_names)
        body += "/-- `(%s) = options` in `Logger._log` -/\n" % ", ".join(log_names)
        body += "def logOptionNames : List (List Char) := [%s]\n" % ", ".join(lean_chars(n) for n in log_names)
        body += "/-- `_log` takes the record's frame with `get_frame(depth + %d)` -/\n" % frame_extra
        body += "def logFrameExtra : Nat := %d\n" % frame_extra
        body += "/-- `_, depth, _, *options = logger._options` in `Catcher.__exit__`: position of the depth, positions\n" \
                "    dropped, start of the tail kept -/\n"
        body += "def exitDepthPos : Nat := %d\ndef exitDropped : List Nat := [%s]\ndef exitRestFrom : Nat := %d\n" % (
            unpack["depth_pos"], ", ".join(str(i) for i in unpack["dropped"]), unpack["rest_from"])
        body += "/-- the list handed to `_log`: `[(type_, value, traceback_), depth, True, *options]` -/\n"
        body += "def catchSlots : List CatchSlot := [%s]\n\n" % ", ".join("." + x for x in unpack["slots"])
        body += "/-- the guard flag is an attribute of `%s` -/\n" % store
        body += "def flagStore : FlagStore := .%s\n\n" % flag_store
        body += "/-- `AsyncGenCatchWrapper.athrow` is `return await self._gen.athrow(*args, **kwargs)` -/\n"
        body += "def athrowPassThrough : Bool := true\n"
        body += "/-- `AsyncGenCatchWrapper.aclose` is `return await self._gen.aclose()` -/\n"
        body += "def aclosePassThrough : Bool := true\n"
        body += "/-- `AsyncGenCatchWrapper.__anext__` is the plain method `return self.asend(None)` -/\n"
        body += "def anextIsAsendNone : Bool := true\n"
        body += "/-- `__aenter__/__aexit__` return `self.__enter__()` / `self.__exit__(type_, value, traceback_)` -/\n"
        body += "def asyncContextDelegates : Bool := true\n"
    except (Unsupported, SyntaxError, KeyError, AttributeError, IndexError) as e:
        errors.append("%s: %s" % (type(e).__name__, e))
    body += "\nend Catch.Gen\n"
    return emit("Catch", body, ["loguru/_logger.py"], errors)
