"""Generated/FileSink.lean from loguru/_file_sink.py (C08, C18): compression format table, the
normalisation of the format spelling, FileSink defaults (mode), `exist_ok`, and the statement order
of `Compression.compression`, `FileSink._close_file`, `FileSink._terminate_file`, `FileSink.write`
(as lists of tags the theorems compare with the order the hand model follows)."""
import ast

from extract_lib import Unsupported, emit, find_class, find_func, lean_chars, parse_module


def _kw(call, name):
    for k in call.keywords:
        if k.arg == name:
            return k.value
    return None


def _calls_in(stmts):
    """source text of every call expression in a statement list, in evaluation-ish (source) order"""
    out = []

    class V(ast.NodeVisitor):
        def visit_Call(self, node):
            for a in node.args:
                self.visit(a)
            for k in node.keywords:
                self.visit(k.value)
            self.visit(node.func)
            out.append(ast.unparse(node.func))

    for s in stmts:
        V().visit(s)
    return out


def generate():
    errors = []
    body = "import LoguruModel.FileSink.Base\nnamespace FileSink.Gen\nopen FileSink\n\n"
    try:
        tree, _ = parse_module("_file_sink.py")
        # ---------------------------------------------------------------- format table
        fn = find_func(tree, "_make_compression_function", cls="FileSink")
        st = fn.body
        if not (isinstance(st[0], ast.If) and ast.unparse(st[0].test) == "compression is None"
                and ast.unparse(st[0].body[0]) == "return None"):
            raise Unsupported("_make_compression_function: first statement is not the None test")
        s_if = st[1]
        if not (isinstance(s_if, ast.If) and ast.unparse(s_if.test) == "isinstance(compression, str)"):
            raise Unsupported("_make_compression_function: second statement is not the str test")
        norm = s_if.body[0]
        if ast.unparse(norm) != "ext = compression.strip().lstrip('.')":
            raise Unsupported("normalisation of the spelling changed: " + ast.unparse(norm))
        rows = []
        node = s_if.body[1]
        kinds = {"Compression.copy_compress": "copy", "Compression.add_compress": "add",
                 "Compression.write_compress": "write"}
        while True:
            if not (isinstance(node, ast.If) and isinstance(node.test, ast.Compare)
                    and ast.unparse(node.test.left) == "ext" and isinstance(node.test.ops[0], ast.Eq)
                    and isinstance(node.test.comparators[0], ast.Constant)):
                raise Unsupported("format chain: unexpected test " + ast.unparse(node)[:60])
            name = node.test.comparators[0].value
            assigns = [s for s in node.body if isinstance(s, ast.Assign)]
            others = [s for s in node.body if not isinstance(s, (ast.Assign, ast.Import))]
            if len(assigns) != 1 or others or ast.unparse(assigns[0].targets[0]) != "compress":
                raise Unsupported("format %s: body shape" % name)
            call = assigns[0].value
            if not (isinstance(call, ast.Call) and ast.unparse(call.func) == "partial" and len(call.args) == 1):
                raise Unsupported("format %s: not a partial(...)" % name)
            kind = kinds.get(ast.unparse(call.args[0]))
            if kind is None:
                raise Unsupported("format %s: unknown compress function" % name)
            mode = _kw(call, "mode")
            opener = _kw(call, "opener")
            if not (isinstance(mode, ast.Constant) and isinstance(mode.value, str)) or opener is None:
                raise Unsupported("format %s: mode/opener" % name)
            extra = [(k.arg, ast.unparse(k.value)) for k in call.keywords if k.arg not in ("mode", "opener")]
            rows.append((name, kind, ast.unparse(opener), mode.value,
                         ",".join("%s=%s" % e for e in extra)))
            if len(node.orelse) == 1 and isinstance(node.orelse[0], ast.If):
                node = node.orelse[0]
                continue
            if not (len(node.orelse) == 1 and isinstance(node.orelse[0], ast.Raise)
                    and ast.unparse(node.orelse[0].exc).startswith("ValueError(")):
                raise Unsupported("format chain does not end with raise ValueError")
            break
        ret = s_if.body[2]
        want = "return partial(Compression.compression, ext='.' + ext, compress_function=compress)"
        if ast.unparse(ret) != want:
            raise Unsupported("compression partial changed: " + ast.unparse(ret))
        body += "/-- `(ext, kind, opener, mode, extra keywords)` in the order of the if-chain -/\n"
        body += "def formatTable : List (Py.Str × CompKind × Py.Str × Py.Str × Py.Str) := [\n"
        body += ",\n".join("  (%s, CompKind.%s, %s, %s, %s)" % (lean_chars(n), k, lean_chars(o), lean_chars(m), lean_chars(x))
                           for n, k, o, m, x in rows) + "]\n\n"
        body += "/-- `ext = compression.strip().lstrip('.')` -/\ndef lstripChars : Py.Str := %s\n" % lean_chars(".")
        body += "/-- archive suffix is `'.' + ext` -/\ndef extPrefix : Py.Str := %s\n\n" % lean_chars(".")

        # ---------------------------------------------------------------- compress functions
        comp = find_class(tree, "Compression")
        for fname, meth in (("add_compress", "add"), ("write_compress", "write")):
            f = find_func(comp, fname)
            src = ast.unparse(f.body[0])
            want = ("with opener(path_out, **kwargs) as f_comp:\n    f_comp.%s(path_in, os.path.basename(path_in))" % meth)
            if len(f.body) != 1 or src != want:
                raise Unsupported("%s changed: %s" % (fname, src))
        f = find_func(comp, "copy_compress")
        want = ("with open(path_in, 'rb') as f_in:\n    with opener(path_out, **kwargs) as f_out:\n"
                "        shutil.copyfileobj(f_in, f_out)")
        if len(f.body) != 1 or ast.unparse(f.body[0]) != want:
            raise Unsupported("copy_compress changed: " + ast.unparse(f.body[0]))
        body += "/-- tar/zip members are stored under `os.path.basename(path_in)` -/\ndef memberIsBasename : Bool := true\n\n"

        # ---------------------------------------------------------------- Compression.compression order
        f = find_func(comp, "compression")
        tags = []
        for s in f.body:
            src = ast.unparse(s)
            if src == "path_out = '{}{}'.format(path_in, ext)":
                tags.append("pathOut")
            elif isinstance(s, ast.If) and ast.unparse(s.test) == "os.path.exists(path_out)":
                inner = [ast.unparse(x) for x in s.body]
                if inner != ["creation_time = get_ctime(path_out)",
                             "root, ext_before = os.path.splitext(path_in)",
                             "renamed_path = generate_rename_path(root, ext_before + ext, creation_time)",
                             "os.rename(path_out, renamed_path)"] or s.orelse:
                    raise Unsupported("collision branch changed: %r" % inner)
                tags.append("collisionRename")
            elif src == "compress_function(path_in, path_out)":
                tags.append("compress")
            elif src == "os.remove(path_in)":
                tags.append("removeSource")
            else:
                raise Unsupported("Compression.compression: unexpected statement " + src)
        body += "def compressionOrder : List CStep := [%s]\n\n" % ", ".join("CStep." + t for t in tags)

        # ---------------------------------------------------------------- generate_rename_path
        f = find_func(tree, "generate_rename_path")
        srcs = [ast.unparse(s) for s in f.body]
        want = ["creation_datetime = datetime.datetime.fromtimestamp(creation_time)",
                "date = FileDateFormatter(creation_datetime)",
                "renamed_path = '{}.{}{}'.format(root, date, ext)",
                "counter = 1",
                "while os.path.exists(renamed_path):\n    counter += 1\n    renamed_path = '{}.{}.{}{}'.format(root, date, counter, ext)",
                "return renamed_path"]
        if srcs != want:
            raise Unsupported("generate_rename_path changed: %r" % srcs)
        body += "/-- first counter value used by `generate_rename_path` (1 = name without counter) -/\n"
        body += "def renameFirstCounter : Nat := 1\n\n"

        # ---------------------------------------------------------------- FileSink defaults and order
        cls = find_class(tree, "FileSink")
        init = find_func(cls, "__init__")
        defaults = dict(zip([a.arg for a in init.args.kwonlyargs], init.args.kw_defaults))
        m = defaults.get("mode")
        if not (isinstance(m, ast.Constant) and isinstance(m.value, str)):
            raise Unsupported("FileSink.__init__: default mode")
        body += "def fileMode : Py.Str := %s\n" % lean_chars(m.value)
        kw = [s for s in init.body if ast.unparse(s).startswith("self._kwargs =")]
        if [ast.unparse(s) for s in kw] != ["self._kwargs = {**kwargs, 'mode': mode, 'buffering': buffering, 'encoding': self.encoding}"]:
            raise Unsupported("FileSink.__init__: _kwargs")
        f = find_func(cls, "_create_file")
        if ast.unparse(f.body[0]) != "self._file = open(path, **self._kwargs)" or \
                ast.unparse(f.body[1]) != "self._file_path = path":
            raise Unsupported("_create_file changed")
        f = find_func(cls, "_create_dirs")
        if [ast.unparse(s) for s in f.body] != ["dirname = os.path.dirname(path)", "os.makedirs(dirname, exist_ok=True)"]:
            raise Unsupported("_create_dirs changed: %r" % [ast.unparse(s) for s in f.body])
        body += "def makedirsExistOk : Bool := true\n\n"

        f = find_func(cls, "_close_file")
        srcs = [ast.unparse(s) for s in f.body]
        # `file = self._file` binds the object first (since e6154e8 it is flushed, forgotten, then closed);
        # the older spelling through `self._file` is still recognised so that a revert changes the generated
        # ORDER (and re-opens the proofs) instead of merely failing closed
        tagmap = {"file = self._file": "bindFile", "file.flush()": "flush", "file.close()": "close",
                  "self._file.flush()": "flush", "self._file.close()": "close", "self._file = None": "resetFile",
                  "self._file_path = None": "resetPath", "self._file_dev = -1": "resetDev", "self._file_ino = -1": "resetIno"}
        if any(s not in tagmap for s in srcs):
            raise Unsupported("_close_file changed: %r" % srcs)
        body += "def closeOrder : List CloseStep := [%s]\n\n" % ", ".join("CloseStep." + tagmap[s] for s in srcs)

        # order of the side-effecting calls in _terminate_file and write
        f = find_func(cls, "_terminate_file")
        calls = [c for c in _calls_in(f.body) if c.startswith(("self._", "os.", "glob.", "get_ctime", "set_ctime",
                                                                "generate_rename_path"))]
        want = ["self._close_file", "self._create_path", "self._create_dirs", "get_ctime", "os.path.splitext",
                "generate_rename_path", "os.rename", "self._compression_function", "glob.glob", "os.path.isfile",
                "self._retention_function", "self._create_file", "set_ctime"]
        if calls != want:
            raise Unsupported("_terminate_file call order changed: %r" % calls)
        tests = [ast.unparse(s.test) for s in f.body if isinstance(s, ast.If)]
        if tests != ["self._file is not None", "is_rotating", "is_rotating or self._rotation_function is None",
                     "is_rotating"]:
            raise Unsupported("_terminate_file tests changed: %r" % tests)
        body += "def terminateOrder : List TStep := [TStep.close, TStep.newPath, TStep.mkdirs, TStep.sameNameRename, " \
                "TStep.compression, TStep.retention, TStep.createFile]\n\n"
        f = find_func(cls, "write")
        calls = [c for c in _calls_in(f.body) if c.startswith("self.")]
        want = ["self._create_path", "self._create_dirs", "self._create_file", "self._reopen_if_needed",
                "self._rotation_function", "self._terminate_file", "self._file.write"]
        if calls != want:
            raise Unsupported("FileSink.write call order changed: %r" % calls)
        body += "def writeOrder : List WStep := [WStep.lazyCreate, WStep.reopen, WStep.rotationTest, WStep.terminate, WStep.writeMessage]\n"
    except (Unsupported, SyntaxError, KeyError, AttributeError, IndexError) as e:
        errors.append("%s: %s" % (type(e).__name__, e))
    body += "\nend FileSink.Gen\n"
    return emit("FileSink", body, ["loguru/_file_sink.py"], errors)
