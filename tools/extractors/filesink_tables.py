"""Generated/FileSink.lean from loguru/_file_sink.py (C08, C18): compression format table, the
normalisation of the format spelling, FileSink defaults (mode), `exist_ok`, and the statement order
of `Compression.compression`, `FileSink._close_file`, `FileSink._terminate_file`, `FileSink.write`
(as lists of tags the theorems compare with the order the hand model follows).

Shapes are compared MODULO behaviour-preserving rewrites: local names (alpha-equivalence through a
bijection), `with a, b:` = nested `with`, and a call of a private helper of the same class / module whose
body is straight-line is followed one level deep (parameters substituted, `return e` turned into the
assignment).  What is pinned is the semantic content – which call, with which arguments, in which order,
under which test – not the source text.  Anything else still fails closed."""
import ast
import copy

from extract_lib import Unsupported, emit, find_class, find_func, lean_chars, parse_module


def _kw(call, name):
    for k in call.keywords:
        if k.arg == name:
            return k.value
    return None


def _calls_in(stmts):
    """source text of every call expression in a statement list, in evaluation-ish (source) order"""
    out = []

    class V(ast.NodeVisitor):
        def visit_Call(self, node):
            for a in node.args:
                self.visit(a)
            for k in node.keywords:
                self.visit(k.value)
            self.visit(node.func)
            out.append(ast.unparse(node.func))

    for s in stmts:
        V().visit(s)
    return out


# ----------------------------------------------------------------------------- normalisation
# methods / functions the model has a counterpart for: never inlined (their *calls* are what is pinned)
MODELLED = {"_create_path", "_create_dirs", "_create_file", "_close_file", "_reopen_if_needed", "_terminate_file",
            "_make_glob_patterns", "_make_rotation_function", "_make_retention_function",
            "_make_compression_function"}
_SUBLISTS = ("body", "orelse", "finalbody")


def _local_names(fn):
    """parameters and every name bound inside the function (imports excepted: module names are content)"""
    out = {a.arg for a in fn.args.posonlyargs + fn.args.args + fn.args.kwonlyargs}
    if fn.args.vararg:
        out.add(fn.args.vararg.arg)
    if fn.args.kwarg:
        out.add(fn.args.kwarg.arg)
    for node in ast.walk(fn):
        if isinstance(node, ast.Name) and isinstance(node.ctx, ast.Store):
            out.add(node.id)
    out.discard("self")
    return out


def _names_in(node):
    return {n.id for n in ast.walk(node) if isinstance(n, ast.Name)}


class _Subst(ast.NodeTransformer):
    def __init__(self, mapping):
        self.mapping = mapping

    def visit_Name(self, node):
        if node.id in self.mapping:
            new = copy.deepcopy(self.mapping[node.id])
            if isinstance(new, ast.Name):
                new.ctx = node.ctx
            return new
        return node


def _helper_of(call, cls, tree):
    """(FunctionDef, skip_self) for `self._h(...)`, `Cls._h(...)`, `_h(...)` with a private, non-modelled `_h`"""
    f = call.func
    name, owner, skip = None, None, False
    if isinstance(f, ast.Attribute) and isinstance(f.value, ast.Name):
        if f.value.id == "self" and cls is not None:
            name, owner, skip = f.attr, cls, True
        elif cls is not None and f.value.id == cls.name:
            name, owner = f.attr, cls
    elif isinstance(f, ast.Name):
        name, owner = f.id, tree
    if name is None or not name.startswith("_") or name.startswith("__") or name in MODELLED:
        return None
    for node in owner.body:
        if isinstance(node, ast.FunctionDef) and node.name == name:
            static = any(isinstance(d, ast.Name) and d.id == "staticmethod" for d in node.decorator_list)
            if owner is tree:
                return node, False
            if skip:
                return node, not static
            return (node, False) if static else None
    return None


def _inline_call(stmt, cls, tree, counter):
    """the statements replacing `stmt` when it is `h(args)` / `x = h(args)` for an inlinable helper, else None"""
    if isinstance(stmt, ast.Expr) and isinstance(stmt.value, ast.Call):
        call, target = stmt.value, None
    elif isinstance(stmt, ast.Assign) and len(stmt.targets) == 1 and isinstance(stmt.value, ast.Call):
        call, target = stmt.value, stmt.targets[0]
    else:
        return None
    found = _helper_of(call, cls, tree)
    if found is None:
        return None
    h, skip_self = found
    a = h.args
    params = [x.arg for x in a.args][1 if skip_self else 0:]
    if a.vararg or a.kwarg or a.kwonlyargs or a.defaults or a.posonlyargs or call.keywords \
            or len(call.args) != len(params):
        return None
    if not all(isinstance(x, (ast.Name, ast.Attribute, ast.Constant)) for x in call.args):
        return None          # only side-effect-free argument expressions may be substituted
    stmts = [s for s in h.body if not (isinstance(s, ast.Expr) and isinstance(s.value, ast.Constant))]
    if not stmts:
        return None
    for i, s in enumerate(stmts):
        last = i == len(stmts) - 1
        if isinstance(s, ast.Return):
            if not last:
                return None
        elif not isinstance(s, (ast.Assign, ast.Expr, ast.AugAssign)):
            return None      # straight-line bodies only
        if any(isinstance(n, (ast.Return, ast.Yield, ast.YieldFrom, ast.Await)) for n in ast.walk(s)) \
                and not isinstance(s, ast.Return):
            return None
    counter[0] += 1
    tag = "_h%d_" % counter[0]
    bound = _local_names(h) - set(params)
    if any(p in bound for p in params):
        return None          # a parameter that is re-assigned cannot be replaced by the argument
    mapping = {p: arg for p, arg in zip(params, call.args)}
    mapping.update({n: ast.Name(id=tag + n, ctx=ast.Load()) for n in bound})
    out = []
    for s in stmts:
        s2 = _Subst(mapping).visit(copy.deepcopy(s))
        if isinstance(s2, ast.Return):
            if s2.value is None:
                if target is not None:
                    return None
                continue
            if target is not None:
                s2 = ast.Assign(targets=[copy.deepcopy(target)], value=s2.value, lineno=0, col_offset=0)
            elif any(isinstance(n, ast.Call) for n in ast.walk(s2.value)):
                s2 = ast.Expr(value=s2.value)
            else:
                continue
        out.append(ast.fix_missing_locations(s2))
    if target is not None and not (stmts and isinstance(stmts[-1], ast.Return)):
        return None
    return out


def _norm_stmts(stmts, cls, tree, counter):
    out = []
    for s in stmts:
        if isinstance(s, ast.With) and len(s.items) > 1:          # `with a, b:` = nested with
            inner = ast.With(items=s.items[1:], body=s.body, lineno=0, col_offset=0)
            s = ast.With(items=s.items[:1], body=[inner], lineno=0, col_offset=0)
        repl = _inline_call(s, cls, tree, counter)
        if repl is not None:
            out.extend(repl)
            continue
        for field in _SUBLISTS:
            if isinstance(getattr(s, field, None), list) and not isinstance(s, (ast.FunctionDef, ast.ClassDef)):
                setattr(s, field, _norm_stmts(getattr(s, field), cls, tree, counter))
        if isinstance(s, ast.Try):
            for hnd in s.handlers:
                hnd.body = _norm_stmts(hnd.body, cls, tree, counter)
        out.append(s)
    return out


def norm_func(fn, cls, tree):
    """a copy of `fn` with helper calls followed one level deep and `with` items un-merged"""
    fn = copy.deepcopy(fn)
    fn.body = _norm_stmts([s for s in fn.body], cls, tree, [0])
    return ast.fix_missing_locations(fn)


class Alpha:
    """structural equality of ASTs modulo a bijection between the local names of two functions"""

    def __init__(self, locals_a, locals_b):
        self.la, self.lb, self.ab, self.ba = set(locals_a), set(locals_b), {}, {}

    def _name(self, a, b):
        ia, ib = a in self.la, b in self.lb
        if not ia and not ib:
            return a == b
        if ia != ib:
            return False
        if self.ab.get(a, b) != b or self.ba.get(b, a) != a:
            return False
        self.ab[a], self.ba[b] = b, a
        return True

    def _eq(self, x, y):
        if isinstance(x, ast.AST):
            if type(x) is not type(y):
                return False
            if isinstance(x, ast.Name):
                return self._name(x.id, y.id)
            if isinstance(x, ast.arg):
                return self._name(x.arg, y.arg)
            for (fa, va), (fb, vb) in zip(ast.iter_fields(x), ast.iter_fields(y)):
                if fa != fb or not self._eq(va, vb):
                    return False
            return True
        if isinstance(x, list):
            return isinstance(y, list) and len(x) == len(y) and all(self._eq(a, b) for a, b in zip(x, y))
        return x == y

    def eq(self, x, y):
        """compare; the bijection is extended only when the comparison succeeds"""
        saved = (dict(self.ab), dict(self.ba))
        if self._eq(x, y):
            return True
        self.ab, self.ba = saved
        return False

    def actual(self, ref_name):
        return self.ba.get(ref_name)


def _ref(src):
    return ast.parse(src).body


def _ref_locals(stmts, extra=()):
    out = set(extra)
    for s in stmts:
        for n in ast.walk(s):
            if isinstance(n, ast.Name) and isinstance(n.ctx, ast.Store):
                out.add(n.id)
    return out


def same_body(fn, cls, tree, ref_src, what):
    """the normalised body of `fn` equals the reference function `ref_src` modulo local names"""
    ref = ast.parse(ref_src).body[0]
    f = norm_func(fn, cls, tree)
    body = [s for s in f.body if not (isinstance(s, ast.Expr) and isinstance(s.value, ast.Constant))]
    al = Alpha(_local_names(f), _local_names(ref))
    if not (al.eq(f.args, ref.args) and al.eq(body, ref.body)):
        raise Unsupported("%s changed: %s" % (what, "; ".join(ast.unparse(s) for s in body)[:300]))
    return al


def generate():
    errors = []
    body = "import LoguruModel.FileSink.Base\nnamespace FileSink.Gen\nopen FileSink\n\n"
    try:
        tree, _ = parse_module("_file_sink.py")
        # ---------------------------------------------------------------- format table
        fsink = find_class(tree, "FileSink")
        fn = norm_func(find_func(tree, "_make_compression_function", cls="FileSink"), fsink, tree)
        st = fn.body
        al = Alpha(_local_names(fn), {"compression", "ext", "compress"})
        if not (isinstance(st[0], ast.If) and al.eq(st[0].test, _ref("compression is None")[0].value)
                and ast.unparse(st[0].body[0]) == "return None"):
            raise Unsupported("_make_compression_function: first statement is not the None test")
        s_if = st[1]
        if not (isinstance(s_if, ast.If) and al.eq(s_if.test, _ref("isinstance(compression, str)")[0].value)):
            raise Unsupported("_make_compression_function: second statement is not the str test")
        norm = s_if.body[0]
        if not al.eq(norm, _ref("ext = compression.strip().lstrip('.')")[0]):
            raise Unsupported("normalisation of the spelling changed: " + ast.unparse(norm))
        ext_name = al.actual("ext")
        rows = []
        node = s_if.body[1]
        kinds = {"Compression.copy_compress": "copy", "Compression.add_compress": "add",
                 "Compression.write_compress": "write"}
        while True:
            if not (isinstance(node, ast.If) and isinstance(node.test, ast.Compare)
                    and ast.unparse(node.test.left) == ext_name and isinstance(node.test.ops[0], ast.Eq)
                    and isinstance(node.test.comparators[0], ast.Constant)):
                raise Unsupported("format chain: unexpected test " + ast.unparse(node)[:60])
            name = node.test.comparators[0].value
            assigns = [s for s in node.body if isinstance(s, ast.Assign)]
            others = [s for s in node.body if not isinstance(s, (ast.Assign, ast.Import))]
            if len(assigns) != 1 or others or not al.eq(assigns[0].targets[0], _ref("compress = 0")[0].targets[0]):
                raise Unsupported("format %s: body shape" % name)
            call = assigns[0].value
            if not (isinstance(call, ast.Call) and ast.unparse(call.func) == "partial" and len(call.args) == 1):
                raise Unsupported("format %s: not a partial(...)" % name)
            kind = kinds.get(ast.unparse(call.args[0]))
            if kind is None:
                raise Unsupported("format %s: unknown compress function" % name)
            mode = _kw(call, "mode")
            opener = _kw(call, "opener")
            if not (isinstance(mode, ast.Constant) and isinstance(mode.value, str)) or opener is None:
                raise Unsupported("format %s: mode/opener" % name)
            extra = [(k.arg, ast.unparse(k.value)) for k in call.keywords if k.arg not in ("mode", "opener")]
            rows.append((name, kind, ast.unparse(opener), mode.value,
                         ",".join("%s=%s" % e for e in extra)))
            if len(node.orelse) == 1 and isinstance(node.orelse[0], ast.If):
                node = node.orelse[0]
                continue
            if not (len(node.orelse) == 1 and isinstance(node.orelse[0], ast.Raise)
                    and ast.unparse(node.orelse[0].exc).startswith("ValueError(")):
                raise Unsupported("format chain does not end with raise ValueError")
            break
        ret = s_if.body[2]
        want = "partial(Compression.compression, ext='.' + ext, compress_function=compress)"
        if not (isinstance(ret, ast.Return) and len(s_if.body) == 3 and al.eq(ret.value, _ref(want)[0].value)):
            raise Unsupported("compression partial changed: " + ast.unparse(ret))
        body += "/-- `(ext, kind, opener, mode, extra keywords)` in the order of the if-chain -/\n"
        body += "def formatTable : List (Py.Str × CompKind × Py.Str × Py.Str × Py.Str) := [\n"
        body += ",\n".join("  (%s, CompKind.%s, %s, %s, %s)" % (lean_chars(n), k, lean_chars(o), lean_chars(m), lean_chars(x))
                           for n, k, o, m, x in rows) + "]\n\n"
        body += "/-- `ext = compression.strip().lstrip('.')` -/\ndef lstripChars : Py.Str := %s\n" % lean_chars(".")
        body += "/-- archive suffix is `'.' + ext` -/\ndef extPrefix : Py.Str := %s\n\n" % lean_chars(".")

        # ---------------------------------------------------------------- compress functions
        comp = find_class(tree, "Compression")
        for fname, meth in (("add_compress", "add"), ("write_compress", "write")):
            same_body(find_func(comp, fname), comp, tree,
                      "def f(path_in, path_out, opener, **kwargs):\n"
                      "    with opener(path_out, **kwargs) as f_comp:\n"
                      "        f_comp.%s(path_in, os.path.basename(path_in))\n" % meth, fname)
        same_body(find_func(comp, "copy_compress"), comp, tree,
                  "def f(path_in, path_out, opener, **kwargs):\n"
                  "    with open(path_in, 'rb') as f_in:\n"
                  "        with opener(path_out, **kwargs) as f_out:\n"
                  "            shutil.copyfileobj(f_in, f_out)\n", "copy_compress")
        body += "/-- tar/zip members are stored under `os.path.basename(path_in)` -/\ndef memberIsBasename : Bool := true\n\n"

        # ---------------------------------------------------------------- Compression.compression order
        f = norm_func(find_func(comp, "compression"), comp, tree)
        ref_locals = {"path_in", "ext", "compress_function", "path_out", "creation_time", "root", "ext_before",
                      "renamed_path"}
        al = Alpha(_local_names(f), ref_locals)
        if not al.eq(f.args, ast.parse("def f(path_in, ext, compress_function): pass").body[0].args):
            raise Unsupported("Compression.compression: parameters changed")
        templates = [("pathOut", _ref("path_out = '{}{}'.format(path_in, ext)")[0]),
                     ("compress", _ref("compress_function(path_in, path_out)")[0]),
                     ("removeSource", _ref("os.remove(path_in)")[0])]
        collision = _ref("if os.path.exists(path_out):\n"
                         "    creation_time = get_ctime(path_out)\n"
                         "    root, ext_before = os.path.splitext(path_in)\n"
                         "    renamed_path = generate_rename_path(root, ext_before + ext, creation_time)\n"
                         "    os.rename(path_out, renamed_path)\n")[0]
        tags = []
        for s in f.body:
            hit = [t for t, tpl in templates if al.eq(s, tpl)]
            if hit:
                tags.append(hit[0])
            elif isinstance(s, ast.If) and al.eq(s.test, collision.test):
                if not al.eq(s.body, collision.body) or s.orelse:
                    raise Unsupported("collision branch changed: %r" % [ast.unparse(x) for x in s.body])
                tags.append("collisionRename")
            else:
                raise Unsupported("Compression.compression: unexpected statement " + ast.unparse(s))
        body += "def compressionOrder : List CStep := [%s]\n\n" % ", ".join("CStep." + t for t in tags)

        # ---------------------------------------------------------------- generate_rename_path
        same_body(find_func(tree, "generate_rename_path"), None, tree,
                  "def f(root, ext, creation_time):\n"
                  "    creation_datetime = datetime.datetime.fromtimestamp(creation_time)\n"
                  "    date = FileDateFormatter(creation_datetime)\n"
                  "    renamed_path = '{}.{}{}'.format(root, date, ext)\n"
                  "    counter = 1\n"
                  "    while os.path.exists(renamed_path):\n"
                  "        counter += 1\n"
                  "        renamed_path = '{}.{}.{}{}'.format(root, date, counter, ext)\n"
                  "    return renamed_path\n", "generate_rename_path")
        body += "/-- first counter value used by `generate_rename_path` (1 = name without counter) -/\n"
        body += "def renameFirstCounter : Nat := 1\n\n"

        # ---------------------------------------------------------------- FileSink defaults and order
        cls = find_class(tree, "FileSink")
        init = find_func(cls, "__init__")
        defaults = dict(zip([a.arg for a in init.args.kwonlyargs], init.args.kw_defaults))
        m = defaults.get("mode")
        if not (isinstance(m, ast.Constant) and isinstance(m.value, str)):
            raise Unsupported("FileSink.__init__: default mode")
        body += "def fileMode : Py.Str := %s\n" % lean_chars(m.value)
        kw = [s for s in init.body if ast.unparse(s).startswith("self._kwargs =")]
        if [ast.unparse(s) for s in kw] != ["self._kwargs = {**kwargs, 'mode': mode, 'buffering': buffering, 'encoding': self.encoding}"]:
            raise Unsupported("FileSink.__init__: _kwargs")
        f = norm_func(find_func(cls, "_create_file"), cls, tree)
        al = Alpha(_local_names(f), {"path"})
        if len(f.body) < 2 or not al.eq(f.body[:2], _ref("self._file = open(path, **self._kwargs)\nself._file_path = path")):
            raise Unsupported("_create_file changed")
        same_body(find_func(cls, "_create_dirs"), cls, tree,
                  "def f(self, path):\n"
                  "    dirname = os.path.dirname(path)\n"
                  "    os.makedirs(dirname, exist_ok=True)\n", "_create_dirs")
        # the path the sink remembers (`_file_path`, later handed to rename / compression / remove) is ABSOLUTE:
        # it must not depend on the working directory at the time the file is closed
        same_body(find_func(cls, "_create_path"), cls, tree,
                  "def f(self):\n"
                  "    path = self._path.format_map({'time': FileDateFormatter()})\n"
                  "    return os.path.abspath(path)\n", "_create_path")
        body += "def makedirsExistOk : Bool := true\n"
        body += "/-- `_create_path` returns `os.path.abspath(...)`: the remembered path is independent of the cwd -/\n"
        body += "def createPathAbsolute : Bool := true\n\n"

        f = norm_func(find_func(cls, "_close_file"), cls, tree)
        cl = Alpha(_local_names(f), {"file"})
        srcs = []
        for st_ in f.body:
            # the bound file object may carry any local name
            hit = [t for t in ("file = self._file", "file.flush()", "file.close()") if cl.eq(st_, _ref(t)[0])]
            srcs.append(hit[0] if hit else ast.unparse(st_))
        # `file = self._file` binds the object first (since e6154e8 it is flushed, forgotten, then closed);
        # the older spelling through `self._file` is still recognised so that a revert changes the generated
        # ORDER (and re-opens the proofs) instead of merely failing closed
        tagmap = {"file = self._file": "bindFile", "file.flush()": "flush", "file.close()": "close",
                  "self._file.flush()": "flush", "self._file.close()": "close", "self._file = None": "resetFile",
                  "self._file_path = None": "resetPath", "self._file_dev = -1": "resetDev", "self._file_ino = -1": "resetIno"}
        if any(s not in tagmap for s in srcs):
            raise Unsupported("_close_file changed: %r" % srcs)
        body += "def closeOrder : List CloseStep := [%s]\n\n" % ", ".join("CloseStep." + tagmap[s] for s in srcs)

        # order of the side-effecting calls in _terminate_file and write
        f = norm_func(find_func(cls, "_terminate_file"), cls, tree)
        calls = [c for c in _calls_in(f.body) if c.startswith(("self._", "os.", "glob.", "get_ctime", "set_ctime",
                                                                "generate_rename_path"))]
        want = ["self._close_file", "self._create_path", "self._create_dirs", "get_ctime", "os.path.splitext",
                "generate_rename_path", "os.rename", "self._compression_function", "glob.glob", "os.path.isfile",
                "self._retention_function", "self._create_file", "set_ctime"]
        if calls != want:
            raise Unsupported("_terminate_file call order changed: %r" % calls)
        tests = [ast.unparse(s.test) for s in f.body if isinstance(s, ast.If)]
        if tests != ["self._file is not None", "is_rotating", "is_rotating or self._rotation_function is None",
                     "is_rotating"]:
            raise Unsupported("_terminate_file tests changed: %r" % tests)
        body += "def terminateOrder : List TStep := [TStep.close, TStep.newPath, TStep.mkdirs, TStep.sameNameRename, " \
                "TStep.compression, TStep.retention, TStep.createFile]\n\n"
        f = norm_func(find_func(cls, "write"), cls, tree)
        calls = [c for c in _calls_in(f.body) if c.startswith("self.")]
        want = ["self._create_path", "self._create_dirs", "self._create_file", "self._reopen_if_needed",
                "self._rotation_function", "self._terminate_file", "self._file.write"]
        if calls != want:
            raise Unsupported("FileSink.write call order changed: %r" % calls)
        body += "def writeOrder : List WStep := [WStep.lazyCreate, WStep.reopen, WStep.rotationTest, WStep.terminate, WStep.writeMessage]\n"
    except (Unsupported, SyntaxError, KeyError, AttributeError, IndexError) as e:
        errors.append("%s: %s" % (type(e).__name__, e))
    body += "\nend FileSink.Gen\n"
    return emit("FileSink", body, ["loguru/_file_sink.py"], errors)
