"""Generated/FileSink.lean from loguru/_file_sink.py (C08, C18): compression format table, the
normalisation of the format spelling, FileSink defaults (mode), `exist_ok`, and the statement order
of `Compression.compression`, `FileSink._close_file`, `FileSink._terminate_file`, `FileSink.write`
(as lists of tags the theorems compare with the order the hand model follows).

Shapes are compared MODULO behaviour-preserving rewrites: local names (alpha-equivalence through a
bijection), `with a, b:` = nested `with`, and a call of a private helper of the same class / module whose
body is straight-line is followed one level deep (parameters substituted, `return e` turned into the
assignment).  What is pinned is the semantic content – which call, with which arguments, in which order,
under which test – not the source text.  Anything else still fails closed."""
import ast
import copy

from extract_lib import Unsupported, emit, find_class, find_func, lean_chars, parse_module


def _kw(call, name):
    for k in call.keywords:
        if k.arg == name:
            return k.value
    return None


def _calls_in(stmts):
    """source text of every call expression in a statement list, in evaluation-ish (source) order"""
    out = []

    class V(ast.NodeVisitor):
        def visit_Call(self, node):
            for a in node.args:
                self.visit(a)
            for k in node.keywords:
                self.visit(k.value)
            self.visit(node.func)
            out.append(ast.unparse(node.func))

    for s in stmts:
        V().visit(s)
    return out


# ----------------------------------------------------------------------------- normalisation
# methods / functions the model has a counterpart for: never inlined (their *calls* are what is pinned)
MODELLED = {"_create_path", "_create_dirs", "_create_file", "_close_file", "_reopen_if_needed", "_terminate_file",
            "_make_glob_patterns", "_make_rotation_function", "_make_retention_function",
            "_make_compression_function"}
_SUBLISTS = ("body", "orelse", "finalbody")


def _local_names(fn):
    """parameters and every name bound inside the function (imports excepted: module names are content)"""
    out = {a.arg for a in fn.args.posonlyargs + fn.args.args + fn.args.kwonlyargs}
    if fn.args.vararg:
        out.add(fn.args.vararg.arg)
    if fn.args.kwarg:
        out.add(fn.args.kwarg.arg)
    for node in ast.walk(fn):
        if isinstance(node, ast.Name) and isinstance(node.ctx, ast.Store):
            out.add(node.id)
    out.discard("self")
    return out


def _names_in(node):
    return {n.id for n in ast.walk(node) if isinstance(n, ast.Name)}


class _Subst(ast.NodeTransformer):
    def __init__(self, mapping):
        self.mapping = mapping

    def visit_Name(self, node):
        if node.id in self.mapping:
            new = copy.deepcopy(self.mapping[node.id])
            if isinstance(new, ast.Name):
                new.ctx = node.ctx
            return new
        return node


def _helper_of(call, cls, tree):
    """(FunctionDef, skip_self) for `self._h(...)`, `Cls._h(...)`, `_h(...)` with a private, non-modelled `_h`"""
    f = call.func
    name, owner, skip = None, None, False
    if isinstance(f, ast.Attribute) and isinstance(f.value, ast.Name):
        if f.value.id == "self" and cls is not None:
            name, owner, skip = f.attr, cls, True
        elif cls is not None and f.value.id == cls.name:
            name, owner = f.attr, cls
    elif isinstance(f, ast.Name):
        name, owner = f.id, tree
    if name is None or not name.startswith("_") or name.startswith("__") or name in MODELLED:
        return None
    for node in owner.body:
        if isinstance(node, ast.FunctionDef) and node.name == name:
            static = any(isinstance(d, ast.Name) and d.id == "staticmethod" for d in node.decorator_list)
            if owner is tree:
                return node, False
            if skip:
                return node, not static
            return (node, False) if static else None
    return None


def _inline_call(stmt, cls, tree, counter):
    """the statements replacing `stmt` when it is `h(args)` / `x = h(args)` for an inlinable helper, else None"""
    if isinstance(stmt, ast.Expr) and isinstance(stmt.value, ast.Call):
        call, target = stmt.value, None
    elif isinstance(stmt, ast.Assign) and len(stmt.targets) == 1 and isinstance(stmt.value, ast.Call):
        call, target = stmt.value, stmt.targets[0]
    else:
        return None
    found = _helper_of(call, cls, tree)
    if found is None:
        return None
    h, skip_self = found
    a = h.args
    params = [x.arg for x in a.args][1 if skip_self else 0:]
    if a.vararg or a.kwarg or a.kwonlyargs or a.defaults or a.posonlyargs or call.keywords \
            or len(call.args) != len(params):
        return None
    if not all(isinstance(x, (ast.Name, ast.Attribute, ast.Constant)) for x in call.args):
        return None          # only side-effect-free argument expressions may be substituted
    stmts = [s for s in h.body if not (isinstance(s, ast.Expr) and isinstance(s.value, ast.Constant))]
    if not stmts:
        return None
    for i, s in enumerate(stmts):
        last = i == len(stmts) - 1
        if isinstance(s, ast.Return):
            if not last:
                return None
        elif not isinstance(s, (ast.Assign, ast.Expr, ast.AugAssign)):
            return None      # straight-line bodies only
        if any(isinstance(n, (ast.Return, ast.Yield, ast.YieldFrom, ast.Await)) for n in ast.walk(s)) \
                and not isinstance(s, ast.Return):
            return None
    counter[0] += 1
    tag = "_h%d_" % counter[0]
    bound = _local_names(h) - set(params)
    if any(p in bound for p in params):
        return None          # a parameter that is re-assigned cannot be replaced by the argument
    mapping = {p: arg for p, arg in zip(params, call.args)}
    mapping.update({n: ast.Name(id=tag + n, ctx=ast.Load()) for n in bound})
    out = []
    for s in stmts:
        s2 = _Subst(mapping).visit(copy.deepcopy(s))
        if isinstance(s2, ast.Return):
            if s2.value is None:
                if target is not None:
                    return None
                continue
            if target is not None:
                s2 = ast.Assign(targets=[copy.deepcopy(target)], value=s2.value, lineno=0, col_offset=0)
            elif any(isinstance(n, ast.Call) for n in ast.walk(s2.value)):
                s2 = ast.Expr(value=s2.value)
            else:
                continue
        out.append(ast.fix_missing_locations(s2))
    if target is not None and not (stmts and isinstance(stmts[-1], ast.Return)):
        return None
    return out


def _norm_stmts(stmts, cls, tree, counter):
    out = []
    for s in stmts:
        if isinstance(s, ast.With) and len(s.items) > 1:          # `with a, b:` = nested with
            inner = ast.With(items=s.items[1:], body=s.body, lineno=0, col_offset=0)
            s = ast.With(items=s.items[:1], body=[inner], lineno=0, col_offset=0)
        repl = _inline_call(s, cls, tree, counter)
        if repl is not None:
            out.extend(repl)
            continue
        for field in _SUBLISTS:
            if isinstance(getattr(s, field, None), list) and not isinstance(s, (ast.FunctionDef, ast.ClassDef)):
                setattr(s, field, _norm_stmts(getattr(s, field), cls, tree, counter))
        if isinstance(s, ast.Try):
            for hnd in s.handlers:
                hnd.body = _norm_stmts(hnd.body, cls, tree, counter)
        out.append(s)
    return out


def norm_func(fn, cls, tree):
    """a copy of `fn` with helper calls followed one level deep and `with` items un-merged"""
    fn = copy.deepcopy(fn)
    fn.body = _norm_stmts([s for s in fn.body], cls, tree, [0])
    return ast.fix_missing_locations(fn)


class Alpha:
    """structural equality of ASTs modulo a bijection between the local names of two functions"""

    def __init__(self, locals_a, locals_b):
        self.la, self.lb, self.ab, self.ba = set(locals_a), set(locals_b), {}, {}

    def _name(self, a, b):
        ia, ib = a in self.la, b in self.lb
        if not ia and not ib:
            return a == b
        if ia != ib:
            return False
        if self.ab.get(a, b) != b or self.ba.get(b, a) != a:
            return False
        self.ab[a], self.ba[b] = b, a
        return True

    def _eq(self, x, y):
        if isinstance(x, ast.AST):
            if type(x) is not type(y):
                return False
            if isinstance(x, ast.Name):
                return self._name(x.id, y.id)
            if isinstance(x, ast.arg):
                return self._name(x.arg, y.arg)
            for (fa, va), (fb, vb) in zip(ast.iter_fields(x), ast.iter_fields(y)):
                if fa != fb or not self._eq(va, vb):
                    return False
            return True
        if isinstance(x, list):
            return isinstance(y, list) and len(x) == len(y) and all(self._eq(a, b) for a, b in zip(x, y))
        return x == y

    def eq(self, x, y):
        """compare; the bijection is extended only when the comparison succeeds"""
        saved = (dict(self.ab), dict(self.ba))
        if self._eq(x, y):
            return True
        self.ab, self.ba = saved
        return False

    def actual(self, ref_name):
        return self.ba.get(ref_name)


def _ref(src):
    return ast.parse(src).body


def _ref_locals(stmts, extra=()):
    out = set(extra)
    for s in stmts:
        for n in ast.walk(s):
            if isinstance(n, ast.Name) and isinstance(n.ctx, ast.Store):
                out.add(n.id)
    return out


def same_body(fn, cls, tree, ref_src, what):
    """the normalised body of `fn` equals the reference function `ref_src` modulo local names"""
    ref = ast.parse(ref_src).body[0]
    f = norm_func(fn, cls, tree)
    body = [s for s in f.body if not (isinstance(s, ast.Expr) and isinstance(s.value, ast.Constant))]
    al = Alpha(_local_names(f), _local_names(ref))
    if not (al.eq(f.args, ref.args) and al.eq(body, ref.body)):
        raise Unsupported("%s changed: %s" % (what, "; ".join(ast.unparse(s) for s in body)[:300]))
    return al

# ----------------------------------------------------------------------------- round 5: more shapes
def _format_pieces(call, al, canon):
    """`'<template>'.format(a, b, ...)` -> list of Lean `Piece`s; arguments are the reference locals of `canon`"""
    import string as _string
    if not (isinstance(call, ast.Call) and isinstance(call.func, ast.Attribute) and call.func.attr == "format"
            and isinstance(call.func.value, ast.Constant) and isinstance(call.func.value.value, str)
            and not call.keywords):
        raise Unsupported("rename template: not a literal str.format call: " + ast.unparse(call)[:80])
    args = []
    for a in call.args:
        if not isinstance(a, ast.Name):
            raise Unsupported("rename template: argument is not a local name: " + ast.unparse(a))
        ref = al.ab.get(a.id)
        if ref not in canon:
            raise Unsupported("rename template: unknown argument " + a.id)
        args.append(canon[ref])
    pieces, auto = [], 0
    for text, field, spec, conv in _string.Formatter().parse(call.func.value.value):
        if text:
            pieces.append("Piece.lit %s" % lean_chars(text))
        if field is None:
            continue
        if spec or conv:
            raise Unsupported("rename template: format spec / conversion in %r" % call.func.value.value)
        if field == "":
            idx = auto
            auto += 1
        elif field.isdigit():
            idx = int(field)
        else:
            raise Unsupported("rename template: named field %r" % field)
        if idx >= len(args):
            raise Unsupported("rename template: field index out of range")
        pieces.append("Piece.arg %d" % args[idx])
    return "[" + ", ".join(pieces) + "]"


def _rename_templates(fn):
    """the whole body of `generate_rename_path` has been pinned (same_body) – here the two templates are READ"""
    ref_locals = {"root", "ext", "creation_time", "creation_datetime", "date", "renamed_path", "counter"}
    ref = ast.parse("def f(root, ext, creation_time):\n"
                    "    creation_datetime = datetime.datetime.fromtimestamp(creation_time)\n"
                    "    date = FileDateFormatter(creation_datetime)\n"
                    "    renamed_path = 0\n"
                    "    counter = 1\n"
                    "    while os.path.exists(renamed_path):\n"
                    "        counter += 1\n"
                    "        renamed_path = 0\n"
                    "    return renamed_path\n").body[0]
    body = [s for s in fn.body if not (isinstance(s, ast.Expr) and isinstance(s.value, ast.Constant))]
    al = Alpha(_local_names(fn), ref_locals)
    if len(body) != len(ref.body) or not al.eq(fn.args, ref.args):
        raise Unsupported("generate_rename_path: shape")
    for i in (0, 1, 3):
        if not al.eq(body[i], ref.body[i]):
            raise Unsupported("generate_rename_path: statement %d" % i)
    w, rw = body[4], ref.body[4]
    if not (isinstance(w, ast.While) and al.eq(w.test, rw.test) and len(w.body) == 2
            and al.eq(w.body[0], rw.body[0]) and not w.orelse):
        raise Unsupported("generate_rename_path: loop shape")
    first, loop = body[2], w.body[1]
    for s_ in (first, loop):
        if not (isinstance(s_, ast.Assign) and len(s_.targets) == 1 and al.eq(s_.targets[0], ref.body[2].targets[0])):
            raise Unsupported("generate_rename_path: template assignment")
    if not al.eq(body[5], ref.body[5]):
        raise Unsupported("generate_rename_path: return")
    canon = {"root": 0, "date": 1, "ext": 2, "counter": 3}
    out = "/-- `renamed_path = '{}.{}{}'.format(root, date, ext)`; arguments numbered root=0, date=1, ext=2, counter=3 -/\n"
    out += "def renameFirstTemplate : List Piece := %s\n" % _format_pieces(first.value, al, canon)
    out += "/-- the template inside the `while os.path.exists(renamed_path)` loop -/\n"
    out += "def renameLoopTemplate : List Piece := %s\n" % _format_pieces(loop.value, al, canon)
    # the increment precedes the template in the loop body: the first counter printed is renameFirstCounter + 1
    out += "def renameCounterStep : Nat := 1\n\n"
    return out


def _compress_prims(comp, tree):
    """the primitive sequence of each compress function, READ from its `with` nest: which objects are opened in
    which order (the source in which mode), what transfers the data (under which member name), and the exits"""
    rows = []
    for fname, kind in (("copy_compress", "copy"), ("add_compress", "add"), ("write_compress", "write")):
        f = norm_func(find_func(comp, fname), comp, tree)
        al = Alpha(_local_names(f), {"path_in", "path_out", "opener", "kwargs", "f_in", "f_out", "f_comp"})
        if not al.eq(f.args, ast.parse("def f(path_in, path_out, opener, **kwargs): pass").body[0].args):
            raise Unsupported(fname + ": parameters changed")
        body = [s for s in f.body if not (isinstance(s, ast.Expr) and isinstance(s.value, ast.Constant))]
        prims, closes = [], []
        while len(body) == 1 and isinstance(body[0], ast.With) and len(body[0].items) == 1:
            item = body[0].items[0]
            ce = item.context_expr
            if al.eq(ce, _ref("opener(path_out, **kwargs)")[0].value):
                prims.append("CPrim.openArchive")
                closes.append("CPrim.closeArchive")
            elif (isinstance(ce, ast.Call) and isinstance(ce.func, ast.Name) and ce.func.id == "open" and len(ce.args) == 2
                  and not ce.keywords and al.eq(ce.args[0], _ref("path_in")[0].value)
                  and isinstance(ce.args[1], ast.Constant) and isinstance(ce.args[1].value, str)
                  and set(ce.args[1].value) <= set("rbt")):
                prims.append("CPrim.openSource %s" % ("true" if "b" in ce.args[1].value else "false"))
                closes.append("CPrim.closeSource")
            else:
                raise Unsupported(fname + ": unexpected context manager " + ast.unparse(ce))
            if item.optional_vars is not None and not isinstance(item.optional_vars, ast.Name):
                raise Unsupported(fname + ": with-target")
            if item.optional_vars is not None:
                al.eq(item.optional_vars, ast.Name(id={"CPrim.openArchive": "f_out" if kind == "copy" else "f_comp"}.get(
                    prims[-1], "f_in"), ctx=ast.Store()))
            body = body[0].body
        if len(body) != 1 or not isinstance(body[0], ast.Expr):
            raise Unsupported(fname + ": body of the with nest")
        tr = body[0].value
        if kind == "copy" and al.eq(tr, _ref("shutil.copyfileobj(f_in, f_out)")[0].value):
            prims.append("CPrim.transfer false")
        elif kind != "copy" and al.eq(tr, _ref("f_comp.%s(path_in, os.path.basename(path_in))" % kind)[0].value):
            prims.append("CPrim.transfer true")
        elif kind != "copy" and al.eq(tr, _ref("f_comp.%s(path_in)" % kind)[0].value):
            prims.append("CPrim.transfer false")
        else:
            raise Unsupported(fname + ": unexpected transfer " + ast.unparse(tr))
        rows.append((kind, prims + closes[::-1]))
    out = "/-- primitive sequence of `copy_compress` / `add_compress` / `write_compress` (from the `with` nests) -/\n"
    out += "def compressPrims : CompKind → List CPrim\n"
    for kind, prims in rows:
        out += "  | CompKind.%s => [%s]\n" % (kind, ", ".join(prims))
    return out + "\n"


def _bool_kernel(test, al, atoms):
    """a test built with or/and/not over recognised atoms -> Lean Bool expression"""
    if isinstance(test, ast.BoolOp):
        op = " || " if isinstance(test.op, ast.Or) else " && "
        return "(" + op.join(_bool_kernel(v, al, atoms) for v in test.values) + ")"
    if isinstance(test, ast.UnaryOp) and isinstance(test.op, ast.Not):
        for name, tpl in atoms:
            if al.eq(test, tpl):
                return name
        return "(!" + _bool_kernel(test.operand, al, atoms) + ")"
    for name, tpl in atoms:
        if al.eq(test, tpl):
            return name
    raise Unsupported("_reopen_if_needed: unknown test atom " + ast.unparse(test))


def _terminate_tests(f):
    """the guards of the four top-level `if`s of `_terminate_file` (and of the retention `if` inside the third one) as
    Bool kernels over named atoms; the same-path test and the compression test stay pinned by shape"""
    al = Alpha(_local_names(f), {"is_rotating", "old_path", "new_path", "creation_time", "root", "ext",
                                 "renamed_path", "logs"})
    atoms = [("rotating", _ref("is_rotating")[0].value),
             ("hasRot", _ref("self._rotation_function is not None")[0].value),
             ("(!hasRot)", _ref("self._rotation_function is None")[0].value),
             ("hasFile", _ref("self._file is not None")[0].value),
             ("(!hasFile)", _ref("self._file is None")[0].value),
             ("hasRet", _ref("self._retention_function is not None")[0].value),
             ("(!hasRet)", _ref("self._retention_function is None")[0].value)]
    ifs = [s for s in f.body if isinstance(s, ast.If)]
    if len(ifs) != 4 or any(s.orelse for s in ifs):
        raise Unsupported("_terminate_file: expected four top-level ifs without else, got %d" % len(ifs))

    def kernel(test, allowed):
        k = _bool_kernel(test, al, atoms)
        import re as _re
        used = set(_re.findall(r"[A-Za-z]+", k))
        if not used <= set(allowed):
            raise Unsupported("_terminate_file: test %s mentions %s" % (ast.unparse(test), sorted(used - set(allowed))))
        return k

    inner = [s for s in ifs[2].body if isinstance(s, ast.If)]
    if len(inner) != 2 or any(s.orelse for s in inner):
        raise Unsupported("_terminate_file: compression / retention ifs")
    comp = _ref("self._compression_function is not None and old_path is not None")[0].value
    if not al.eq(inner[0].test, comp):
        raise Unsupported("_terminate_file: compression test changed: " + ast.unparse(inner[0].test))
    same = [s for s in ifs[1].body if isinstance(s, ast.If)]
    if len(same) != 1 or same[0].orelse or not (al.eq(same[0].test, _ref("new_path == old_path")[0].value)
                                                or al.eq(same[0].test, _ref("old_path == new_path")[0].value)):
        raise Unsupported("_terminate_file: same-path test changed")
    out = "/-- guards of `_terminate_file`, translated from the source -/\n"
    out += "def termCloseTest (hasFile : Bool) : Bool := %s\n" % kernel(ifs[0].test, ["hasFile"])
    out += "def termPrepTest (rotating : Bool) : Bool := %s\n" % kernel(ifs[1].test, ["rotating"])
    out += "def termFinishTest (rotating hasRot : Bool) : Bool := %s\n" % kernel(ifs[2].test, ["rotating", "hasRot"])
    out += "def termRetainTest (hasRet : Bool) : Bool := %s\n" % kernel(inner[1].test, ["hasRet"])
    out += "def termRecreateTest (rotating : Bool) : Bool := %s\n" % kernel(ifs[3].test, ["rotating"])
    return out


def _reopen_shape(cls, tree):
    """`_reopen_if_needed`: guard, stat with the FileNotFoundError handler, the re-open test (as a Bool kernel over
    missing / dev differs / ino differs) and the ORDER of the re-open branch; `_create_file` records (dev, ino)"""
    f = norm_func(find_func(cls, "_reopen_if_needed"), cls, tree)
    body = [s for s in f.body if not (isinstance(s, ast.Expr) and isinstance(s.value, ast.Constant))]
    al = Alpha(_local_names(f), {"filepath", "result"})
    if len(body) != 4:
        raise Unsupported("_reopen_if_needed: %d statements" % len(body))
    g = body[0]
    guards = [_ref("not self._file")[0].value, _ref("self._file is None")[0].value]
    if not (isinstance(g, ast.If) and any(al.eq(g.test, t) for t in guards) and len(g.body) == 1
            and isinstance(g.body[0], ast.Return) and g.body[0].value is None and not g.orelse):
        raise Unsupported("_reopen_if_needed: guard changed: " + ast.unparse(g)[:80])
    if not al.eq(body[1], _ref("filepath = self._file_path")[0]):
        raise Unsupported("_reopen_if_needed: path binding changed")
    if not al.eq(body[2], _ref("try:\n    result = os.stat(filepath)\nexcept FileNotFoundError:\n    result = None\n")[0]):
        raise Unsupported("_reopen_if_needed: stat block changed: " + ast.unparse(body[2])[:120])
    t = body[3]
    if not (isinstance(t, ast.If) and not t.orelse):
        raise Unsupported("_reopen_if_needed: last statement is not the re-open test")
    atoms = [("missing", _ref("not result")[0].value), ("missing", _ref("result is None")[0].value),
             ("devDiff", _ref("result[ST_DEV] != self._file_dev")[0].value),
             ("inoDiff", _ref("result[ST_INO] != self._file_ino")[0].value),
             ("devDiff", _ref("self._file_dev != result[ST_DEV]")[0].value),
             ("inoDiff", _ref("self._file_ino != result[ST_INO]")[0].value)]
    kernel = _bool_kernel(t.test, al, atoms)
    steps = {"close": _ref("self._close_file()")[0], "mkdirs": _ref("self._create_dirs(filepath)")[0],
             "create": _ref("self._create_file(filepath)")[0]}
    order = []
    for s_ in t.body:
        hit = [k for k, tpl in steps.items() if al.eq(s_, tpl)]
        if not hit:
            raise Unsupported("_reopen_if_needed: unexpected statement in the re-open branch: " + ast.unparse(s_))
        order.append(hit[0])
    same_body(find_func(cls, "_create_file"), cls, tree,
              "def f(self, path):\n"
              "    self._file = open(path, **self._kwargs)\n"
              "    self._file_path = path\n"
              "    if self._watch:\n"
              "        fileno = self._file.fileno()\n"
              "        result = os.fstat(fileno)\n"
              "        self._file_dev = result[ST_DEV]\n"
              "        self._file_ino = result[ST_INO]\n", "_create_file")
    out = "\n/-- the test of `_reopen_if_needed` (file missing, device differs, inode differs) -/\n"
    out += "def reopenNeeded (missing devDiff inoDiff : Bool) : Bool := %s\n" % kernel
    out += "/-- the re-open branch, in source order -/\n"
    out += "def reopenOrder : List RStep := [%s]\n" % ", ".join("RStep." + k for k in order)
    out += "/-- `_create_file` records `os.fstat(fileno)[ST_DEV/ST_INO]` when `watch` is set -/\n"
    out += "def createRecordsIdentity : Bool := true\n"
    return out


def _reporter_shape():
    """`ErrorInterceptor.print` (the catch mechanism every failed file operation is reported through) is PER CALL: no
    method of the class other than `__init__` stores to an attribute of `self` (no state survives from one report to
    the next, nothing is shared between threads), and the only early return of `print` is the `sys.stderr` guard"""
    tree, _ = parse_module("_error_interceptor.py")
    cls = find_class(tree, "ErrorInterceptor")
    for fn in cls.body:
        if not isinstance(fn, ast.FunctionDef) or fn.name == "__init__":
            continue
        for node in ast.walk(fn):
            if isinstance(node, (ast.Global, ast.Nonlocal)):
                raise Unsupported("ErrorInterceptor.%s: global/nonlocal state" % fn.name)
            if isinstance(node, ast.Attribute) and isinstance(node.ctx, (ast.Store, ast.Del)) \
                    and isinstance(node.value, ast.Name) and node.value.id == "self":
                raise Unsupported("ErrorInterceptor.%s keeps state across calls: self.%s is assigned"
                                  % (fn.name, node.attr))
    pr = find_func(cls, "print")
    stmts = [s_ for s_ in pr.body if not (isinstance(s_, ast.Expr) and isinstance(s_.value, ast.Constant))]
    returns = [n for n in ast.walk(pr) if isinstance(n, ast.Return)]
    guard = stmts[0] if stmts else None
    ok_guard = (isinstance(guard, ast.If) and ast.unparse(guard.test) in ("not sys.stderr", "sys.stderr is None")
                and len(guard.body) == 1 and isinstance(guard.body[0], ast.Return) and guard.body[0].value is None
                and not guard.orelse)
    if not ok_guard or len(returns) != 1:
        raise Unsupported("ErrorInterceptor.print: early returns other than the sys.stderr guard: %r"
                          % [ast.unparse(r) for r in returns])
    out = "\n/-- `ErrorInterceptor`: no method but `__init__` assigns an attribute of `self` (reports are per call) -/\n"
    out += "def reporterStateless : Bool := true\n"
    out += "/-- early returns of `ErrorInterceptor.print` (the `sys.stderr` guard only) -/\n"
    out += "def reporterEarlyReturns : Nat := 1\n"
    return out


def _stop_shape(cls, tree):
    f = norm_func(find_func(cls, "stop"), cls, tree)
    body = [s for s in f.body if not (isinstance(s, ast.Expr) and isinstance(s.value, ast.Constant))]
    al = Alpha(_local_names(f), set())
    order = []
    for s_ in body:
        if al.eq(s_, _ref("if self._watch:\n    self._reopen_if_needed()\n")[0]):
            order.append("reopen")
        elif al.eq(s_, _ref("self._terminate_file(is_rotating=False)")[0]):
            order.append("terminate")
        else:
            raise Unsupported("FileSink.stop: unexpected statement " + ast.unparse(s_)[:80])
    return "def stopOrder : List SStep := [%s]\n" % ", ".join("SStep." + k for k in order)


def generate():
    errors = []
    body = "import LoguruModel.FileSink.Base\nnamespace FileSink.Gen\nopen FileSink\n\n"
    try:
        tree, _ = parse_module("_file_sink.py")
        # ---------------------------------------------------------------- format table
        fsink = find_class(tree, "FileSink")
        fn = norm_func(find_func(tree, "_make_compression_function", cls="FileSink"), fsink, tree)
        st = fn.body
        al = Alpha(_local_names(fn), {"compression", "ext", "compress"})
        if not (isinstance(st[0], ast.If) and al.eq(st[0].test, _ref("compression is None")[0].value)
                and ast.unparse(st[0].body[0]) == "return None"):
            raise Unsupported("_make_compression_function: first statement is not the None test")
        s_if = st[1]
        if not (isinstance(s_if, ast.If) and al.eq(s_if.test, _ref("isinstance(compression, str)")[0].value)):
            raise Unsupported("_make_compression_function: second statement is not the str test")
        norm = s_if.body[0]
        if not al.eq(norm, _ref("ext = compression.strip().lstrip('.')")[0]):
            raise Unsupported("normalisation of the spelling changed: " + ast.unparse(norm))
        ext_name = al.actual("ext")
        rows = []
        node = s_if.body[1]
        kinds = {"Compression.copy_compress": "copy", "Compression.add_compress": "add",
                 "Compression.write_compress": "write"}
        while True:
            if not (isinstance(node, ast.If) and isinstance(node.test, ast.Compare)
                    and ast.unparse(node.test.left) == ext_name and isinstance(node.test.ops[0], ast.Eq)
                    and isinstance(node.test.comparators[0], ast.Constant)):
                raise Unsupported("format chain: unexpected test " + ast.unparse(node)[:60])
            name = node.test.comparators[0].value
            assigns = [s for s in node.body if isinstance(s, ast.Assign)]
            others = [s for s in node.body if not isinstance(s, (ast.Assign, ast.Import))]
            if len(assigns) != 1 or others or not al.eq(assigns[0].targets[0], _ref("compress = 0")[0].targets[0]):
                raise Unsupported("format %s: body shape" % name)
            call = assigns[0].value
            if not (isinstance(call, ast.Call) and ast.unparse(call.func) == "partial" and len(call.args) == 1):
                raise Unsupported("format %s: not a partial(...)" % name)
            kind = kinds.get(ast.unparse(call.args[0]))
            if kind is None:
                raise Unsupported("format %s: unknown compress function" % name)
            mode = _kw(call, "mode")
            opener = _kw(call, "opener")
            if not (isinstance(mode, ast.Constant) and isinstance(mode.value, str)) or opener is None:
                raise Unsupported("format %s: mode/opener" % name)
            extra = [(k.arg, ast.unparse(k.value)) for k in call.keywords if k.arg not in ("mode", "opener")]
            rows.append((name, kind, ast.unparse(opener), mode.value,
                         ",".join("%s=%s" % e for e in extra)))
            if len(node.orelse) == 1 and isinstance(node.orelse[0], ast.If):
                node = node.orelse[0]
                continue
            if not (len(node.orelse) == 1 and isinstance(node.orelse[0], ast.Raise)
                    and ast.unparse(node.orelse[0].exc).startswith("ValueError(")):
                raise Unsupported("format chain does not end with raise ValueError")
            break
        ret = s_if.body[2]
        want = "partial(Compression.compression, ext='.' + ext, compress_function=compress)"
        if not (isinstance(ret, ast.Return) and len(s_if.body) == 3 and al.eq(ret.value, _ref(want)[0].value)):
            raise Unsupported("compression partial changed: " + ast.unparse(ret))
        body += "/-- `(ext, kind, opener, mode, extra keywords)` in the order of the if-chain -/\n"
        body += "def formatTable : List (Py.Str × CompKind × Py.Str × Py.Str × Py.Str) := [\n"
        body += ",\n".join("  (%s, CompKind.%s, %s, %s, %s)" % (lean_chars(n), k, lean_chars(o), lean_chars(m), lean_chars(x))
                           for n, k, o, m, x in rows) + "]\n\n"
        body += "/-- `ext = compression.strip().lstrip('.')` -/\ndef lstripChars : Py.Str := %s\n" % lean_chars(".")
        body += "/-- archive suffix is `'.' + ext` -/\ndef extPrefix : Py.Str := %s\n\n" % lean_chars(".")

        # ---------------------------------------------------------------- compress functions
        comp = find_class(tree, "Compression")
        for fname, meth in (("add_compress", "add"), ("write_compress", "write")):
            same_body(find_func(comp, fname), comp, tree,
                      "def f(path_in, path_out, opener, **kwargs):\n"
                      "    with opener(path_out, **kwargs) as f_comp:\n"
                      "        f_comp.%s(path_in, os.path.basename(path_in))\n" % meth, fname)
        same_body(find_func(comp, "copy_compress"), comp, tree,
                  "def f(path_in, path_out, opener, **kwargs):\n"
                  "    with open(path_in, 'rb') as f_in:\n"
                  "        with opener(path_out, **kwargs) as f_out:\n"
                  "            shutil.copyfileobj(f_in, f_out)\n", "copy_compress")
        body += "/-- tar/zip members are stored under `os.path.basename(path_in)` -/\ndef memberIsBasename : Bool := true\n\n"
        body += _compress_prims(comp, tree)

        # ---------------------------------------------------------------- Compression.compression order
        f = norm_func(find_func(comp, "compression"), comp, tree)
        ref_locals = {"path_in", "ext", "compress_function", "path_out", "creation_time", "root", "ext_before",
                      "renamed_path"}
        al = Alpha(_local_names(f), ref_locals)
        if not al.eq(f.args, ast.parse("def f(path_in, ext, compress_function): pass").body[0].args):
            raise Unsupported("Compression.compression: parameters changed")
        templates = [("pathOut", _ref("path_out = '{}{}'.format(path_in, ext)")[0]),
                     ("compress", _ref("compress_function(path_in, path_out)")[0]),
                     ("removeSource", _ref("os.remove(path_in)")[0])]
        collision = _ref("if os.path.exists(path_out):\n"
                         "    creation_time = get_ctime(path_out)\n"
                         "    root, ext_before = os.path.splitext(path_in)\n"
                         "    renamed_path = generate_rename_path(root, ext_before + ext, creation_time)\n"
                         "    os.rename(path_out, renamed_path)\n")[0]
        tags = []
        for s in f.body:
            hit = [t for t, tpl in templates if al.eq(s, tpl)]
            if hit:
                tags.append(hit[0])
            elif isinstance(s, ast.If) and al.eq(s.test, collision.test):
                if not al.eq(s.body, collision.body) or s.orelse:
                    raise Unsupported("collision branch changed: %r" % [ast.unparse(x) for x in s.body])
                tags.append("collisionRename")
            else:
                raise Unsupported("Compression.compression: unexpected statement " + ast.unparse(s))
        body += "def compressionOrder : List CStep := [%s]\n\n" % ", ".join("CStep." + t for t in tags)

        # ---------------------------------------------------------------- generate_rename_path
        same_body(find_func(tree, "generate_rename_path"), None, tree,
                  "def f(root, ext, creation_time):\n"
                  "    creation_datetime = datetime.datetime.fromtimestamp(creation_time)\n"
                  "    date = FileDateFormatter(creation_datetime)\n"
                  "    renamed_path = '{}.{}{}'.format(root, date, ext)\n"
                  "    counter = 1\n"
                  "    while os.path.exists(renamed_path):\n"
                  "        counter += 1\n"
                  "        renamed_path = '{}.{}.{}{}'.format(root, date, counter, ext)\n"
                  "    return renamed_path\n", "generate_rename_path")
        body += "/-- first counter value used by `generate_rename_path` (1 = name without counter) -/\n"
        body += "def renameFirstCounter : Nat := 1\n\n"
        # the two name templates of `generate_rename_path`, read from the format strings themselves: pieces of
        # literal text and arguments, the arguments numbered canonically root=0, date=1, ext=2, counter=3
        body += _rename_templates(find_func(tree, "generate_rename_path"))

        # ---------------------------------------------------------------- FileSink defaults and order
        cls = find_class(tree, "FileSink")
        init = find_func(cls, "__init__")
        defaults = dict(zip([a.arg for a in init.args.kwonlyargs], init.args.kw_defaults))
        m = defaults.get("mode")
        if not (isinstance(m, ast.Constant) and isinstance(m.value, str)):
            raise Unsupported("FileSink.__init__: default mode")
        body += "def fileMode : Py.Str := %s\n" % lean_chars(m.value)
        kw = [s for s in init.body if ast.unparse(s).startswith("self._kwargs =")]
        if [ast.unparse(s) for s in kw] != ["self._kwargs = {**kwargs, 'mode': mode, 'buffering': buffering, 'encoding': self.encoding}"]:
            raise Unsupported("FileSink.__init__: _kwargs")
        f = norm_func(find_func(cls, "_create_file"), cls, tree)
        al = Alpha(_local_names(f), {"path"})
        if len(f.body) < 2 or not al.eq(f.body[:2], _ref("self._file = open(path, **self._kwargs)\nself._file_path = path")):
            raise Unsupported("_create_file changed")
        same_body(find_func(cls, "_create_dirs"), cls, tree,
                  "def f(self, path):\n"
                  "    dirname = os.path.dirname(path)\n"
                  "    os.makedirs(dirname, exist_ok=True)\n", "_create_dirs")
        # the path the sink remembers (`_file_path`, later handed to rename / compression / remove) is ABSOLUTE:
        # it must not depend on the working directory at the time the file is closed
        same_body(find_func(cls, "_create_path"), cls, tree,
                  "def f(self):\n"
                  "    path = self._path.format_map({'time': FileDateFormatter()})\n"
                  "    return os.path.abspath(path)\n", "_create_path")
        body += "def makedirsExistOk : Bool := true\n"
        body += "/-- `_create_path` returns `os.path.abspath(...)`: the remembered path is independent of the cwd -/\n"
        body += "def createPathAbsolute : Bool := true\n\n"

        f = norm_func(find_func(cls, "_close_file"), cls, tree)
        cl = Alpha(_local_names(f), {"file"})
        srcs = []
        for st_ in f.body:
            # the bound file object may carry any local name
            hit = [t for t in ("file = self._file", "file.flush()", "file.close()") if cl.eq(st_, _ref(t)[0])]
            srcs.append(hit[0] if hit else ast.unparse(st_))
        # `file = self._file` binds the object first (since e6154e8 it is flushed, forgotten, then closed);
        # the older spelling through `self._file` is still recognised so that a revert changes the generated
        # ORDER (and re-opens the proofs) instead of merely failing closed
        tagmap = {"file = self._file": "bindFile", "file.flush()": "flush", "file.close()": "close",
                  "self._file.flush()": "flush", "self._file.close()": "close", "self._file = None": "resetFile",
                  "self._file_path = None": "resetPath", "self._file_dev = -1": "resetDev", "self._file_ino = -1": "resetIno"}
        if any(s not in tagmap for s in srcs):
            raise Unsupported("_close_file changed: %r" % srcs)
        body += "def closeOrder : List CloseStep := [%s]\n\n" % ", ".join("CloseStep." + tagmap[s] for s in srcs)

        # order of the side-effecting calls in _terminate_file and write
        f = norm_func(find_func(cls, "_terminate_file"), cls, tree)
        calls = [c for c in _calls_in(f.body) if c.startswith(("self._", "os.", "glob.", "get_ctime", "set_ctime",
                                                                "generate_rename_path"))]
        want = ["self._close_file", "self._create_path", "self._create_dirs", "get_ctime", "os.path.splitext",
                "generate_rename_path", "os.rename", "self._compression_function", "glob.glob", "os.path.isfile",
                "self._retention_function", "self._create_file", "set_ctime"]
        if calls != want:
            raise Unsupported("_terminate_file call order changed: %r" % calls)
        body += _terminate_tests(f)
        body += "def terminateOrder : List TStep := [TStep.close, TStep.newPath, TStep.mkdirs, TStep.sameNameRename, " \
                "TStep.compression, TStep.retention, TStep.createFile]\n\n"
        f = norm_func(find_func(cls, "write"), cls, tree)
        calls = [c for c in _calls_in(f.body) if c.startswith("self.")]
        want = ["self._create_path", "self._create_dirs", "self._create_file", "self._reopen_if_needed",
                "self._rotation_function", "self._terminate_file", "self._file.write"]
        if calls != want:
            raise Unsupported("FileSink.write call order changed: %r" % calls)
        body += "def writeOrder : List WStep := [WStep.lazyCreate, WStep.reopen, WStep.rotationTest, WStep.terminate, WStep.writeMessage]\n"
        body += _reopen_shape(cls, tree)
        body += _stop_shape(cls, tree)
        body += _reporter_shape()
    except (Unsupported, SyntaxError, KeyError, AttributeError, IndexError) as e:
        errors.append("%s: %s" % (type(e).__name__, e))
    body += "\nend FileSink.Gen\n"
    return emit("FileSink", body, ["loguru/_file_sink.py", "loguru/_error_interceptor.py"], errors)
