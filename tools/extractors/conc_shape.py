"""Generated/ConcShape.lean: publication order in Logger._change_activation and read order in the cache-miss path
of Logger._log (C02, model Conc/Activation.lean)."""
import ast

from extract_lib import Unsupported, emit, find_func, parse_module


def _is_core_lock(w):
    return isinstance(w, ast.With) and len(w.items) == 1 and ast.unparse(w.items[0].context_expr) == "self._core.lock"


def levels_shape(tree):
    """Conc/Levels.lean: order of publication in Logger.level(), and whether add() builds the Handler under the
    core lock under which it registers it."""
    out = ""
    fn = find_func(tree, "level", cls="Logger")
    locks = [w for w in ast.walk(fn) if _is_core_lock(w)]
    if len(locks) != 1:
        raise Unsupported("Logger.level: expected exactly one `with self._core.lock:` block, found %d" % len(locks))
    idx = {}
    for i, st in enumerate(locks[0].body):
        src = ast.unparse(st)
        if isinstance(st, ast.Assign) and len(st.targets) == 1:
            tgt = ast.unparse(st.targets[0])
            if tgt in ("self._core.levels_lookup[name]", "self._core.levels_ansi_codes[name]", "self._core.levels[name]"):
                idx[tgt.split(".")[-1].split("[")[0]] = i
                continue
        if isinstance(st, ast.For) and ast.unparse(st.iter) == "self._core.handlers.values()" and \
                [ast.unparse(b) for b in st.body] == ["%s.update_format(name)" % ast.unparse(st.target)]:
            idx["loop"] = i
            continue
        raise Unsupported("Logger.level: unexpected statement under the lock: %s" % src.splitlines()[0])
    if set(idx) != {"levels_lookup", "levels_ansi_codes", "levels", "loop"}:
        raise Unsupported("Logger.level: lock block does not consist of the three table stores and the handler loop: %r" % idx)
    for node in ast.walk(fn):
        if isinstance(node, ast.Subscript) and isinstance(node.ctx, ast.Store) and \
                ast.unparse(node.value) in ("self._core.levels_lookup", "self._core.levels_ansi_codes") and \
                not any(node in ast.walk(w) for w in locks):
            raise Unsupported("Logger.level stores into a level table outside the core lock")
    if not idx["levels_ansi_codes"] < idx["loop"]:
        raise Unsupported("Logger.level: handlers are updated before levels_ansi_codes holds the new code")
    out += "/-- `level()` publishes the name in `levels_lookup` before the registered handlers have been updated -/\n"
    out += "def lookupFirst : Bool := %s\n\n" % ("true" if idx["levels_lookup"] < idx["loop"] else "false")
    add = find_func(tree, "add", cls="Logger")
    calls = [n for n in ast.walk(add) if isinstance(n, ast.Call) and ast.unparse(n.func) == "Handler"]
    if len(calls) != 1:
        raise Unsupported("Logger.add: expected exactly one Handler(...) call, found %d" % len(calls))
    kw = {k.arg: ast.unparse(k.value) for k in calls[0].keywords}
    if kw.get("levels_ansi_codes") != "self._core.levels_ansi_codes":
        raise Unsupported("Logger.add: Handler(...) is not given the shared levels_ansi_codes table")
    reg = [w for w in ast.walk(add) if _is_core_lock(w) and
           any(isinstance(n, ast.Assign) and ast.unparse(n.targets[0]) == "self._core.handlers" for n in ast.walk(w))]
    if len(reg) != 1:
        raise Unsupported("Logger.add: registration `self._core.handlers = ...` is not under exactly one core-lock block")
    inside = any(calls[0] is n for n in ast.walk(reg[0]))
    elsewhere = any(calls[0] is n for w in ast.walk(add) if _is_core_lock(w) and w is not reg[0] for n in ast.walk(w))
    if elsewhere:
        raise Unsupported("Logger.add: Handler(...) is built under a different lock block than the registration")
    out += "/-- `add()` builds the Handler (snapshot of the known levels) under the lock that registers it -/\n"
    out += "def lockedConstruct : Bool := %s\n" % ("true" if inside else "false")
    return out


def generate():
    errors = []
    body = "namespace Conc.ShapeGen\n\n"
    try:
        tree, _ = parse_module("_logger.py")
        fn = find_func(tree, "_change_activation", cls="Logger")
        pubs = []
        for node in ast.walk(fn):
            if isinstance(node, ast.Assign) and len(node.targets) == 1:
                tgt = ast.unparse(node.targets[0])
                if tgt in ("self._core.activation_list", "self._core.enabled"):
                    pubs.append((node.lineno, tgt.split(".")[-1]))
        pubs.sort()
        # the branch for `name is None` publishes `enabled` alone; the general branch publishes both, last
        tail = [p for _, p in pubs][-2:]
        if sorted(tail) != ["activation_list", "enabled"]:
            raise Unsupported("_change_activation does not end by publishing activation_list and enabled: %r" % (pubs,))
        body += "/-- `core.activation_list` is published before `core.enabled` -/\n"
        body += "def actFirst : Bool := %s\n\n" % ("true" if tail == ["activation_list", "enabled"] else "false")
        # the copy of `enabled` is taken under the lock before anything is published
        first_stmt = None
        for node in ast.walk(fn):
            if isinstance(node, ast.With):
                first_stmt = node.body[0]
        if first_stmt is None or ast.unparse(first_stmt) != "enabled = self._core.enabled.copy()":
            raise Unsupported("_change_activation no longer starts with `enabled = self._core.enabled.copy()` under the lock")
        body += "def copiesEnabledUnderLock : Bool := true\n\n"
        # the branch for the anonymous module (`name is None`): it must publish `activation_none` and then the new
        # `enabled` dict unconditionally before it returns - same protocol, same order (rule first, cache second)
        none_if = [n for n in ast.walk(fn) if isinstance(n, ast.If) and ast.unparse(n.test) == "name is None"]
        if len(none_if) != 1:
            raise Unsupported("_change_activation: no single `if name is None:` branch")
        top = [ast.unparse(st) for st in none_if[0].body if not isinstance(st, (ast.For,))]
        tail = top[-3:]
        ok_none = (tail == ["self._core.activation_none = status", "self._core.enabled = enabled", "return"])
        body += "/-- the `name is None` branch ends with: publish activation_none, publish enabled, return - unconditionally -/\n"
        body += "def noneBranchPublishes : Bool := %s\n\n" % ("true" if ok_none else "false")
        lg = find_func(tree, "_log", cls="Logger")
        # cache-miss path: `except KeyError:` handler of the `core.enabled[name]` lookup
        handler = None
        for node in ast.walk(lg):
            if isinstance(node, ast.Try) and "core.enabled[name]" in ast.unparse(node.body[0]):
                handler = node.handlers[0]
        if handler is None:
            raise Unsupported("enabled-cache lookup not found in _log")
        order = []
        for node in ast.walk(handler):
            if isinstance(node, ast.Attribute) and ast.unparse(node) in ("core.enabled", "core.activation_list",
                                                                         "core.activation_none"):
                order.append((node.lineno, node.col_offset, node.attr))
        order.sort()
        names = [n for _, _, n in order]
        if not names or names[0] != "enabled" or names.count("enabled") != 1:
            raise Unsupported("the miss path of _log does not read core.enabled exactly once, first: %r" % (names,))
        body += "/-- the cache-miss path reads `core.enabled` (once) before `core.activation_list` -/\n"
        body += "def missReadsEnabledFirst : Bool := true\n\n"
        body += levels_shape(tree)
    except (Unsupported, SyntaxError, KeyError, AttributeError, IndexError) as e:
        errors.append("%s: %s" % (type(e).__name__, e))
    body += "\nend Conc.ShapeGen\n"
    return emit("ConcShape", body, ["loguru/_logger.py"], errors)
