"""Generated/ConcShape.lean: publication order in Logger._change_activation and read order in the cache-miss path
of Logger._log (C02, model Conc/Activation.lean)."""
import ast

from extract_lib import Unsupported, emit, find_func, parse_module


def generate():
    errors = []
    body = "namespace Conc.ShapeGen\n\n"
    try:
        tree, _ = parse_module("_logger.py")
        fn = find_func(tree, "_change_activation", cls="Logger")
        pubs = []
        for node in ast.walk(fn):
            if isinstance(node, ast.Assign) and len(node.targets) == 1:
                tgt = ast.unparse(node.targets[0])
                if tgt in ("self._core.activation_list", "self._core.enabled"):
                    pubs.append((node.lineno, tgt.split(".")[-1]))
        pubs.sort()
        # the branch for `name is None` publishes `enabled` alone; the general branch publishes both, last
        tail = [p for _, p in pubs][-2:]
        if sorted(tail) != ["activation_list", "enabled"]:
            raise Unsupported("_change_activation does not end by publishing activation_list and enabled: %r" % (pubs,))
        body += "/-- `core.activation_list` is published before `core.enabled` -/\n"
        body += "def actFirst : Bool := %s\n\n" % ("true" if tail == ["activation_list", "enabled"] else "false")
        # the copy of `enabled` is taken under the lock before anything is published
        first_stmt = None
        for node in ast.walk(fn):
            if isinstance(node, ast.With):
                first_stmt = node.body[0]
        if first_stmt is None or ast.unparse(first_stmt) != "enabled = self._core.enabled.copy()":
            raise Unsupported("_change_activation no longer starts with `enabled = self._core.enabled.copy()` under the lock")
        body += "def copiesEnabledUnderLock : Bool := true\n\n"
        lg = find_func(tree, "_log", cls="Logger")
        # cache-miss path: `except KeyError:` handler of the `core.enabled[name]` lookup
        handler = None
        for node in ast.walk(lg):
            if isinstance(node, ast.Try) and "core.enabled[name]" in ast.unparse(node.body[0]):
                handler = node.handlers[0]
        if handler is None:
            raise Unsupported("enabled-cache lookup not found in _log")
        order = []
        for node in ast.walk(handler):
            if isinstance(node, ast.Attribute) and ast.unparse(node) in ("core.enabled", "core.activation_list",
                                                                         "core.activation_none"):
                order.append((node.lineno, node.col_offset, node.attr))
        order.sort()
        names = [n for _, _, n in order]
        if not names or names[0] != "enabled" or names.count("enabled") != 1:
            raise Unsupported("the miss path of _log does not read core.enabled exactly once, first: %r" % (names,))
        body += "/-- the cache-miss path reads `core.enabled` (once) before `core.activation_list` -/\n"
        body += "def missReadsEnabledFirst : Bool := true\n"
    except (Unsupported, SyntaxError, KeyError, AttributeError, IndexError) as e:
        errors.append("%s: %s" % (type(e).__name__, e))
    body += "\nend Conc.ShapeGen\n"
    return emit("ConcShape", body, ["loguru/_logger.py"], errors)
