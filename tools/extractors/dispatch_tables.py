"""Generated/Dispatch.lean from loguru/_defaults.py, _logger.py, _handler.py, _filters.py (C01).

Extracted (tie G): the default level table, and the comparison / min / slice kernels the dispatch model
is defined in terms of.  Every kernel is located by its *role* (which statement of which loop / branch it is
the test of) and translated semantically, so a behaviour-preserving rewrite (`a > b` -> `b < a`) still builds
while a changed comparison (`>` -> `>=`) makes a theorem of Props/C01 fail.

Shapes of the hand-modelled control flow are checked by STRUCTURAL PATTERNS, not by source text:
  * a function is first normalised (`prep`): single-assignment aliases of attribute chains are inlined
    (`core = self._core`, `enabled = core.enabled`), `if c: x = a / else: x = b` becomes `x = a if c else b`,
    `d.get(k, None)` becomes `d.get(k)`, a single-use local consumed by the next simple statement is inlined;
  * patterns are Python statements in which `M_X` stands for any local name and `E_X` for any expression
    (bound consistently across the patterns of one check) – renaming locals, generator variables or private
    helpers does not matter; statements are searched by walking the function, in order inside one block.
What the patterns pin is the semantic content: which attribute is read / written, by which call, in which
order (e.g. `min_level` recomputed and the registry published BEFORE `handler.stop()`).  Anything that does
not match: fail closed.
"""
import ast
import copy

from extract_lib import Tr, Unsupported, emit, find_class, find_func, lean_chars, parse_module


# ----------------------------------------------------------------------------- expression translator
class Tr2(Tr):
    """Tr + `len(x)`, `x[:n]` (prefix slice, n >= 0), `min(a, b)` on ints."""

    def tr(self, node):
        if isinstance(node, ast.Subscript) and isinstance(node.slice, ast.Slice):
            sl = node.slice
            if sl.lower is None and sl.step is None and sl.upper is not None:
                x, tx = self.tr(node.value)
                n, tn = self.tr(sl.upper)
                self.need(tx, "str")
                self.need(tn, "int")
                return ("(List.take (Int.toNat %s) %s)" % (n, x), "str")
            raise Unsupported("slice shape " + ast.unparse(node))
        if isinstance(node, ast.Call) and ast.unparse(node.func) == "len" and len(node.args) == 1 and not node.keywords:
            x, tx = self.tr(node.args[0])
            self.need(tx, "str")
            return ("(Int.ofNat (List.length %s))" % x, "int")
        if isinstance(node, ast.Call) and ast.unparse(node.func) == "min" and len(node.args) == 2 and not node.keywords:
            a, ta = self.tr(node.args[0])
            b, tb = self.tr(node.args[1])
            self.need(ta, "int")
            self.need(tb, "int")
            # Python: min(a, b) returns b only if b < a
            return ("(if decide (%s < %s) then %s else %s)" % (b, a, b, a), "int")
        return super().tr(node)


# ----------------------------------------------------------------------------- normalisation
def _stores(fn):
    cnt = {}
    for n in ast.walk(fn):
        if isinstance(n, ast.Name) and isinstance(n.ctx, (ast.Store, ast.Del)):
            cnt[n.id] = cnt.get(n.id, 0) + 1
        if isinstance(n, ast.arg):
            cnt[n.arg] = cnt.get(n.arg, 0) + 1
    return cnt


def _loads(fn):
    cnt = {}
    for n in ast.walk(fn):
        if isinstance(n, ast.Name) and isinstance(n.ctx, ast.Load):
            cnt[n.id] = cnt.get(n.id, 0) + 1
    return cnt


class _Subst(ast.NodeTransformer):
    def __init__(self, name, expr):
        self.name, self.expr = name, expr

    def visit_Name(self, node):
        if node.id == self.name and isinstance(node.ctx, ast.Load):
            return copy.deepcopy(self.expr)
        return node


def _is_attr_chain(e):
    while isinstance(e, ast.Attribute):
        e = e.value
    return isinstance(e, ast.Name)


def _blocks(fn):
    for n in ast.walk(fn):
        for f in ("body", "orelse", "finalbody"):
            b = getattr(n, f, None)
            if isinstance(b, list) and b and isinstance(b[0], ast.stmt):
                yield b
        if isinstance(n, ast.Try):
            for h in n.handlers:
                yield h.body


class _Canon(ast.NodeTransformer):
    """`d.get(k, None)` -> `d.get(k)`;  `if c: x = a / else: x = b` -> `x = a if c else b`;
    `if a: if b: X` -> `if a and b: X`"""

    def visit_Call(self, node):
        self.generic_visit(node)
        if isinstance(node.func, ast.Attribute) and node.func.attr == "get" and len(node.args) == 2 \
                and isinstance(node.args[1], ast.Constant) and node.args[1].value is None and not node.keywords:
            node.args = node.args[:1]
        return node

    def visit_If(self, node):
        self.generic_visit(node)
        # `if a: if b: X` (no else anywhere) -> `if a and b: X`
        if not node.orelse and len(node.body) == 1 and isinstance(node.body[0], ast.If) and not node.body[0].orelse:
            inner = node.body[0]
            parts = []
            for t in (node.test, inner.test):
                parts += t.values if isinstance(t, ast.BoolOp) and isinstance(t.op, ast.And) else [t]
            return ast.copy_location(ast.If(test=ast.BoolOp(op=ast.And(), values=parts), body=inner.body, orelse=[]), node)
        if len(node.body) == 1 and len(node.orelse) == 1:
            a, b = node.body[0], node.orelse[0]
            if isinstance(a, ast.Assign) and isinstance(b, ast.Assign) and len(a.targets) == 1 and len(b.targets) == 1 \
                    and isinstance(a.targets[0], ast.Name) and isinstance(b.targets[0], ast.Name) \
                    and a.targets[0].id == b.targets[0].id:
                return ast.copy_location(
                    ast.Assign(targets=[a.targets[0]], value=ast.IfExp(test=node.test, body=a.value, orelse=b.value),
                               lineno=node.lineno), node)
        return node


def prep(fn):
    fn = copy.deepcopy(fn)
    fn = ast.fix_missing_locations(_Canon().visit(fn))
    # nested helper functions are looked up by name (fn.nested_defs), wherever they are defined
    fn.nested_defs = []
    for block in _blocks(fn):
        for st in list(block):
            if isinstance(st, ast.FunctionDef) and block is not fn.body:
                fn.nested_defs.append(st)
                block.remove(st)
    for st in list(fn.body):
        if isinstance(st, ast.FunctionDef):
            fn.nested_defs.append(st)
            fn.body.remove(st)
    assigned_attrs = {ast.unparse(t) for n in ast.walk(fn) if isinstance(n, (ast.Assign, ast.AugAssign))
                      for t in (n.targets if isinstance(n, ast.Assign) else [n.target]) if isinstance(t, ast.Attribute)}
    # 1. aliases of attribute chains, assigned exactly once
    for _ in range(10):
        stores = _stores(fn)
        done = True
        for block in _blocks(fn):
            for i, st in enumerate(block):
                if isinstance(st, ast.Assign) and len(st.targets) == 1 and isinstance(st.targets[0], ast.Name) \
                        and stores.get(st.targets[0].id) == 1 and isinstance(st.value, ast.Attribute) \
                        and _is_attr_chain(st.value) and ast.unparse(st.value) not in assigned_attrs:
                    name, expr = st.targets[0].id, st.value
                    del block[i]
                    if not block:
                        block.append(ast.Pass())
                    _Subst(name, expr).visit(fn)
                    done = False
                    break
            if not done:
                break
        if done:
            break
    # 2. single-use local consumed by the next simple statement
    for _ in range(20):
        stores, loads = _stores(fn), _loads(fn)
        done = True
        for block in _blocks(fn):
            for i, st in enumerate(block[:-1]):
                nxt = block[i + 1]
                if isinstance(st, ast.Assign) and len(st.targets) == 1 and isinstance(st.targets[0], ast.Name) \
                        and stores.get(st.targets[0].id) == 1 and loads.get(st.targets[0].id) == 1 \
                        and isinstance(nxt, (ast.Assign, ast.Expr, ast.Return, ast.AugAssign)) \
                        and any(isinstance(n, ast.Name) and n.id == st.targets[0].id for n in ast.walk(nxt)):
                    _Subst(st.targets[0].id, st.value).visit(nxt)
                    del block[i]
                    done = False
                    break
            if not done:
                break
        if done:
            break
    return ast.fix_missing_locations(fn)


# ----------------------------------------------------------------------------- structural patterns
def _pat(src):
    node = ast.parse(src).body[0]
    return node


def pmatch(p, n, b):
    """match pattern node p against node n, extending bindings b (dict); M_x: any Name, E_x: any expression"""
    if isinstance(p, ast.Name) and p.id.startswith("M_"):
        if isinstance(n, ast.arg):
            nid = n.arg
        elif isinstance(n, ast.Name):
            nid = n.id
        else:
            return False
        if p.id in b:
            return b[p.id] == nid
        b[p.id] = nid
        return True
    if isinstance(p, ast.Name) and p.id.startswith("E_"):
        if not isinstance(n, ast.expr):
            return False
        if p.id in b:
            return ast.unparse(b[p.id]) == ast.unparse(n)
        b[p.id] = n
        return True
    if type(p) is not type(n):
        return False
    for f in p._fields:
        if f in ("ctx", "type_comment", "kind"):
            continue
        pv, nv = getattr(p, f, None), getattr(n, f, None)
        if isinstance(pv, list):
            if not isinstance(nv, list) or len(pv) != len(nv):
                return False
            for x, y in zip(pv, nv):
                if isinstance(x, ast.AST):
                    if not pmatch(x, y, b):
                        return False
                elif x != y:
                    return False
        elif isinstance(pv, ast.AST):
            if not isinstance(nv, ast.AST) or not pmatch(pv, nv, b):
                return False
        elif pv != nv:
            return False
    return True


def find_subseq(fn, patterns, b=None, what=""):
    """the patterns, in this order (gaps allowed), inside ONE statement block of fn; returns the bindings"""
    pats = [_pat(p) if isinstance(p, str) else p for p in patterns]
    for block in _blocks(fn):
        def go(i, j, bb):
            if j == len(pats):
                return bb
            for k in range(i, len(block)):
                b2 = dict(bb)
                if pmatch(pats[j], block[k], b2):
                    r = go(k + 1, j + 1, b2)
                    if r is not None:
                        return r
            return None
        r = go(0, 0, dict(b or {}))
        if r is not None:
            return r
    raise Unsupported("%s: shape not found: %s" % (what, " ; ".join(p if isinstance(p, str) else ast.unparse(p)
                                                                      for p in patterns).replace("\n", " ")))


def find_expr(fn, pattern, b=None, what=""):
    p = _pat(pattern).value
    for n in ast.walk(fn):
        b2 = dict(b or {})
        if isinstance(n, ast.expr) and pmatch(p, n, b2):
            return b2
    raise Unsupported("%s: expression not found: %s" % (what, pattern))


def _returns_nothing(stmts):
    return len(stmts) == 1 and isinstance(stmts[0], ast.Return) and stmts[0].value is None


def _raises(stmts, exc):
    return len(stmts) == 1 and isinstance(stmts[0], ast.Raise) and isinstance(stmts[0].exc, ast.Call) \
        and ast.unparse(stmts[0].exc.func) == exc


def _ifs(fn):
    return [n for n in ast.walk(fn) if isinstance(n, ast.If)]


def _ordcmp(test):
    return isinstance(test, ast.Compare) and len(test.ops) == 1 \
        and isinstance(test.ops[0], (ast.Lt, ast.LtE, ast.Gt, ast.GtE))


def _names(node):
    return {n.id for n in ast.walk(node) if isinstance(n, ast.Name)}


def _neg_check(fn, var, what):
    """the unique `if <ordered comparison involving var>: raise ValueError(...)`"""
    k = [n for n in _ifs(fn) if _raises(n.body, "ValueError") and _ordcmp(n.test) and var in _names(n.test)]
    if len(k) != 1:
        raise Unsupported("%s: expected exactly one `if <%s compared>: raise ValueError`" % (what, var))
    return k[0].test


def _param(fn, i):
    return fn.args.args[i].arg


class _Rec(ast.NodeTransformer):
    """<record>['level'].no  ->  a plain name the translator's env can hold"""

    def __init__(self, text):
        self.text = text

    def visit_Attribute(self, node):
        if ast.unparse(node) == self.text:
            return ast.copy_location(ast.Name(id="RECORD_LEVEL_NO", ctx=ast.Load()), node)
        return self.generic_visit(node)


def _tr_bool(node, env, rec=None):
    if rec is not None:
        node = _Rec(rec + "['level'].no").visit(copy.deepcopy(node))
    t, ty = Tr2(env).tr(node)
    Tr.need(ty, "bool")
    return t


# ----------------------------------------------------------------------------- the extraction
def generate():
    errors = []
    body = "import LoguruModel.Py.Basic\nset_option linter.unusedVariables false\nnamespace Dispatch.Gen\n\n"
    try:
        # ---------------------------------------------------------------- default level table
        dtree, _ = parse_module("_defaults.py")
        defaults = {}
        for node in dtree.body:
            if isinstance(node, ast.Assign) and isinstance(node.targets[0], ast.Name) \
                    and isinstance(node.value, ast.Call) and ast.unparse(node.value.func) == "env":
                a = node.value.args
                if len(a) == 3 and isinstance(a[0], ast.Constant) and a[0].value == node.targets[0].id \
                        and ast.unparse(a[1]) == "int" and isinstance(a[2], ast.Constant) \
                        and isinstance(a[2].value, int) and not isinstance(a[2].value, bool):
                    defaults[node.targets[0].id] = a[2].value
        ltree, _ = parse_module("_logger.py")
        core = find_class(ltree, "Core")
        init = prep(find_func(core, "__init__"))
        levels = None
        for node in ast.walk(init):
            if isinstance(node, ast.List) and node.elts \
                    and all(isinstance(e, ast.Call) and ast.unparse(e.func) == "Level" for e in node.elts):
                levels = node
        if levels is None:
            raise Unsupported("Core.__init__: list of Level(...) not found")
        rows = []
        for e in levels.elts:
            if not (len(e.args) == 4 and isinstance(e.args[0], ast.Constant) and isinstance(e.args[0].value, str)):
                raise Unsupported("Level(...) entry shape: " + ast.unparse(e)[:60])
            ref = ast.unparse(e.args[1])
            key = ref.split(".")[-1]
            if key not in defaults or ref not in ("_defaults." + key, key):
                raise Unsupported("level number is not an int default of _defaults.py: " + ref)
            rows.append("(%s, (%d : Int))" % (lean_chars(e.args[0].value), defaults[key]))
        for pats in (["self.levels = {M_A.name: M_A for M_A in E_LS}"],
                     ["self.levels_lookup = {M_N: (M_N, M_N, M_L.no, M_L.icon) for M_N, M_L in self.levels.items()}"],
                     ["self.handlers_count = 0"], ["self.handlers = {}"], ["self.min_level = float('inf')"],
                     ["self.enabled = {}"], ["self.activation_list = []"], ["self.activation_none = True"]):
            find_subseq(init, pats, what="Core.__init__")
        # add(level=_defaults.LOGURU_LEVEL): the threshold of a handler added without `level=`
        dflt = None
        for node in dtree.body:
            if isinstance(node, ast.Assign) and isinstance(node.targets[0], ast.Name) and node.targets[0].id == "LOGURU_LEVEL" \
                    and isinstance(node.value, ast.Call) and ast.unparse(node.value.func) == "env":
                a = node.value.args
                if len(a) == 3 and isinstance(a[0], ast.Constant) and a[0].value == "LOGURU_LEVEL" \
                        and ast.unparse(a[1]) == "str" and isinstance(a[2], ast.Constant) and isinstance(a[2].value, str):
                    dflt = a[2].value
        addraw = find_func(find_class(ltree, "Logger"), "add")
        kwd = {a.arg: d for a, d in zip(addraw.args.kwonlyargs, addraw.args.kw_defaults) if d is not None}
        if dflt is None or ast.unparse(kwd.get("level", ast.Constant(0))) not in ("_defaults.LOGURU_LEVEL", "LOGURU_LEVEL"):
            raise Unsupported("add: default of `level` is not the str default LOGURU_LEVEL of _defaults.py")
        if ast.unparse(kwd.get("filter", ast.Constant(0))) not in ("_defaults.LOGURU_FILTER", "LOGURU_FILTER"):
            raise Unsupported("add: default of `filter`")
        body += "/-- `add(sink)` without `level=`: `_defaults.LOGURU_LEVEL` (a level NAME, resolved when the handler is added) -/\n"
        body += "def addDefaultLevelName : Py.Str := %s\n\n" % lean_chars(dflt)
        body += "/-- `Core.__init__`: default levels (name, severity), numbers from `_defaults.py` -/\n"
        body += "def defaultLevels : List (Py.Str × Int) := [\n  " + ",\n  ".join(rows) + "]\n\n"

        # ---------------------------------------------------------------- Logger._log
        logger = find_class(ltree, "Logger")
        logf = prep(find_func(logger, "_log"))
        LV = _param(logf, 1)
        first = [st for st in logf.body if not (isinstance(st, ast.Expr) and isinstance(st.value, ast.Constant))][0]
        if not pmatch(_pat("if not self._core.handlers:\n    return"), first, {}):
            raise Unsupported("_log: does not start with the early return on an empty registry")
        b = find_subseq(logf, ["M_A, M_B, M_NO, M_D = self._core.levels_lookup[%s]" % LV], what="_log level lookup")
        NO = b["M_NO"]
        b2 = find_subseq(logf, ["M_C = (E_0, E_1, E_K, E_3)", "M_A, M_B, M_NO, M_D = M_C",
                                "self._core.levels_lookup[%s] = M_C" % LV], dict(b), what="_log int level cache")
        t, ty = Tr2({LV: ("level", "int")}).tr(b2["E_K"])
        Tr.need(ty, "int")
        int_level_no = t
        k = [n for n in _ifs(logf) if _returns_nothing(n.body) and not n.orelse and _ordcmp(n.test)
             and "self._core.min_level" in ast.unparse(n.test)]
        if len(k) != 1 or NO not in _names(k[0].test):
            raise Unsupported("_log: expected exactly one `if <level_no vs core.min_level>: return`")
        body += "/-- `_log`: `%s` → return (finite `min_level`; `inf` is handled by the model) -/\n" % ast.unparse(k[0].test)
        body += "def belowMin (level_no min_level : Int) : Bool := %s\n\n" % _tr_bool(
            k[0].test, {NO: ("level_no", "int"), "self._core.min_level": ("min_level", "int")})
        t = _neg_check(logf, LV, "_log")
        body += "/-- `_log`: `%s` → ValueError -/\ndef logRejectsInt (level : Int) : Bool := %s\n\n" % (
            ast.unparse(t), _tr_bool(t, {LV: ("level", "int")}))
        body += "/-- `_log`: severity stored for an int level -/\ndef intLevelNo (level : Int) : Int := %s\n\n" % int_level_no
        # the handler loop
        hb = None
        for n in ast.walk(logf):
            bb = {}
            if isinstance(n, ast.For) and pmatch(_pat("for M_H in self._core.handlers.values():\n    pass").iter, n.iter, bb) \
                    and isinstance(n.target, ast.Name):
                if any(isinstance(c, ast.Call) and ast.unparse(c.func) == n.target.id + ".emit" for c in ast.walk(n)):
                    hb = n
        if hb is None:
            raise Unsupported("_log: loop `for h in core.handlers.values(): h.emit(...)` not found")
        # the scan on a cache miss
        scan = [n for n in ast.walk(logf) if isinstance(n, ast.For) and ast.unparse(n.iter) == "self._core.activation_list"]
        if len(scan) != 1:
            raise Unsupported("_log: activation scan loop")
        bs = {}
        if not pmatch(_pat("for M_R, M_S in self._core.activation_list:\n    if E_T:\n        if M_S:\n            break\n"
                           "        self._core.enabled[M_NM] = False\n        return"), _strip_orelse(scan[0]), bs):
            raise Unsupported("_log: activation scan body changed: " + ast.unparse(scan[0]).replace("\n", " ; "))
        bd = find_subseq(logf, ["M_DN = M_NM + '.'"], {"M_NM": bs["M_NM"]}, what="_log dotted name")
        body_scan = _tr_bool(bs["E_T"], {bd["M_DN"]: ("dotted_name", "str"), bs["M_R"]: ("rule", "str")})
        scan_src = ast.unparse(bs["E_T"])

        # which dict object receives the cache fill on a miss: the one fetched BEFORE the rules were read
        # (a local bound to `core.enabled` ahead of every read of `activation_none` / `activation_list`), or
        # `core.enabled` re-read AFTER them.  Decided on the RAW function: `prep` inlines exactly this alias.
        fetched = _cache_fill_target(find_func(logger, "_log"))
        body += ("/-- `_log`, cache miss: the fill `enabled[name] = status` goes into the dict object the reader fetched "
                 "BEFORE it read the rules (`true`), or into `core.enabled` as re-read AFTER the rules (`false` - a status "
                 "computed from rules older than the dict; refuted by `C01.cache_fill_into_republished_dict_refuted`) -/\n")
        body += "def cacheFillIntoFetchedDict : Bool := %s\n\n" % ("true" if fetched else "false")

        # ---------------------------------------------------------------- Logger.add / remove / level
        addf = prep(find_func(logger, "add"))
        hcall = [n for n in ast.walk(addf) if isinstance(n, ast.Call) and ast.unparse(n.func) == "Handler"]
        if len(hcall) != 1:
            raise Unsupported("add: Handler(...) construction not found")
        kw = {k_.arg: k_.value for k_ in hcall[0].keywords}
        if not (isinstance(kw.get("levelno"), ast.Name) and isinstance(kw.get("filter_"), ast.Name)
                and isinstance(kw.get("id_"), ast.Name)):
            raise Unsupported("add: Handler(levelno=<name>, filter_=<name>, id_=<name>) expected")
        LNO, FF, HID = kw["levelno"].id, kw["filter_"].id, kw["id_"].id
        ba = find_subseq(addf, ["M_HS = self._core.handlers.copy()", "M_HS[%s] = M_HD" % HID,
                                "self._core.handlers = M_HS"], what="add copy-on-write")
        bm = find_subseq(addf, ["M_HS = self._core.handlers.copy()", "self._core.min_level = E_V"],
                         {"M_HS": ba["M_HS"]}, what="add min_level")
        t, ty = Tr2({"self._core.min_level": ("min_level", "int"), LNO: ("levelno", "int")}).tr(bm["E_V"])
        Tr.need(ty, "int")
        body += "/-- `add`: `self._core.min_level = %s` (finite case) -/\n" % ast.unparse(bm["E_V"])
        body += "def addMin (min_level levelno : Int) : Int := %s\n\n" % t
        t = _neg_check(addf, LNO, "add threshold")
        body += "/-- `add`: `%s` → ValueError -/\ndef addRejectsThreshold (levelno : Int) : Bool := %s\n\n" % (
            ast.unparse(t), _tr_bool(t, {LNO: ("levelno", "int")}))
        dl = [n for n in ast.walk(addf) if isinstance(n, ast.For) and ast.unparse(n.iter) == "filter.items()"
              and isinstance(n.target, ast.Tuple) and len(n.target.elts) == 2 and isinstance(n.target.elts[0], ast.Name)]
        if len(dl) != 1:
            raise Unsupported("add: loop over filter.items() not found")
        bl = _in_block(dl[0].body, ["M_LPM[%s] = M_LN" % dl[0].target.elts[0].id], {})
        LN = bl["M_LN"]
        t = _neg_check(addf, LN, "add dict level")
        body += "/-- `add` (dict filter): `%s` → ValueError -/\ndef addRejectsDictLevel (levelno : Int) : Bool := %s\n\n" % (
            ast.unparse(t), _tr_bool(t, {LN: ("levelno", "int")}))
        k = [n for n in _ifs(addf) if pmatch(_pat("M_X is True").value, n.test, {})
             and len(n.body) == 1 and pmatch(_pat("%s = 0" % LN), n.body[0], {})]
        if len(k) != 1:
            raise Unsupported("add: `level_ is True -> levelno_ = 0` not found")
        bi = find_subseq(addf, ["%s = self._core.handlers_count" % HID, "self._core.handlers_count += 1"],
                         what="add id allocation")
        alloc = [n for n in ast.walk(addf) if isinstance(n, ast.AugAssign)
                 and ast.unparse(n.target) == "self._core.handlers_count"]
        raises = [n.lineno for n in ast.walk(addf) if isinstance(n, ast.Raise)]
        if len(alloc) != 1 or (raises and min(raises) < alloc[0].lineno):
            raise Unsupported("add: the id is no longer allocated before every validation")
        if "filter" not in [a.arg for a in addf.args.args + addf.args.kwonlyargs]:
            raise Unsupported("add: parameter `filter`")
        bp = find_subseq(addf, ["M_PA = filter + '.'", "%s = E_P" % FF], what="add name filter")
        call = bp["E_P"]
        if not (isinstance(call, ast.Call) and ast.unparse(call.func).split(".")[-1] == "partial" and len(call.args) == 1
                and ast.unparse(call.args[0]).split(".")[-1] == "filter_by_name"
                and {k_.arg: ast.unparse(k_.value) for k_ in call.keywords}
                == {"parent": bp["M_PA"], "length": "len(%s)" % bp["M_PA"]}):
            raise Unsupported("add: partial(filter_by_name, parent=filter + '.', length=len(parent)) expected, got "
                              + ast.unparse(call))

        # ---------------------------------------------------------------- add: dispatch on the class of the arguments
        # The if/elif chains are regenerated IN SOURCE ORDER (the classes overlap: '' is a str, True/False are ints,
        # builtins.filter is callable - so the order of the tests is part of the meaning); the model interprets
        # the chains, `Lemmas.mkFilterC_eq` / `mkDictValC_eq` / `mkThresholdC_eq` prove they denote the documented reading.
        fchain, felse = _chain(addf.body, "filter", _ftest, lambda st: _fact(st, "filter", FF), "add filter chain")
        body += "/-- tests `add` applies to its `filter` argument -/\ninductive FTest where\n  | isNone | eqEmptyStr | isStr | isDict | isCallable\n  deriving DecidableEq, Repr\n"
        body += "/-- what a branch of the `filter` chain does -/\ninductive FAct where\n  | noFilter | filterNone | byName | byLevel | callable | typeError\n  deriving DecidableEq, Repr\n"
        body += "/-- `add`: the `if filter is None / elif ...` chain, in source order -/\n"
        body += "def filterChain : List (FTest × FAct) := [%s]\n" % ", ".join("(.%s, .%s)" % x for x in fchain)
        body += "/-- its `else` branch -/\ndef filterElse : FAct := .%s\n\n" % felse
        VAL = dl[0].target.elts[1].id if isinstance(dl[0].target.elts[1], ast.Name) else "?"
        KEY = dl[0].target.elts[0].id
        vchain, velse = _chain(dl[0].body, VAL, _vtest, lambda st: _vact(st, VAL, LN), "add dict value chain")
        body += "/-- tests `add` applies to a value of a `filter={...}` dict -/\ninductive VTest where\n  | isFalse | isTrue | isStr | isInt\n  deriving DecidableEq, Repr\n"
        body += "inductive VAct where\n  | reject | const (n : Int) | levelByName | intValue | typeError\n  deriving DecidableEq, Repr\n"
        body += "/-- `add`: the `if level_ is False / elif ...` chain over a dict value, in source order -/\n"
        body += "def dictValueChain : List (VTest × VAct) := [%s]\n" % ", ".join("(.%s, .%s)" % x for x in vchain)
        body += "def dictValueElse : VAct := .%s\n\n" % velse
        kc = [n for n in dl[0].body if isinstance(n, ast.If) and _raises(n.body, "TypeError") and not n.orelse
              and KEY in _names(n.test)]
        if len(kc) != 1 or not any(pmatch(_pat(t % (KEY, KEY)).value, kc[0].test, {}) for t in
                                   ("%s is not None and (not isinstance(%s, str))", "not isinstance(%s, str) and %s is not None")):
            raise Unsupported("add: dict key check is not `module is not None and not isinstance(module, str)` -> TypeError")
        if kc[0].lineno > [n for n in dl[0].body if isinstance(n, ast.If) and VAL in _names(n.test)][0].lineno:
            raise Unsupported("add: dict key is no longer validated before its value")
        tchain, telse = _chain(addf.body, "level", _ttest, lambda st: _tact(st, "level", LNO), "add level chain")
        body += "/-- tests `add` applies to its `level` argument -/\ninductive LTest where\n  | isStr | isInt\n  deriving DecidableEq, Repr\n"
        body += "inductive LAct where\n  | levelByName | intValue | typeError\n  deriving DecidableEq, Repr\n"
        body += "/-- `add`: the `if isinstance(level, str) / elif ...` chain, in source order -/\n"
        body += "def thresholdChain : List (LTest × LAct) := [%s]\n" % ", ".join("(.%s, .%s)" % x for x in tchain)
        body += "def thresholdElse : LAct := .%s\n\n" % telse
        # filter is validated before level (which error a doubly malformed call reports)
        f_if = [n for n in addf.body if isinstance(n, ast.If) and "filter" in _names(n.test)][0]
        l_if = [n for n in addf.body if isinstance(n, ast.If) and "level" in _names(n.test)][0]
        if f_if.lineno > l_if.lineno:
            raise Unsupported("add: `level` is validated before `filter`")

        remf = prep(find_func(logger, "remove"))
        RID = _param(remf, 1)
        # the loop body must recompute min_level and publish the registry BEFORE handler.stop() (user code that
        # may raise); the shape "recompute after stop() / once after the loop" is refuted by
        # C01.late_min_level_update_refuted
        ok = False
        msg = ""
        for order in (["self._core.min_level = min((M_G.levelno for M_G in M_H.values()), default=float('inf'))",
                       "self._core.handlers = M_H"],
                      ["self._core.handlers = M_H",
                       "self._core.min_level = min((M_G.levelno for M_G in M_H.values()), default=float('inf'))"]):
            try:
                br = find_subseq(remf, ["M_IDS = list(self._core.handlers) if %s is None else [%s]" % (RID, RID)],
                                 what="remove")
            except Unsupported as e:
                msg = str(e)
                break
            loops = [n for n in ast.walk(remf) if isinstance(n, ast.For) and ast.unparse(n.iter) == br["M_IDS"]]
            if len(loops) != 1:
                msg = "remove: loop over the ids not found"
                break
            try:
                _in_block(loops[0].body, ["M_H = self._core.handlers.copy()", "M_R = M_H.pop(M_ID)"] + order
                          + ["M_R.stop()"], {"M_ID": loops[0].target.id if isinstance(loops[0].target, ast.Name) else "?"})
                ok = True
                break
            except Unsupported as e:
                msg = ("remove: min_level is not recomputed (and the registry published) before handler.stop() inside "
                       "the loop - refuted shape, see C01.late_min_level_update_refuted; loop body: "
                       + " ; ".join(ast.unparse(st) for st in loops[0].body))
        if not ok:
            raise Unsupported(msg)
        body += "/-- `remove`: `min_level = min(levelnos of the remaining handlers, default=inf)` – shape checked -/\n"
        body += "def removeRecomputesMin : Bool := true\n\n"
        levf = prep(find_func(logger, "level"))
        t = _neg_check(levf, _param(levf, 2), "level")
        # every registered handler learns the level (`update_format`) unconditionally, before the level is published;
        # the shape "only if the colour changed" is refuted by C01.stale_precolorized_formats_refuted
        LNAME = _param(levf, 1)
        try:
            find_subseq(levf, ["for M_H in self._core.handlers.values():\n    M_H.update_format(%s)" % LNAME,
                               "self._core.levels_lookup[%s] = E_T" % LNAME], what="level")
            find_subseq(levf, ["for M_H in self._core.handlers.values():\n    M_H.update_format(%s)" % LNAME,
                               "self._core.levels[%s] = E_L" % LNAME], what="level")
        except Unsupported as e:
            raise Unsupported("level: the handlers are not told about the level (update_format) unconditionally before it is "
                              "published - refuted shape, see C01.stale_precolorized_formats_refuted; " + str(e))
        body += "/-- `level`: `%s` → ValueError -/\ndef levelRejectsNo (no : Int) : Bool := %s\n\n" % (
            ast.unparse(t), _tr_bool(t, {_param(levf, 2): ("no", "int")}))
        # read / create / update / error: the body of `level` is EXECUTED over the finite abstract domain
        # (kind of `no`) x (colour given) x (icon given) x (level exists); the model looks the outcome up
        rows = _level_table(find_func(logger, "level"))
        body += "/-- what a call of `level(name, no, color, icon)` with a `str` name does -/\ninductive LvOutcome where\n" \
                "  | read | create | update | typeError | valueError\n  deriving DecidableEq, Repr\n"
        body += "/-- `level`: (kind of `no`: 0 `None`, 1 int >= 0, 2 int < 0, 3 no int; `color` given; `icon` given; the level " \
                "exists) ↦ outcome, obtained by running the function body over this abstract domain -/\n"
        body += "def levelTable : List ((Nat × Bool × Bool × Bool) × LvOutcome) := [\n  " + ",\n  ".join(
            "((%d, %s, %s, %s), .%s)" % (k, str(c).lower(), str(i).lower(), str(e).lower(), o) for (k, c, i, e), o in rows) + "]\n\n"

        # ---------------------------------------------------------------- configure: the order of its stages
        cfg = prep(find_func(logger, "configure"))
        stages = []
        for st in cfg.body:
            if isinstance(st, ast.Expr) and isinstance(st.value, ast.Constant):
                continue
            stg = _cfg_stage(st)
            if stg is not None:
                stages.append(stg)
        if sorted(stages) != sorted(["removeAll", "levels", "patcher", "extra", "activation", "adds"]):
            raise Unsupported("configure: stages found: %r" % (stages,))
        body += "/-- the stages of `configure`, one per top-level statement -/\ninductive CfgStage where\n" \
                "  | removeAll | levels | patcher | extra | activation | adds\n  deriving DecidableEq, Repr\n"
        body += "/-- `configure`: its statements in source order (each stage raises out of the call at its first error) -/\n"
        body += "def configureOrder : List CfgStage := [%s]\n\n" % ", ".join("." + x for x in stages)

        # ---------------------------------------------------------------- _change_activation
        chf = prep(find_func(logger, "_change_activation"))
        NM, ST = _param(chf, 1), _param(chf, 2)
        find_subseq(chf, ["if %s != '':\n    %s += '.'" % (NM, NM)], what="_change_activation dotting")
        bc = find_subseq(chf, ["M_EN = self._core.enabled.copy()",
                               "M_AL = [(M_A, M_B) for M_A, M_B in self._core.activation_list if E_K1]",
                               "M_PS = next((M_B2 for M_A2, M_B2 in M_AL if E_K2), None)",
                               "if M_PS != %s and (not (%s == '' and %s is True)):\n    M_AL.append((%s, %s))\n"
                               "    M_AL.sort(key=M_KEY, reverse=True)" % (ST, NM, ST, NM, ST),
                               "for M_M in M_EN:\n    if M_M is not None and E_K3:\n        M_EN[M_M] = %s" % ST,
                               "self._core.activation_list = M_AL", "self._core.enabled = M_EN"],
                         what="_change_activation")
        # the `def modules_depth` inside the if-body is allowed: match the if separately when it is there
        keyfn = None
        for n in list(chf.nested_defs) + [x for x in ltree.body if isinstance(x, ast.FunctionDef)]:
            if n.name == bc["M_KEY"]:
                keyfn = n
        if keyfn is None or len(keyfn.args.args) != 1 or len(keyfn.body) < 1 \
                or not pmatch(_pat("return %s[0].count('.')" % keyfn.args.args[0].arg),
                              [s_ for s_ in keyfn.body if not (isinstance(s_, ast.Expr) and isinstance(s_.value, ast.Constant))][0], {}):
            raise Unsupported("_change_activation: sort key is not `x[0].count('.')`")
        find_subseq(chf, ["for M_M in M_EN:\n    if M_M is None:\n        M_EN[M_M] = %s" % ST,
                          "self._core.activation_none = %s" % ST, "self._core.enabled = M_EN", "return"],
                    {"M_EN": bc["M_EN"]}, what="_change_activation None branch")
        body += "/-- `_change_activation`: rule `n` is KEPT iff `%s` (name already dotted) -/\n" % ast.unparse(bc["E_K1"])
        body += "def actKeeps (n name : Py.Str) : Bool := %s\n\n" % _tr_bool(
            bc["E_K1"], {bc["M_A"]: ("n", "str"), NM: ("name", "str")})
        body += "/-- `_change_activation`: rule `n` is a parent of the new `name` iff `%s` -/\n" % ast.unparse(bc["E_K2"])
        body += "def actParent (n name : Py.Str) : Bool := %s\n\n" % _tr_bool(
            bc["E_K2"], {bc["M_A2"]: ("n", "str"), NM: ("name", "str")})
        body += "/-- `_change_activation`: cached module `n` is rewritten iff `%s` -/\n" % ast.unparse(bc["E_K3"])
        body += "def actCacheHit (n name : Py.Str) : Bool := %s\n\n" % _tr_bool(
            bc["E_K3"], {bc["M_M"]: ("n", "str"), NM: ("name", "str")})
        body += "/-- `_log` (cache miss): rule matches the module iff `%s` -/\n" % scan_src
        body += "def scanMatches (dotted_name rule : Py.Str) : Bool := %s\n\n" % body_scan

        # ---------------------------------------------------------------- Handler.emit
        htree, _ = parse_module("_handler.py")
        emitf = prep(find_func(find_class(htree, "Handler"), "emit"))
        REC = _param(emitf, 1)
        k = [n for n in _ifs(emitf) if _returns_nothing(n.body) and not n.orelse and "self._levelno" in ast.unparse(n.test)]
        if len(k) != 1:
            raise Unsupported("Handler.emit: threshold gate not found")
        body += "/-- `Handler.emit`: `%s` → return -/\n" % ast.unparse(k[0].test)
        body += "def handlerRejects (levelno record_no : Int) : Bool := %s\n\n" % _tr_bool(
            k[0].test, {"self._levelno": ("levelno", "int"), "RECORD_LEVEL_NO": ("record_no", "int")}, REC)
        fg = [n for n in _ifs(emitf) if pmatch(_pat("if self._filter is not None and (not self._filter(%s)):\n    return" % REC), n, {})]
        if len(fg) != 1:
            raise Unsupported("Handler.emit: filter gate shape")
        if k[0].lineno > fg[0].lineno:
            raise Unsupported("Handler.emit: filter consulted before the threshold")

        hinit = prep(find_func(find_class(htree, "Handler"), "__init__"))
        find_subseq(hinit, ["for M_N in self._levels_ansi_codes:\n    self.update_format(M_N)"], what="Handler.__init__")
        upd = prep(find_func(find_class(htree, "Handler"), "update_format"))
        UP = _param(upd, 1)
        find_subseq(upd, ["if not self._colorize or self._is_formatter_dynamic:\n    return",
                          "self._precolorized_formats[%s] = self._formatter.colorize(self._levels_ansi_codes[%s])" % (UP, UP)],
                    what="Handler.update_format")
        if not any(ast.unparse(n) == "self._precolorized_formats[%s]" % _param(emitf, 2) for n in ast.walk(emitf)):
            raise Unsupported("Handler.emit no longer reads self._precolorized_formats[level_id]")

        # ---------------------------------------------------------------- _filters.py
        ftree, _ = parse_module("_filters.py")
        fn = prep(find_func(ftree, "filter_none"))
        if not pmatch(_pat("return %s['name'] is not None" % _param(fn, 0)), fn.body[-1], {}) or len(fn.body) != 1:
            raise Unsupported("filter_none body")
        fb = prep(find_func(ftree, "filter_by_name"))
        if len(fb.args.args) != 3:
            raise Unsupported("filter_by_name parameters")
        R0, PAR, LEN = _param(fb, 0), _param(fb, 1), _param(fb, 2)
        bb = None
        for shape in (["M_N = %s['name']" % R0, "if M_N is None:\n    return False", "return E_K"],
                      ["M_N = %s['name']" % R0, "return M_N is not None and E_K"]):
            bb = {}
            if len(fb.body) == len(shape) and all(pmatch(_pat(p), st, bb) for p, st in zip(shape, fb.body)):
                break
            bb = None
        if bb is None:
            raise Unsupported("filter_by_name shape: " + ast.unparse(fb).replace("\n", " ; "))
        body += "/-- `filter_by_name` (name not None): `%s` -/\n" % ast.unparse(bb["E_K"])
        body += "def filterByName (name parent : Py.Str) (length : Int) : Bool := %s\n\n" % _tr_bool(
            bb["E_K"], {bb["M_N"]: ("name", "str"), PAR: ("parent", "str"), LEN: ("length", "int")})
        fl = prep(find_func(ftree, "filter_by_level"))
        R0, LPM = _param(fl, 0), _param(fl, 1)
        shape = "M_N = %s['name']\nwhile True:\n    M_LV = %s.get(M_N)\n    if M_LV is False:\n        return False\n" \
                "    if M_LV is not None:\n        return E_K\n    if not M_N:\n        return True\n" \
                "    M_I = M_N.rfind('.')\n    M_N = M_N[:M_I] if M_I != -1 else ''" % (R0, LPM)
        pats = ast.parse(shape).body
        bb = {}
        if len(fl.body) != 2 or not all(pmatch(p, st, bb) for p, st in zip(pats, fl.body)):
            raise Unsupported("filter_by_level shape: " + ast.unparse(fl).replace("\n", " ; "))
        body += "/-- `filter_by_level`: a dict entry `level` admits the record iff `%s` -/\n" % ast.unparse(bb["E_K"])
        body += "def levelAdmits (record_no level : Int) : Bool := %s\n" % _tr_bool(
            bb["E_K"], {"RECORD_LEVEL_NO": ("record_no", "int"), bb["M_LV"]: ("level", "int")}, R0)
    except (Unsupported, SyntaxError, KeyError, AttributeError, IndexError, ValueError) as e:
        errors.append("%s: %s" % (type(e).__name__, e))
    body += "\nend Dispatch.Gen\n"
    return emit("Dispatch", body, ["loguru/_defaults.py", "loguru/_logger.py", "loguru/_handler.py", "loguru/_filters.py"],
                errors)


class _LvEnv:
    def __init__(self, kind, color, icon, exists, params):
        self.no, self.color, self.icon, self.exists = kind, color, icon, exists
        self.pname, self.pno, self.pcolor, self.picon = params
        self.existing = False


def _level_table(fn):
    """abstract execution of `Logger.level` (str name): statements allowed are if/elif/else over the tests below,
    `raise X(...)`, the `try: return core.levels[name] / except KeyError: raise ...` read, assignments (only the one
    that re-binds `no` from `self.level(name)` matters), the publishing `with` block and the final `return`"""
    params = [a.arg for a in fn.args.args][1:5]
    if len(params) != 4:
        raise Unsupported("level: parameters")
    rows = []
    for kind in (0, 1, 2, 3):
        for color in (False, True):
            for icon in (False, True):
                for exists in (False, True):
                    env = _LvEnv(kind, color, icon, exists, params)
                    out = _lv_run(fn.body, env)
                    if out is None:
                        raise Unsupported("level: falls off the end")
                    rows.append(((kind, color, icon, exists), out))
    return rows


def _lv_is_levels_sub(node, env):
    return isinstance(node, ast.Subscript) and ast.unparse(node.value) in ("self._core.levels", "core.levels") \
        and ast.unparse(node.slice) == env.pname


def _lv_none(node, env):
    """abstract value: True = is None, False = not None, for the three optional parameters and the constant"""
    if isinstance(node, ast.Constant) and node.value is None:
        return True
    if isinstance(node, ast.Name):
        if node.id == env.pno:
            return env.no == 0 and not env.existing
        if node.id == env.pcolor:
            return not env.color
        if node.id == env.picon:
            return not env.icon
    raise Unsupported("level: identity test on " + ast.unparse(node))


def _lv_cond(t, env):
    if isinstance(t, ast.UnaryOp) and isinstance(t.op, ast.Not):
        return not _lv_cond(t.operand, env)
    if isinstance(t, ast.BoolOp):
        vals = [_lv_cond(v, env) for v in t.values]
        return all(vals) if isinstance(t.op, ast.And) else any(vals)
    if isinstance(t, ast.Compare):
        items = [t.left] + list(t.comparators)
        if all(isinstance(o, (ast.Is, ast.IsNot)) for o in t.ops):
            res = True
            for a, o, b in zip(items, t.ops, items[1:]):
                na, nb = _lv_none(a, env), _lv_none(b, env)
                same = na and nb          # two distinct non-None arguments are never the same object
                res = res and (same if isinstance(o, ast.Is) else not same)
            return res
        if len(t.ops) == 1 and isinstance(t.ops[0], (ast.In, ast.NotIn)) and ast.unparse(t.left) == env.pname \
                and ast.unparse(t.comparators[0]) in ("self._core.levels", "core.levels"):
            return env.exists if isinstance(t.ops[0], ast.In) else not env.exists
        if len(t.ops) == 1 and isinstance(t.ops[0], (ast.Lt, ast.Gt, ast.LtE, ast.GtE)):
            # only `no < 0` in any orientation, and only once `no` is known to be an int
            a, b = t.left, t.comparators[0]
            txt = (ast.unparse(a), type(t.ops[0]).__name__, ast.unparse(b))
            if txt in ((env.pno, "Lt", "0"), ("0", "Gt", env.pno)):
                if env.existing or env.no == 1:
                    return False
                if env.no == 2:
                    return True
                raise Unsupported("level: `no < 0` reached with a non-int")
        raise Unsupported("level: test " + ast.unparse(t))
    if isinstance(t, ast.Call) and ast.unparse(t.func) == "isinstance" and len(t.args) == 2:
        who, cls = ast.unparse(t.args[0]), ast.unparse(t.args[1])
        if who == env.pname and cls == "str":
            return True
        if who == env.pno and cls == "int":
            return env.existing or env.no in (1, 2)
    raise Unsupported("level: test " + ast.unparse(t))


def _lv_run(stmts, env):
    for st in stmts:
        if isinstance(st, ast.Expr) and isinstance(st.value, ast.Constant):
            continue
        if isinstance(st, ast.If):
            r = _lv_run(st.body if _lv_cond(st.test, env) else st.orelse, env)
            if r is not None:
                return r
        elif isinstance(st, ast.Raise):
            name = ast.unparse(st.exc.func) if isinstance(st.exc, ast.Call) else ast.unparse(st.exc)
            if name == "TypeError":
                return "typeError"
            if name == "ValueError":
                return "valueError"
            raise Unsupported("level: raises " + name)
        elif isinstance(st, ast.Try):
            if len(st.body) == 1 and isinstance(st.body[0], ast.Return) and _lv_is_levels_sub(st.body[0].value, env) \
                    and len(st.handlers) == 1 and ast.unparse(st.handlers[0].type) == "KeyError" and not st.orelse and not st.finalbody:
                if env.exists:
                    return "read"
                r = _lv_run(st.handlers[0].body, env)
                if r is not None:
                    return r
            else:
                raise Unsupported("level: try statement")
        elif isinstance(st, ast.Return):
            if _lv_is_levels_sub(st.value, env):
                return "read" if env.exists else "valueError"      # (KeyError escapes: not the code's shape)
            if not getattr(env, "published", False):
                raise Unsupported("level: returns before publishing")
            return "update" if env.existing else "create"
        elif isinstance(st, ast.Assign):
            tg = [n.id for t in st.targets for n in ast.walk(t) if isinstance(n, ast.Name)]
            if env.pno in tg:
                # `_, no, old_color, old_icon = self.level(name)`: the severity of the EXISTING level
                if isinstance(st.targets[0], ast.Tuple) and len(st.targets[0].elts) == 4 \
                        and ast.unparse(st.targets[0].elts[1]) == env.pno \
                        and ast.unparse(st.value) in ("self.level(%s)" % env.pname, "self._core.levels[%s]" % env.pname) \
                        and env.exists:
                    env.existing = True
                else:
                    raise Unsupported("level: `no` re-bound by " + ast.unparse(st))
            if env.pcolor in tg:
                env.color = True
            if env.picon in tg:
                env.icon = True
        elif isinstance(st, ast.With):
            txt = ast.unparse(st)
            if "levels[%s]" % env.pname in txt and "levels_lookup[%s]" % env.pname in txt:
                if env.no in (0, 3, 2) and not env.existing:
                    raise Unsupported("level: publishes a level whose `no` was not validated")
                env.published = True
            else:
                raise Unsupported("level: with block")
        else:
            raise Unsupported("level: statement " + ast.unparse(st)[:60])
    return None


def _self_calls(node):
    out = []
    for n in ast.walk(node):
        if isinstance(n, ast.Call) and isinstance(n.func, ast.Attribute) and ast.unparse(n.func.value) == "self":
            out.append(n.func.attr)
        if isinstance(n, ast.Call) and isinstance(n.func, ast.IfExp):
            for f in (n.func.body, n.func.orelse):
                if isinstance(f, ast.Attribute) and ast.unparse(f.value) == "self":
                    out.append(f.attr)
    return out


def _loop_over(st, seq, call_ok):
    """`st` (possibly under `if <seq> is not None:`) iterates over `seq` IN ORDER and makes exactly the calls `call_ok`
    accepts on each element; comprehension or for loop"""
    inner = st
    if isinstance(st, ast.If) and not st.orelse and len(st.body) == 1 and pmatch(_pat("%s is not None" % seq).value, st.test, {}):
        inner = st.body[0]
    loops = [n for n in ast.walk(inner) if isinstance(n, (ast.For, ast.comprehension))
             and ast.unparse(n.iter) in (seq, seq + " or []", seq + " or ()")]
    if len(loops) != 1:
        return False
    if isinstance(inner, ast.For):
        if inner is not loops[0] or inner.orelse:
            return False
        return call_ok(inner.target, inner.body)
    comps = [n for n in ast.walk(inner) if isinstance(n, ast.ListComp) and len(n.generators) == 1
             and n.generators[0] is loops[0] and not n.generators[0].ifs]
    if len(comps) != 1:
        return False
    return call_ok(loops[0].target, [ast.Expr(value=comps[0].elt)])


def _cfg_stage(st):
    """which stage of `configure` a top-level statement is (None: a statement that calls nothing and stores nothing
    in the core, e.g. `ids = []` / `return ids`); the shapes pin what each stage does"""
    calls = _self_calls(st)
    src = ast.unparse(st).replace("\n", " ; ")
    if calls == ["remove"]:
        # `if handlers is not None: self.remove() / else: handlers = []` (either orientation)
        for shape in ("if handlers is not None:\n    self.remove()\nelse:\n    handlers = []",
                      "if handlers is None:\n    handlers = []\nelse:\n    self.remove()"):
            if pmatch(_pat(shape), st, {}):
                return "removeAll"
    elif calls == ["level"]:
        def ok(target, body):
            return isinstance(target, ast.Name) and len(body) == 1 and pmatch(_pat("self.level(**%s)" % target.id), body[0], {})
        if _loop_over(st, "levels", ok):
            return "levels"
    elif sorted(calls) == ["disable", "enable"]:
        def ok(target, body):
            if not (isinstance(target, ast.Tuple) and len(target.elts) == 2 and all(isinstance(e, ast.Name) for e in target.elts)):
                return False
            n, s_ = target.elts[0].id, target.elts[1].id
            return len(body) == 1 and any(pmatch(_pat(sh % {"n": n, "s": s_}), body[0], {}) for sh in (
                "if %(s)s:\n    self.enable(%(n)s)\nelse:\n    self.disable(%(n)s)",
                "if not %(s)s:\n    self.disable(%(n)s)\nelse:\n    self.enable(%(n)s)",
                "(self.enable if %(s)s else self.disable)(%(n)s)",
                "self.enable(%(n)s) if %(s)s else self.disable(%(n)s)"))
        if _loop_over(st, "activation", ok):
            return "activation"
    elif calls == ["add"]:
        def ok(target, body):
            if not (isinstance(target, ast.Name) and len(body) == 1):
                return False
            return any(pmatch(_pat(sh % target.id), body[0], {}) for sh in ("self.add(**%s)", "M_IDS.append(self.add(**%s))"))
        if _loop_over(st, "handlers", ok):
            return "adds"
    elif not calls:
        stores = {ast.unparse(t) for n in ast.walk(st) if isinstance(n, ast.Assign) for t in n.targets}
        if stores == {"self._core.patcher"} and isinstance(st, ast.If) and "patcher" in _names(st.test):
            return "patcher"
        if not stores and isinstance(st, ast.If) and "extra" in _names(st.test) and "self._core.extra" in src:
            return "extra"
        if "self._core" not in src and isinstance(st, (ast.Assign, ast.Return)):
            return None
    raise Unsupported("configure: unrecognised statement: " + src[:160])


def _chain(block, var, test_of, act_of, what):
    """the unique top-level `if <test on var> ... elif ... else ...` of `block`, as ([(test tag, action tag)], else tag)"""
    heads = []
    for st in block:
        if isinstance(st, ast.If):
            try:
                test_of(st.test, var)
                heads.append(st)
            except Unsupported:
                pass
    if len(heads) != 1:
        raise Unsupported("%s: expected exactly one if/elif chain on `%s`, found %d" % (what, var, len(heads)))
    node, out = heads[0], []
    while True:
        out.append((test_of(node.test, var), act_of(node.body)))
        if len(node.orelse) == 1 and isinstance(node.orelse[0], ast.If):
            node = node.orelse[0]
            continue
        if not node.orelse:
            raise Unsupported("%s: chain without else branch" % what)
        els = act_of(node.orelse)
        break
    if len({t for t, _ in out}) != len(out):
        raise Unsupported("%s: a test occurs twice" % what)
    return out, els


def _isinst(test, var, cls):
    return pmatch(_pat("isinstance(%s, %s)" % (var, cls)).value, test, {})


def _ftest(test, var):
    for src, tag in (("%s is None", "isNone"), ("%s == ''", "eqEmptyStr"), ("'' == %s", "eqEmptyStr"),
                     ("callable(%s)", "isCallable")):
        if pmatch(_pat(src % var).value, test, {}):
            return tag
    if _isinst(test, var, "str"):
        return "isStr"
    if _isinst(test, var, "dict"):
        return "isDict"
    raise Unsupported("unknown test on %s: %s" % (var, ast.unparse(test)))


def _assigned(stmts, target):
    return [n.value for st in stmts for n in ast.walk(st) if isinstance(n, ast.Assign) and len(n.targets) == 1
            and isinstance(n.targets[0], ast.Name) and n.targets[0].id == target]


def _fact(stmts, var, ff):
    if _raises(stmts, "TypeError"):
        return "typeError"
    vals = _assigned(stmts, ff)
    if len(vals) != 1:
        raise Unsupported("add filter chain: branch does not assign the filter function once: "
                          + " ; ".join(ast.unparse(s) for s in stmts)[:120])
    v = vals[0]
    txt = ast.unparse(v)
    if len(stmts) == 1 and isinstance(v, ast.Constant) and v.value is None:
        return "noFilter"
    if len(stmts) == 1 and txt.split(".")[-1] == "filter_none":
        return "filterNone"
    if isinstance(v, ast.Call) and txt.split("(")[0].split(".")[-1] == "partial" and v.args:
        fn = ast.unparse(v.args[0]).split(".")[-1]
        if fn == "filter_by_name":
            return "byName"
        if fn == "filter_by_level" and any(isinstance(n, ast.For) and ast.unparse(n.iter) == var + ".items()" for n in stmts):
            return "byLevel"
    if txt == var:
        # the callable branch must refuse builtins.filter first
        g = [n for n in stmts if isinstance(n, ast.If) and _raises(n.body, "ValueError") and not n.orelse and any(
            pmatch(_pat(t % var).value, n.test, {}) for t in ("%s == builtins.filter", "builtins.filter == %s",
                                                                "%s is builtins.filter"))]
        if len(g) == 1 and len(stmts) == 2 and stmts.index(g[0]) == 0:
            return "callable"
    raise Unsupported("add filter chain: unknown branch: " + " ; ".join(ast.unparse(s) for s in stmts)[:160])


def _vtest(test, var):
    for src, tag in (("%s is False", "isFalse"), ("%s is True", "isTrue")):
        if pmatch(_pat(src % var).value, test, {}):
            return tag
    if _isinst(test, var, "str"):
        return "isStr"
    if _isinst(test, var, "int"):
        return "isInt"
    raise Unsupported("unknown test on %s: %s" % (var, ast.unparse(test)))


def _vact(stmts, var, ln):
    if _raises(stmts, "TypeError"):
        return "typeError"
    vals = _assigned(stmts, ln)
    if len(vals) != 1:
        raise Unsupported("add dict value chain: branch does not assign the level once")
    v = vals[0]
    if len(stmts) == 1 and isinstance(v, ast.Constant) and v.value is False:
        return "reject"
    if len(stmts) == 1 and isinstance(v, ast.Constant) and isinstance(v.value, int) and not isinstance(v.value, bool):
        return "const %d" % v.value if v.value >= 0 else "const (%d)" % v.value
    if pmatch(_pat("self.level(%s).no" % var).value, v, {}):
        # `try: levelno_ = self.level(level_).no / except ValueError: raise ValueError(...)`
        if len(stmts) == 1 and (isinstance(stmts[0], ast.Assign) or (
                isinstance(stmts[0], ast.Try) and len(stmts[0].handlers) == 1
                and ast.unparse(stmts[0].handlers[0].type) == "ValueError" and _raises(stmts[0].handlers[0].body, "ValueError")
                and not stmts[0].orelse and not stmts[0].finalbody)):
            return "levelByName"
    if len(stmts) == 1 and ast.unparse(v) == var:
        return "intValue"
    raise Unsupported("add dict value chain: unknown branch: " + " ; ".join(ast.unparse(s) for s in stmts)[:160])


def _ttest(test, var):
    if _isinst(test, var, "str"):
        return "isStr"
    if _isinst(test, var, "int"):
        return "isInt"
    raise Unsupported("unknown test on %s: %s" % (var, ast.unparse(test)))


def _tact(stmts, var, lno):
    if _raises(stmts, "TypeError"):
        return "typeError"
    vals = _assigned(stmts, lno)
    if len(stmts) == 1 and len(vals) == 1:
        if pmatch(_pat("self.level(%s).no" % var).value, vals[0], {}):
            return "levelByName"
        if ast.unparse(vals[0]) == var:
            return "intValue"
    raise Unsupported("add level chain: unknown branch: " + " ; ".join(ast.unparse(s) for s in stmts)[:160])


def _pos(n):
    return (n.lineno, n.col_offset)


def _cache_fill_target(logf_raw):
    """True: every `X[name] = status` of the cache-miss handler stores through a local that was bound to
    `<core>.enabled` before the first read of `.activation_none` / `.activation_list`; False: every such store goes
    through `<core>.enabled` itself (or a local bound after the rules were read).  Mixed / anything else: Unsupported."""
    cores = {"self._core"}
    for n in ast.walk(logf_raw):
        if isinstance(n, ast.Assign) and len(n.targets) == 1 and isinstance(n.targets[0], ast.Name) \
                and ast.unparse(n.value) == "self._core":
            cores.add(n.targets[0].id)
    # locals bound to <core>.enabled (position of the binding)
    alias = {}
    for n in ast.walk(logf_raw):
        if isinstance(n, ast.Assign) and len(n.targets) == 1 and isinstance(n.targets[0], ast.Name) \
                and isinstance(n.value, ast.Attribute) and n.value.attr == "enabled" and ast.unparse(n.value.value) in cores:
            if n.targets[0].id in alias:
                raise Unsupported("_log: cache dict alias bound twice")
            alias[n.targets[0].id] = _pos(n)
    dicts = {c + ".enabled" for c in cores} | set(alias)
    tries = [n for n in ast.walk(logf_raw) if isinstance(n, ast.Try)
             and any(isinstance(x, ast.Subscript) and ast.unparse(x.value) in dicts for st in n.body for x in ast.walk(st))
             and any("KeyError" in ast.unparse(h.type) for h in n.handlers if h.type is not None)]
    if len(tries) != 1 or len(tries[0].handlers) != 1:
        raise Unsupported("_log: `try: core.enabled[name] ... except KeyError:` not found")
    hnd = tries[0].handlers[0]
    rules = [_pos(n) for st in hnd.body for n in ast.walk(st) if isinstance(n, ast.Attribute)
             and n.attr in ("activation_list", "activation_none") and ast.unparse(n.value) in cores]
    if not rules:
        raise Unsupported("_log: the cache-miss handler does not read the activation rules")
    first_rule = min(rules)
    kinds = set()
    for st in hnd.body:
        for n in ast.walk(st):
            if isinstance(n, ast.Assign):
                for t in n.targets:
                    if isinstance(t, ast.Subscript):
                        base = ast.unparse(t.value)
                        if base in alias:
                            # bound before the try statement, or inside the handler ahead of the first rules read
                            kinds.add(alias[base] < first_rule and (alias[base] >= _pos(hnd) or alias[base] < _pos(tries[0])))
                        elif base in {c + ".enabled" for c in cores}:
                            kinds.add(False)
                        else:
                            raise Unsupported("_log: cache-miss handler stores into " + base)
    if len(kinds) != 1:
        raise Unsupported("_log: the cache fills of the miss handler do not all go through one dict object")
    return kinds.pop()


def _strip_orelse(loop):
    """`for … else: enabled[name] = True` and the same statement after the loop are the same scan"""
    l2 = copy.copy(loop)
    l2.orelse = []
    return l2


def _in_block(block, patterns, b):
    pats = [_pat(p) for p in patterns]

    def go(i, j, bb):
        if j == len(pats):
            return bb
        for k in range(i, len(block)):
            b2 = dict(bb)
            if pmatch(pats[j], block[k], b2):
                r = go(k + 1, j + 1, b2)
                if r is not None:
                    return r
        return None
    r = go(0, 0, dict(b))
    if r is None:
        raise Unsupported("block shape")
    return r
