"""Generated/Dispatch.lean from loguru/_defaults.py, _logger.py, _handler.py, _filters.py (C01).

Extracted (tie G): the default level table, and the comparison / min / slice kernels the dispatch model
is defined in terms of.  Every kernel is located by its *role* in the function (not by its text), then
translated semantically, so a behaviour-preserving rewrite (`a > b` -> `b < a`) still builds while a
changed comparison (`>` -> `>=`) makes a theorem of Props/C01 fail.  Anything unexpected: fail closed.
"""
import ast

from extract_lib import Tr, Unsupported, emit, find_class, find_func, lean_chars, parse_module


class Tr2(Tr):
    """Tr + `len(x)`, `x[:n]` (prefix slice, n >= 0), `min(a, b)` on ints, `x is None`."""

    def tr(self, node):
        if isinstance(node, ast.Subscript) and isinstance(node.slice, ast.Slice):
            sl = node.slice
            if sl.lower is None and sl.step is None and sl.upper is not None:
                x, tx = self.tr(node.value)
                n, tn = self.tr(sl.upper)
                self.need(tx, "str")
                self.need(tn, "int")
                return ("(List.take (Int.toNat %s) %s)" % (n, x), "str")
            raise Unsupported("slice shape " + ast.unparse(node))
        if isinstance(node, ast.Call) and ast.unparse(node.func) == "len" and len(node.args) == 1 and not node.keywords:
            x, tx = self.tr(node.args[0])
            self.need(tx, "str")
            return ("(Int.ofNat (List.length %s))" % x, "int")
        if isinstance(node, ast.Call) and ast.unparse(node.func) == "min" and len(node.args) == 2 and not node.keywords:
            a, ta = self.tr(node.args[0])
            b, tb = self.tr(node.args[1])
            self.need(ta, "int")
            self.need(tb, "int")
            # Python: min(a, b) returns b only if b < a
            return ("(if decide (%s < %s) then %s else %s)" % (b, a, b, a), "int")
        return super().tr(node)


def _returns_nothing(stmts):
    return len(stmts) == 1 and isinstance(stmts[0], ast.Return) and stmts[0].value is None


def _raises(stmts, exc):
    return len(stmts) == 1 and isinstance(stmts[0], ast.Raise) and isinstance(stmts[0].exc, ast.Call) \
        and ast.unparse(stmts[0].exc.func) == exc


def _ifs(fn):
    return [n for n in ast.walk(fn) if isinstance(n, ast.If)]


def _ordcmp(test):
    return isinstance(test, ast.Compare) and len(test.ops) == 1 \
        and isinstance(test.ops[0], (ast.Lt, ast.LtE, ast.Gt, ast.GtE))


def generate():
    errors = []
    body = "import LoguruModel.Py.Basic\nset_option linter.unusedVariables false\nnamespace Dispatch.Gen\n\n"
    try:
        # ---------------------------------------------------------------- default level table
        dtree, _ = parse_module("_defaults.py")
        defaults = {}
        for node in dtree.body:
            if isinstance(node, ast.Assign) and isinstance(node.targets[0], ast.Name) \
                    and isinstance(node.value, ast.Call) and ast.unparse(node.value.func) == "env":
                a = node.value.args
                if len(a) == 3 and isinstance(a[0], ast.Constant) and a[0].value == node.targets[0].id \
                        and ast.unparse(a[1]) == "int" and isinstance(a[2], ast.Constant) \
                        and isinstance(a[2].value, int) and not isinstance(a[2].value, bool):
                    defaults[node.targets[0].id] = a[2].value
        ltree, _ = parse_module("_logger.py")
        core = find_class(ltree, "Core")
        init = find_func(core, "__init__")
        levels = None
        for node in init.body:
            if isinstance(node, ast.Assign) and ast.unparse(node.targets[0]) == "levels" and isinstance(node.value, ast.List):
                levels = node.value
        if levels is None:
            raise Unsupported("Core.__init__: `levels = [...]` not found")
        rows = []
        for e in levels.elts:
            if not (isinstance(e, ast.Call) and ast.unparse(e.func) == "Level" and len(e.args) == 4
                    and isinstance(e.args[0], ast.Constant) and isinstance(e.args[0].value, str)):
                raise Unsupported("Level(...) entry shape: " + ast.unparse(e)[:60])
            ref = ast.unparse(e.args[1])
            if not ref.startswith("_defaults.") or ref[len("_defaults."):] not in defaults:
                raise Unsupported("level number is not an int default of _defaults.py: " + ref)
            rows.append("(%s, (%d : Int))" % (lean_chars(e.args[0].value), defaults[ref[len("_defaults."):]]))
        init_src = ast.unparse(init)
        for want in ("self.levels = {level.name: level for level in levels}",
                     "self.levels_lookup = {name: (name, name, level.no, level.icon) for name, level in self.levels.items()}",
                     "self.handlers_count = 0", "self.handlers = {}", "self.min_level = float('inf')",
                     "self.enabled = {}", "self.activation_list = []", "self.activation_none = True"):
            if want not in init_src:
                raise Unsupported("Core.__init__ no longer contains: " + want)
        body += "/-- `Core.__init__`: default levels (name, severity), numbers from `_defaults.py` -/\n"
        body += "def defaultLevels : List (Py.Str × Int) := [\n  " + ",\n  ".join(rows) + "]\n\n"

        # ---------------------------------------------------------------- Logger._log
        logger = find_class(ltree, "Logger")
        logf = find_func(logger, "_log")
        env = {"level_no": ("level_no", "int"), "core.min_level": ("min_level", "int"),
               "self._core.min_level": ("min_level", "int")}
        k = [n for n in _ifs(logf) if _returns_nothing(n.body) and not n.orelse and "min_level" in ast.unparse(n.test)]
        if len(k) != 1:
            raise Unsupported("_log: expected exactly one `if <level_no vs min_level>: return`")
        t, ty = Tr2(env).tr(k[0].test)
        Tr.need(ty, "bool")
        body += "/-- `_log`: `%s` → return (finite `min_level`; `inf` is handled by the model) -/\n" % ast.unparse(k[0].test)
        body += "def belowMin (level_no min_level : Int) : Bool := %s\n\n" % t
        first = logf.body[1] if isinstance(logf.body[0], ast.Assign) else logf.body[0]
        if not (isinstance(first, ast.If) and ast.unparse(first.test) == "not core.handlers" and _returns_nothing(first.body)):
            raise Unsupported("_log: early return on empty registry changed")
        k = [n for n in _ifs(logf) if _raises(n.body, "ValueError") and _ordcmp(n.test) and ast.unparse(n.test).startswith("level ")]
        if len(k) != 1:
            raise Unsupported("_log: negative int level check not found")
        t, ty = Tr2({"level": ("level", "int")}).tr(k[0].test)
        body += "/-- `_log`: `%s` → ValueError -/\ndef logRejectsInt (level : Int) : Bool := %s\n\n" % (ast.unparse(k[0].test), t)
        # the cache tuple written for an int level: (None, "Level %d" % level, level, " ")
        cache = [n for n in ast.walk(logf) if isinstance(n, ast.Assign) and ast.unparse(n.targets[0]) == "cache"]
        if len(cache) != 1 or not isinstance(cache[0].value, ast.Tuple) or len(cache[0].value.elts) != 4:
            raise Unsupported("_log: int level cache tuple")
        t, ty = Tr2({"level": ("level", "int")}).tr(cache[0].value.elts[2])
        Tr.need(ty, "int")
        body += "/-- `_log`: severity stored for an int level -/\ndef intLevelNo (level : Int) : Int := %s\n\n" % t
        src = ast.unparse(logf)
        for want in ("core.levels_lookup[level] = cache",
                     "level_id, level_name, level_no, level_icon = core.levels_lookup[level]",
                     "for handler in core.handlers.values():\n        handler.emit("):
            if want not in src:
                raise Unsupported("_log no longer contains: " + want.replace("\n", " "))

        # ---------------------------------------------------------------- Logger.add / remove / level
        addf = find_func(logger, "add")
        asg = [n for n in ast.walk(addf) if isinstance(n, ast.Assign) and ast.unparse(n.targets[0]) == "self._core.min_level"]
        if len(asg) != 1:
            raise Unsupported("add: exactly one assignment to core.min_level expected")
        t, ty = Tr2({"self._core.min_level": ("min_level", "int"), "levelno": ("levelno", "int")}).tr(asg[0].value)
        Tr.need(ty, "int")
        body += "/-- `add`: `self._core.min_level = %s` (finite case) -/\n" % ast.unparse(asg[0].value)
        body += "def addMin (min_level levelno : Int) : Int := %s\n\n" % t
        k = [n for n in _ifs(addf) if _raises(n.body, "ValueError") and _ordcmp(n.test) and ast.unparse(n.test).startswith("levelno ")]
        if len(k) != 1:
            raise Unsupported("add: negative threshold check not found")
        t, ty = Tr2({"levelno": ("levelno", "int")}).tr(k[0].test)
        body += "/-- `add`: `%s` → ValueError -/\ndef addRejectsThreshold (levelno : Int) : Bool := %s\n\n" % (ast.unparse(k[0].test), t)
        k = [n for n in _ifs(addf) if _raises(n.body, "ValueError") and _ordcmp(n.test) and ast.unparse(n.test).startswith("levelno_ ")]
        if len(k) != 1:
            raise Unsupported("add: negative dict level check not found")
        t, ty = Tr2({"levelno_": ("levelno", "int")}).tr(k[0].test)
        body += "/-- `add` (dict filter): `%s` → ValueError -/\ndef addRejectsDictLevel (levelno : Int) : Bool := %s\n\n" % (ast.unparse(k[0].test), t)
        src = ast.unparse(addf)
        for want in ("handler_id = self._core.handlers_count\n        self._core.handlers_count += 1",
                     "handlers = self._core.handlers.copy()\n        handlers[handler_id] = handler",
                     "parent = filter + '.'\n        length = len(parent)",
                     "functools.partial(_filters.filter_by_name, parent=parent, length=length)",
                     "elif level_ is True:\n                levelno_ = 0"):
            if want not in src:
                raise Unsupported("add no longer contains: " + want.replace("\n", " "))
        remf = find_func(logger, "remove")
        src = ast.unparse(remf)
        # the loop body must recompute min_level and publish the registry BEFORE handler.stop() (user code that
        # may raise); the shape "recompute after stop() / once after the loop" is refuted by
        # C01.late_min_level_update_refuted
        rloops = [n for n in ast.walk(remf) if isinstance(n, ast.For) and ast.unparse(n.iter) == "handler_ids"]
        if len(rloops) != 1:
            raise Unsupported("remove: loop over handler_ids not found")
        stmts = [ast.unparse(st) for st in rloops[0].body]
        pos = {}
        for i, st in enumerate(stmts):
            if st.startswith("self._core.min_level ="):
                pos.setdefault("min", i)
            if st == "self._core.handlers = handlers":
                pos.setdefault("publish", i)
            if st == "handler.stop()":
                pos.setdefault("stop", i)
        if not ("min" in pos and "publish" in pos and "stop" in pos and pos["min"] < pos["stop"] and pos["publish"] < pos["stop"]):
            raise Unsupported("remove: min_level is not recomputed (and the registry published) before handler.stop() "
                              "inside the loop - refuted shape, see C01.late_min_level_update_refuted; loop body: "
                              + " ; ".join(stmts))
        for want in ("levelnos = (h.levelno for h in handlers.values())",
                     "self._core.min_level = min(levelnos, default=float('inf'))",
                     "handlers = self._core.handlers.copy()\n            handler = handlers.pop(handler_id)",
                     "self._core.handlers = handlers"):
            if want not in src:
                raise Unsupported("remove no longer contains: " + want.replace("\n", " "))
        if src.index("self._core.min_level = min(") < src.index("handlers.pop(handler_id)"):
            raise Unsupported("remove: min_level recomputed before the pop")
        body += "/-- `remove`: `min_level = min(levelnos of the remaining handlers, default=inf)` – shape checked -/\n"
        body += "def removeRecomputesMin : Bool := true\n\n"
        levf = find_func(logger, "level")
        k = [n for n in _ifs(levf) if _raises(n.body, "ValueError") and _ordcmp(n.test) and ast.unparse(n.test).startswith("no ")]
        if len(k) != 1:
            raise Unsupported("level: negative severity check not found")
        t, ty = Tr2({"no": ("no", "int")}).tr(k[0].test)
        body += "/-- `level`: `%s` → ValueError -/\ndef levelRejectsNo (no : Int) : Bool := %s\n\n" % (ast.unparse(k[0].test), t)

        # ---------------------------------------------------------------- _change_activation
        chf = find_func(logger, "_change_activation")
        src = ast.unparse(chf)
        for want in ("if name != '':\n            name += '.'",
                     "activation_list.sort(key=modules_depth, reverse=True)",
                     "return x[0].count('.')",
                     "self._core.activation_list = activation_list",
                     "self._core.enabled = enabled",
                     "enabled = self._core.enabled.copy()"):
            if want not in src:
                raise Unsupported("_change_activation no longer contains: " + want.replace("\n", " "))
        envs = {"n": ("n", "str"), "name": ("name", "str")}
        comp = [n for n in ast.walk(chf) if isinstance(n, ast.ListComp)]
        if len(comp) != 1 or len(comp[0].generators) != 1 or len(comp[0].generators[0].ifs) != 1 \
                or ast.unparse(comp[0].elt) != "(n, s)" or ast.unparse(comp[0].generators[0].iter) != "self._core.activation_list":
            raise Unsupported("_change_activation: pruning comprehension shape")
        t, ty = Tr2(envs).tr(comp[0].generators[0].ifs[0])
        Tr.need(ty, "bool")
        body += "/-- `_change_activation`: rule `n` is KEPT iff `%s` (name already dotted) -/\n" % ast.unparse(comp[0].generators[0].ifs[0])
        body += "def actKeeps (n name : Py.Str) : Bool := %s\n\n" % t
        gen = [n for n in ast.walk(chf) if isinstance(n, ast.GeneratorExp)]
        if len(gen) != 1 or len(gen[0].generators[0].ifs) != 1 or ast.unparse(gen[0].elt) != "s" \
                or ast.unparse(gen[0].generators[0].iter) != "activation_list":
            raise Unsupported("_change_activation: parent_status generator shape")
        t, ty = Tr2(envs).tr(gen[0].generators[0].ifs[0])
        Tr.need(ty, "bool")
        body += "/-- `_change_activation`: rule `n` is a parent of the new `name` iff `%s` -/\n" % ast.unparse(gen[0].generators[0].ifs[0])
        body += "def actParent (n name : Py.Str) : Bool := %s\n\n" % t
        k = [n for n in _ifs(chf) if "parent_status" in ast.unparse(n.test)]
        want = "parent_status != status and (not (name == '' and status is True))"
        if len(k) != 1 or ast.unparse(k[0].test) != want:
            raise Unsupported("_change_activation: append condition changed: " + (ast.unparse(k[0].test) if k else "?"))
        loops = [n for n in ast.walk(chf) if isinstance(n, ast.For) and ast.unparse(n.iter) == "enabled"]
        if len(loops) != 2:
            raise Unsupported("_change_activation: cache rewrite loops")
        loops = [l for l in loops if isinstance(l.body[0], ast.If) and isinstance(l.body[0].test, ast.BoolOp)]
        if len(loops) != 1:
            raise Unsupported("_change_activation: cache rewrite loop for str names")
        inner = loops[0].body[0]
        if not (isinstance(inner, ast.If) and isinstance(inner.test, ast.BoolOp) and isinstance(inner.test.op, ast.And)
                and ast.unparse(inner.test.values[0]) == "n is not None" and len(inner.test.values) == 2
                and ast.unparse(inner.body[0]) == "enabled[n] = status"):
            raise Unsupported("_change_activation: cache rewrite test shape")
        t, ty = Tr2(envs).tr(inner.test.values[1])
        Tr.need(ty, "bool")
        body += "/-- `_change_activation`: cached module `n` is rewritten iff `%s` -/\n" % ast.unparse(inner.test.values[1])
        body += "def actCacheHit (n name : Py.Str) : Bool := %s\n\n" % t
        # the scan in _log on a cache miss
        scan = [n for n in ast.walk(logf) if isinstance(n, ast.For) and ast.unparse(n.iter) == "core.activation_list"]
        if len(scan) != 1 or ast.unparse(scan[0].target) != "(dotted_module_name, status)":
            raise Unsupported("_log: activation scan loop")
        sif = scan[0].body[0]
        if not (len(scan[0].body) == 1 and isinstance(sif, ast.If) and not sif.orelse and len(sif.body) == 3
                and ast.unparse(sif.body[0]) == "if status:\n    break"
                and ast.unparse(sif.body[1]) == "enabled[name] = False" and _returns_nothing(sif.body[2:])):
            raise Unsupported("_log: activation scan body")
        if "dotted_name = name + '.'" not in ast.unparse(logf):
            raise Unsupported("_log: dotted_name")
        t, ty = Tr2({"dotted_name": ("dotted_name", "str"), "dotted_module_name": ("rule", "str")}).tr(sif.test)
        Tr.need(ty, "bool")
        body += "/-- `_log` (cache miss): rule matches the module iff `%s` -/\n" % ast.unparse(sif.test)
        body += "def scanMatches (dotted_name rule : Py.Str) : Bool := %s\n\n" % t

        # ---------------------------------------------------------------- Handler.emit
        htree, _ = parse_module("_handler.py")
        emitf = find_func(find_class(htree, "Handler"), "emit")
        k = [n for n in _ifs(emitf) if _returns_nothing(n.body) and not n.orelse and "_levelno" in ast.unparse(n.test)]
        if len(k) != 1:
            raise Unsupported("Handler.emit: threshold gate not found")
        t, ty = Tr2({"self._levelno": ("levelno", "int"), "record['level'].no": ("record_no", "int")}).tr(_subst_record(k[0].test))
        Tr.need(ty, "bool")
        body += "/-- `Handler.emit`: `%s` → return -/\n" % ast.unparse(k[0].test)
        body += "def handlerRejects (levelno record_no : Int) : Bool := %s\n\n" % t
        src = ast.unparse(emitf)
        if "if self._filter is not None:\n            if not self._filter(record):\n                return" not in src:
            raise Unsupported("Handler.emit: filter gate shape")
        if src.index("self._levelno") > src.index("self._filter(record)"):
            raise Unsupported("Handler.emit: filter consulted before the threshold")

        # ---------------------------------------------------------------- _filters.py
        ftree, _ = parse_module("_filters.py")
        fn = find_func(ftree, "filter_none")
        if ast.unparse(fn.body[0]) != "return record['name'] is not None":
            raise Unsupported("filter_none body")
        fb = find_func(ftree, "filter_by_name")
        if [a.arg for a in fb.args.args] != ["record", "parent", "length"] or len(fb.body) != 3 \
                or ast.unparse(fb.body[0]) != "name = record['name']" \
                or ast.unparse(fb.body[1]) != "if name is None:\n    return False" \
                or not isinstance(fb.body[2], ast.Return):
            raise Unsupported("filter_by_name shape")
        t, ty = Tr2({"name": ("name", "str"), "parent": ("parent", "str"), "length": ("length", "int")}).tr(fb.body[2].value)
        Tr.need(ty, "bool")
        body += "/-- `filter_by_name` (name not None): `%s` -/\n" % ast.unparse(fb.body[2].value)
        body += "def filterByName (name parent : Py.Str) (length : Int) : Bool := %s\n\n" % t
        fl = find_func(ftree, "filter_by_level")
        loop = fl.body[1]
        if not (isinstance(loop, ast.While) and ast.unparse(loop.test) == "True" and len(loop.body) == 6):
            raise Unsupported("filter_by_level loop shape")
        want = ["level = level_per_module.get(name, None)", "if level is False:\n    return False", None,
                "if not name:\n    return True", "index = name.rfind('.')", "name = name[:index] if index != -1 else ''"]
        for w, st in zip(want, loop.body):
            if w is not None and ast.unparse(st) != w:
                raise Unsupported("filter_by_level statement changed: " + ast.unparse(st).replace("\n", " "))
        dec = loop.body[2]
        if not (isinstance(dec, ast.If) and ast.unparse(dec.test) == "level is not None" and len(dec.body) == 1
                and isinstance(dec.body[0], ast.Return)):
            raise Unsupported("filter_by_level decision shape")
        t, ty = Tr2({"record['level'].no": ("record_no", "int"), "level": ("level", "int")}).tr(_subst_record(dec.body[0].value))
        Tr.need(ty, "bool")
        body += "/-- `filter_by_level`: a dict entry `level` admits the record iff `%s` -/\n" % ast.unparse(dec.body[0].value)
        body += "def levelAdmits (record_no level : Int) : Bool := %s\n" % t
    except (Unsupported, SyntaxError, KeyError, AttributeError, IndexError, ValueError) as e:
        errors.append("%s: %s" % (type(e).__name__, e))
    body += "\nend Dispatch.Gen\n"
    return emit("Dispatch", body, ["loguru/_defaults.py", "loguru/_logger.py", "loguru/_handler.py", "loguru/_filters.py"],
                errors)


class _Rec(ast.NodeTransformer):
    """record['level'].no  ->  a plain name the translator's env can hold"""

    def visit_Attribute(self, node):
        if ast.unparse(node) in ("record['level'].no",):
            return ast.copy_location(ast.Name(id="record['level'].no", ctx=ast.Load()), node)
        return self.generic_visit(node)


def _subst_record(node):
    import copy
    return _Rec().visit(copy.deepcopy(node))
