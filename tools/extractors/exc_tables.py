"""Generated/Exc.lean from loguru/_better_exceptions.py (+ the construction site in _logger.py) – C13.

Constants and comparison kernels the C13 theorems depend on, plus shape checks of the code the
hand model mirrors.  Fails closed: any unexpected shape leaves the definitions absent.
"""
import ast

from extract_lib import Tr, Unsupported, emit, find_func, lean_chars, parse_module

CLS = "ExceptionFormatter"


def _src(n):
    return ast.unparse(n)


def _int(node, what):
    if isinstance(node, ast.Constant) and isinstance(node.value, int) and not isinstance(node.value, bool):
        return node.value
    raise Unsupported("%s is not an int literal: %s" % (what, _src(node)))


def _cmp_int(node, left_src, op, what):
    """node must be `<left_src> <op> <int literal>`; returns the literal"""
    if not (isinstance(node, ast.Compare) and len(node.ops) == 1 and isinstance(node.ops[0], op)
            and _src(node.left) == left_src):
        raise Unsupported("%s: expected `%s %s <int>`, found `%s`" % (what, left_src, op.__name__, _src(node)))
    return _int(node.comparators[0], what)


def _self_chain(node):
    while isinstance(node, ast.Attribute):
        node = node.value
    return isinstance(node, ast.Name) and node.id == "self"


def inline_aliases(fn):
    """copy of the function in which every local that is assigned exactly once, by `name = self.a.b…`, is replaced
    by that attribute expression (and the assignment dropped) – provided the function never stores to the
    attribute.  `x = self._y; use(x)` and `use(self._y)` then have the same shape, whatever the local is called."""
    import copy
    fn = copy.deepcopy(fn)
    params = {a.arg for a in fn.args.args + fn.args.kwonlyargs + fn.args.posonlyargs}
    stores = {}
    for n in ast.walk(fn):
        if isinstance(n, ast.Name) and isinstance(n.ctx, (ast.Store, ast.Del)):
            stores[n.id] = stores.get(n.id, 0) + 1
        elif isinstance(n, ast.ExceptHandler) and n.name:
            stores[n.name] = stores.get(n.name, 0) + 1
        elif isinstance(n, (ast.Global, ast.Nonlocal)):
            for name in n.names:
                stores[name] = stores.get(name, 0) + 2
    attr_stores = {_src(n) for n in ast.walk(fn) if isinstance(n, ast.Attribute) and isinstance(n.ctx, (ast.Store, ast.Del))}
    alias = {}
    for n in ast.walk(fn):
        if isinstance(n, ast.Assign) and len(n.targets) == 1 and isinstance(n.targets[0], ast.Name) \
                and isinstance(n.value, ast.Attribute) and _self_chain(n.value):
            name = n.targets[0].id
            if stores.get(name) == 1 and name not in params and _src(n.value) not in attr_stores:
                alias[name] = n.value

    class T(ast.NodeTransformer):
        def visit_Assign(self, node):
            if len(node.targets) == 1 and isinstance(node.targets[0], ast.Name) and node.targets[0].id in alias \
                    and node.value is alias[node.targets[0].id]:
                return None
            return self.generic_visit(node)

        def visit_Name(self, node):
            if isinstance(node.ctx, ast.Load) and node.id in alias:
                return copy.deepcopy(alias[node.id])
            return node

    fn = T().visit(fn)
    ast.fix_missing_locations(fn)
    return fn


class _NoneTests(ast.NodeTransformer):
    """`x is None` -> the boolean name `x__isnone`; `x is not None` -> `not x__isnone` (so that `Tr` can translate)"""

    def visit_Compare(self, node):
        self.generic_visit(node)
        if len(node.ops) == 1 and isinstance(node.left, ast.Name) and isinstance(node.comparators[0], ast.Constant) \
                and node.comparators[0].value is None:
            nm = ast.Name(id=node.left.id + "__isnone", ctx=ast.Load())
            if isinstance(node.ops[0], ast.Is):
                return nm
            if isinstance(node.ops[0], ast.IsNot):
                return ast.UnaryOp(op=ast.Not(), operand=nm)
        return node


def _pure_bool(node, params):
    """expression built from and/or/not over parameters and `self.…` attributes only"""
    if isinstance(node, ast.BoolOp):
        return all(_pure_bool(v, params) for v in node.values)
    if isinstance(node, ast.UnaryOp) and isinstance(node.op, ast.Not):
        return _pure_bool(node.operand, params)
    if isinstance(node, ast.Name):
        return node.id in params
    if isinstance(node, ast.Attribute):
        return _self_chain(node)
    return False


def inline_bool_locals(fn):
    """copy of the function in which every local assigned exactly once, at the top level of the body, by a pure
    boolean expression over parameters / `self.…` attributes (never stored in the function) is replaced by that
    expression: `g = a and not self._b; if c or g:` and `if c or (a and not self._b):` get the same shape"""
    import copy
    fn = copy.deepcopy(fn)
    params = {a.arg for a in fn.args.args + fn.args.kwonlyargs + fn.args.posonlyargs}
    stores = {}
    for n in ast.walk(fn):
        if isinstance(n, ast.Name) and isinstance(n.ctx, (ast.Store, ast.Del)):
            stores[n.id] = stores.get(n.id, 0) + 1
    stored_params = {n.id for n in ast.walk(fn) if isinstance(n, ast.Name) and isinstance(n.ctx, (ast.Store, ast.Del))
                     and n.id in params}
    attr_stores = {_src(n) for n in ast.walk(fn) if isinstance(n, ast.Attribute) and isinstance(n.ctx, (ast.Store, ast.Del))}
    alias = {}
    for s in fn.body:
        if isinstance(s, ast.Assign) and len(s.targets) == 1 and isinstance(s.targets[0], ast.Name) \
                and stores.get(s.targets[0].id) == 1 and s.targets[0].id not in params \
                and _pure_bool(s.value, params - stored_params) \
                and not any(_src(a) in attr_stores for a in ast.walk(s.value) if isinstance(a, ast.Attribute)):
            alias[s.targets[0].id] = s.value

    class T(ast.NodeTransformer):
        def visit_Assign(self, node):
            if len(node.targets) == 1 and isinstance(node.targets[0], ast.Name) and node.targets[0].id in alias \
                    and node.value is alias[node.targets[0].id]:
                return None
            return self.generic_visit(node)

        def visit_Name(self, node):
            if isinstance(node.ctx, ast.Load) and node.id in alias:
                return copy.deepcopy(alias[node.id])
            return node

    fn = T().visit(fn)
    ast.fix_missing_locations(fn)
    return fn, stored_params


def generate():
    errors = []
    body = "import LoguruModel.Py.Basic\nimport LoguruModel.Py.Slice\nset_option linter.unusedVariables false\nnamespace Exc.Gen\n\n"
    try:
        tree, _ = parse_module("_better_exceptions.py")

        # ---- __init__ default max_length
        init = find_func(tree, "__init__", CLS)
        names = [a.arg for a in init.args.args]
        defaults = dict(zip(names[len(names) - len(init.args.defaults):], init.args.defaults))
        if "max_length" not in defaults:
            raise Unsupported("max_length has no default")
        max_length = _int(defaults["max_length"], "max_length default")
        if "self._max_length = max_length" not in [_src(s) for s in init.body]:
            raise Unsupported("__init__ does not store max_length unchanged")

        # ---- _format_value: try repr / except Exception / placeholder / truncation
        fv = inline_aliases(find_func(tree, "_format_value", CLS))
        if len(fv.args.args) != 2:
            raise Unsupported("_format_value: parameters")
        pv = fv.args.args[1].arg          # the value parameter, whatever it is called
        ml = "self._max_length"           # (a local alias of it has been inlined)
        if len(fv.body) != 3:
            raise Unsupported("_format_value has %d statements (after inlining aliases), expected 3" % len(fv.body))
        tr, cond, ret = fv.body
        if not (isinstance(tr, ast.Try) and len(tr.body) == 1 and _src(tr.body[0]) == "%s = repr(%s)" % (pv, pv)
                and len(tr.handlers) == 1 and not tr.orelse and not tr.finalbody):
            raise Unsupported("_format_value: try block shape")
        h = tr.handlers[0]
        guard = None if h.type is None else _src(h.type)
        if guard not in ("Exception", None, "BaseException"):
            raise Unsupported("_format_value: repr is guarded by `except %s` (property needs every Exception)" % guard)
        if not (len(h.body) == 1 and isinstance(h.body[0], ast.Assign) and isinstance(h.body[0].value, ast.BinOp)
                and isinstance(h.body[0].value.op, ast.Mod) and isinstance(h.body[0].value.left, ast.Constant)
                and _src(h.body[0].value.right) == "type(%s).__name__" % pv and _src(h.body[0].targets[0]) == pv):
            raise Unsupported("_format_value: placeholder shape")
        ph = h.body[0].value.left.value
        if ph.count("%s") != 1 or "%" in ph.replace("%s", ""):
            raise Unsupported("placeholder format %r" % ph)
        ph_pre, ph_post = ph.split("%s")
        if not (isinstance(cond, ast.If) and isinstance(cond.test, ast.BoolOp) and isinstance(cond.test.op, ast.And)
                and len(cond.test.values) == 2 and _src(cond.test.values[0]) == ml + " is not None"
                and not cond.orelse and len(cond.body) == 1):
            raise Unsupported("_format_value: truncation test shape")
        c2 = cond.test.values[1]
        if _src(c2) != "len(%s) > %s" % (pv, ml):
            raise Unsupported("_format_value: truncation comparison is `%s`" % _src(c2))
        cut = cond.body[0]
        if not (isinstance(cut, ast.Assign) and _src(cut.targets[0]) == pv and isinstance(cut.value, ast.BinOp)
                and isinstance(cut.value.op, ast.Add) and isinstance(cut.value.right, ast.Constant)
                and isinstance(cut.value.right.value, str) and isinstance(cut.value.left, ast.Subscript)
                and _src(cut.value.left.value) == pv and isinstance(cut.value.left.slice, ast.Slice)
                and cut.value.left.slice.lower is None and cut.value.left.slice.step is None
                and isinstance(cut.value.left.slice.upper, ast.BinOp)
                and isinstance(cut.value.left.slice.upper.op, ast.Sub)
                and _src(cut.value.left.slice.upper.left) == ml):
            raise Unsupported("_format_value: truncation assignment shape: " + _src(cut))
        cut_n = _int(cut.value.left.slice.upper.right, "truncation cut")
        ellipsis = cut.value.right.value
        if _src(ret) != "return " + pv:
            raise Unsupported("_format_value: return")

        # ---- _format_relevant_values: a value is laid out on the lines of value.split("\n")
        frv = find_func(tree, "_format_relevant_values", CLS)
        splits = [n for n in ast.walk(frv) if isinstance(n, ast.Assign) and _src(n.targets[0]) == "value_lines"]
        if len(splits) != 1 or not (isinstance(splits[0].value, ast.Call) and _src(splits[0].value.func) == "value.split"
                                    and len(splits[0].value.args) == 1 and isinstance(splits[0].value.args[0], ast.Constant)
                                    and isinstance(splits[0].value.args[0].value, str)
                                    and len(splits[0].value.args[0].value) == 1):
            raise Unsupported("_format_relevant_values: value_lines is not value.split(<one character>)")
        line_sep = splits[0].value.args[0].value

        # ---- _format_list: folding threshold
        fl = find_func(tree, "_format_list", CLS)
        thr, subs = set(), set()
        main_nodes = [n for s in fl.body if not isinstance(s, ast.FunctionDef) for n in ast.walk(s)]
        for n in main_nodes:
            if isinstance(n, ast.Compare) and _src(n.left) == "count":
                thr.add(_cmp_int(n, "count", ast.Gt, "_format_list comparison"))
            if isinstance(n, ast.BinOp) and isinstance(n.op, ast.Sub) and _src(n.left) == "count":
                subs.add(_int(n.right, "count - k"))
        ncmp = sum(1 for n in main_nodes if isinstance(n, ast.Compare) and _src(n.left) == "count")
        if len(thr) != 1 or subs != thr or ncmp != 3:
            raise Unsupported("_format_list: thresholds %r / subtractions %r / %d comparisons" % (thr, subs, ncmp))
        fold = thr.pop()

        # ---- _format_list, statement level: the loop's tests and counter updates are REGENERATED (`Exc.formatListLoop` is
        #      defined through them, `C13.format_list_loop_refines` proves it equal to `foldFrames`)
        fl_top = [x for x in fl.body if not isinstance(x, (ast.FunctionDef, ast.Expr)) or (
            isinstance(x, ast.Expr) and not isinstance(x.value, ast.Constant))]
        loops = [i for i, x in enumerate(fl_top) if isinstance(x, ast.For)]
        if len(loops) != 1 or fl_top[loops[0]].orelse:
            raise Unsupported("_format_list: expected exactly one top-level for loop")
        lp = fl_top[loops[0]]
        if not (isinstance(lp.target, ast.Tuple) and len(lp.target.elts) == 2 and isinstance(lp.target.elts[0], ast.Starred)
                and isinstance(lp.target.elts[0].value, ast.Name) and isinstance(lp.target.elts[1], ast.Name)):
            raise Unsupported("_format_list: loop target is not `*source, line`: " + _src(lp.target))
        v_src = lp.target.elts[0].value.id
        branch = [x for x in lp.body if isinstance(x, ast.If) and x.orelse]
        if len(branch) != 1:
            raise Unsupported("_format_list: expected one if/else in the loop body")
        br = branch[0]
        if not (isinstance(br.test, ast.Compare) and len(br.test.ops) == 1 and isinstance(br.test.left, ast.Name)
                and isinstance(br.test.comparators[0], ast.Name)
                and v_src in (br.test.left.id, br.test.comparators[0].id)):
            raise Unsupported("_format_list: the if/else does not compare the frame with the previous one: " + _src(br.test))
        v_last = br.test.comparators[0].id if br.test.left.id == v_src else br.test.left.id

        class _Same(ast.NodeTransformer):
            """`source == last_source` -> the boolean name same__, `!=` -> not same__"""
            def visit_Compare(self, node):
                self.generic_visit(node)
                if len(node.ops) == 1 and isinstance(node.left, ast.Name) and isinstance(node.comparators[0], ast.Name) \
                        and {node.left.id, node.comparators[0].id} == {v_src, v_last}:
                    nm = ast.Name(id="same__", ctx=ast.Load())
                    if isinstance(node.ops[0], ast.Eq):
                        return nm
                    if isinstance(node.ops[0], ast.NotEq):
                        return ast.UnaryOp(op=ast.Not(), operand=nm)
                return node

        import copy as _copy

        def incr_of(st):
            """`c += k` or `c = c + k` -> (c, node of the new value)"""
            if isinstance(st, ast.AugAssign) and isinstance(st.target, ast.Name) and isinstance(st.op, ast.Add):
                return st.target.id, ast.BinOp(left=ast.Name(id=st.target.id, ctx=ast.Load()), op=ast.Add(), right=st.value)
            if isinstance(st, ast.Assign) and len(st.targets) == 1 and isinstance(st.targets[0], ast.Name):
                return st.targets[0].id, st.value
            raise Unsupported("_format_list: counter update " + _src(st))

        # "same" side of the if/else: with `==` it is the body, with `!=` the else branch
        same_body, diff_body = (br.body, br.orelse) if isinstance(br.test.ops[0], ast.Eq) else (br.orelse, br.body)
        if not isinstance(br.test.ops[0], (ast.Eq, ast.NotEq)):
            raise Unsupported("_format_list: comparison operator of the if/else")
        if len(same_body) != 2 or len(diff_body) != 1:
            raise Unsupported("_format_list: branches of the if/else have %d / %d statements" % (len(same_body), len(diff_body)))
        v_cnt, step_val = incr_of(same_body[0])
        cont = same_body[1]
        if not (isinstance(cont, ast.If) and not cont.orelse and len(cont.body) == 1 and isinstance(cont.body[0], ast.Continue)):
            raise Unsupported("_format_list: `if count > k: continue` shape: " + _src(cont))
        v_cnt2, restart_val = incr_of(diff_body[0])
        if v_cnt2 != v_cnt:
            raise Unsupported("_format_list: the two branches update different counters")
        inits = [x for x in fl_top[:loops[0]] if isinstance(x, ast.Assign) and _src(x.targets[0]) == v_cnt]
        if len(inits) != 1:
            raise Unsupported("_format_list: initial value of the counter")
        flenv = {"same__": ("same", "bool"), v_cnt: ("count", "int")}

        def fl_kern(node, want, what):
            try:
                t, ty = Tr(flenv).tr(_Same().visit(_copy.deepcopy(node)))
            except Unsupported as e:
                raise Unsupported("_format_list: %s `%s` is outside the translated subset (%s)" % (what, _src(node), e))
            if ty != want:
                raise Unsupported("_format_list: %s has type %s" % (what, ty))
            return t

        def skip_append(st, what):
            """`<list>.append(<f>(<int expression>))` -> the expression"""
            if isinstance(st, ast.Expr) and isinstance(st.value, ast.Call) and isinstance(st.value.func, ast.Attribute) \
                    and st.value.func.attr == "append" and len(st.value.args) == 1 and isinstance(st.value.args[0], ast.Call) \
                    and len(st.value.args[0].args) == 1 and not isinstance(st.value.args[0].args[0], ast.Starred):
                return st.value.args[0].args[0], _src(st.value.func.value), _src(st.value.args[0].func)
            raise Unsupported("_format_list: %s is not `result.append(skip_message(<expr>))`: %s" % (what, _src(st)))

        pos_br = lp.body.index(br)
        flush = [x for x in lp.body[:pos_br] if isinstance(x, ast.If)]
        if len(flush) != 1 or flush[0].orelse or len(flush[0].body) != 1 or len(lp.body[:pos_br]) != 1:
            raise Unsupported("_format_list: statements before the if/else in the loop")
        flush_arg, res_name, skip_fn = skip_append(flush[0].body[0], "the flush inside the loop")
        after = lp.body[pos_br + 1:]
        if len(after) != 2 or not (isinstance(after[0], ast.Expr) and isinstance(after[0].value, ast.Call)
                                   and _src(after[0].value.func) == res_name + ".append") \
                or _src(after[1]) != "%s = %s" % (v_last, v_src):
            raise Unsupported("_format_list: end of the loop body: " + " / ".join(_src(x) for x in after))
        tail = [x for x in fl_top[loops[0] + 1:] if isinstance(x, ast.If)]
        if len(tail) != 1 or tail[0].orelse or len(tail[0].body) != 1:
            raise Unsupported("_format_list: the flush after the loop")
        final_arg, res2, skip2 = skip_append(tail[0].body[0], "the flush after the loop")
        if (res2, skip2) != (res_name, skip_fn):
            raise Unsupported("_format_list: the two flushes append differently")
        fl_defs = [
            ("flInit", "", "Int", fl_kern(inits[0].value, "int", "initial counter")),
            ("flFlushTest", "(same : Bool) (count : Int)", "Bool", fl_kern(flush[0].test, "bool", "flush test")),
            ("flFlushArg", "(count : Int)", "Int", fl_kern(flush_arg, "int", "flush argument")),
            ("flSameTest", "(same : Bool)", "Bool", "same"),
            ("flStep", "(count : Int)", "Int", fl_kern(step_val, "int", "counter step")),
            ("flContinueTest", "(count : Int)", "Bool", fl_kern(cont.test, "bool", "continue test")),
            ("flRestart", "(count : Int)", "Int", fl_kern(restart_val, "int", "counter restart")),
            ("flFinalTest", "(count : Int)", "Bool", fl_kern(tail[0].test, "bool", "final test")),
            ("flFinalArg", "(count : Int)", "Int", fl_kern(final_arg, "int", "final argument")),
        ]

        # ---- _extract_frames: insertion at the front, suffix limit, diagnose guard
        ef = find_func(tree, "_extract_frames", CLS)
        srcs = [_src(n) for n in ast.walk(ef) if isinstance(n, (ast.Assign, ast.Expr, ast.If))]
        if not any(s.startswith("infos.insert(0, ") for s in srcs):
            raise Unsupported("_extract_frames: caller frames are not inserted at the front")
        # ---- _extract_frames, statement level: the decision kernels and the limit slice are REGENERATED (the model
        #      `Exc.extractLoop` is defined through them; `C13.extract_loop_refines` needs them to mean what the
        #      property says), only the order of the statements is pinned here
        ef2, _stored = inline_bool_locals(inline_aliases(ef))
        ef2 = _NoneTests().visit(ef2)
        pos = [a.arg for a in ef2.args.args]
        kwo = [a.arg for a in ef2.args.kwonlyargs]
        if len(pos) != 3 or "limit" not in kwo or "from_decorator" not in kwo:
            raise Unsupported("_extract_frames: parameters %r / %r" % (pos, kwo))
        p_tb, p_first = pos[1], pos[2]
        kenv = {p_tb + "__isnone": ("tbNone", "bool"), "limit__isnone": ("limitNone", "bool"), "limit": ("limit", "int"),
                p_first: ("isFirst", "bool"), "from_decorator": ("fromDec", "bool"),
                "self._backtrace": ("backtrace", "bool"), "infos": ("infosNonEmpty", "bool")}

        def kern(node, what):
            try:
                t, ty = Tr(kenv).tr(node)
            except Unsupported as e:
                raise Unsupported("_extract_frames: %s `%s` is outside the translated subset (%s)" % (what, _src(node), e))
            if ty != "bool":
                raise Unsupported("_extract_frames: %s is not a boolean expression" % what)
            return t

        top = ef2.body
        early = [i for i, n in enumerate(top) if isinstance(n, ast.If) and len(n.body) == 1 and isinstance(n.body[0], ast.Return)
                 and not n.orelse]
        # one `if a or b: return …` or the same split into consecutive `if a: return …` / `if b: return …`
        if not early or early != list(range(early[0], early[0] + len(early))):
            raise Unsupported("_extract_frames: early returns at statements %r" % early)
        rets = set(_src(top[i].body[0].value) for i in early)
        ret = top[early[0]].body[0].value
        if len(rets) != 1 or not (isinstance(ret, ast.Tuple) and len(ret.elts) == 2):
            raise Unsupported("_extract_frames: early return values %r" % sorted(rets))
        k_early = "(" + " || ".join(kern(top[i].test, "early-return test") for i in early) + ")"
        early = [early[-1]]
        walk_if = [i for i, n in enumerate(top) if isinstance(n, ast.If) and any(isinstance(x, ast.While) for x in n.body)]
        if len(walk_if) != 1 or top[walk_if[0]].orelse:
            raise Unsupported("_extract_frames: the upward walk is not under exactly one top-level `if`")
        wif = top[walk_if[0]]
        k_walk = kern(wif.test, "walk test")
        wl2 = [x for x in wif.body if isinstance(x, ast.While)]
        brk = [n for n in ast.walk(wl2[0]) if isinstance(n, ast.If) and len(n.body) == 1 and isinstance(n.body[0], ast.Break)]
        if len(wl2) != 1 or len(brk) != 1:
            raise Unsupported("_extract_frames: walk loop / break shape")
        k_break = kern(brk[0].test, "break test")
        marks = [n for n in wif.body if isinstance(n, ast.If) and not n.orelse and any(
            isinstance(x, ast.Assign) and isinstance(x.targets[0], ast.Subscript) for x in n.body)]
        if len(marks) != 1 or wif.body.index(marks[0]) < wif.body.index(wl2[0]):
            raise Unsupported("_extract_frames: catch-point marking is not one `if` after the walk loop")
        k_mark = kern(marks[0].test, "marking test")
        mt = [x for x in marks[0].body if isinstance(x, ast.Assign) and isinstance(x.targets[0], ast.Subscript)]
        if len(mt) != 1 or _src(mt[0].targets[0]) != "infos[-1]":
            raise Unsupported("_extract_frames: the marked entry is not infos[-1]")
        if not any("self._catch_point_identifier" in _src(x) for x in marks[0].body):
            raise Unsupported("_extract_frames: the mark is not self._catch_point_identifier")
        rest_loop = [i for i, n in enumerate(top) if isinstance(n, ast.While) and _src(n.test) == p_tb]
        lim_if = [i for i, n in enumerate(top) if isinstance(n, ast.If) and not n.orelse and len(n.body) == 1
                  and isinstance(n.body[0], ast.Assign) and _src(n.body[0].targets[0]) == "infos"
                  and isinstance(n.body[0].value, ast.Subscript) and _src(n.body[0].value.value) == "infos"]
        out_loop = [i for i, n in enumerate(top) if isinstance(n, ast.For) and _src(n.iter) == "infos"]
        if len(rest_loop) != 1 or len(lim_if) != 1 or len(out_loop) != 1:
            raise Unsupported("_extract_frames: traceback loop / limit / output loop: %r %r %r" % (rest_loop, lim_if, out_loop))
        if not (early[0] < walk_if[0] < rest_loop[0] < lim_if[0] < out_loop[0]):
            raise Unsupported("_extract_frames: statement order early-return < walk < traceback loop < limit < output changed")
        k_limapp = kern(top[lim_if[0]].test, "limit test")
        sl = top[lim_if[0]].body[0].value.slice
        if not isinstance(sl, ast.Slice) or sl.step is not None:
            raise Unsupported("_extract_frames: limit is not applied by a step-1 slice: " + _src(top[lim_if[0]].body[0]))

        def bound(nd):
            if nd is None:
                return "none"
            t, ty = Tr({"limit": ("limit", "int")}).tr(nd)
            if ty != "int":
                raise Unsupported("slice bound type")
            return "(some %s)" % t

        k_slice = "Py.slice %s %s l" % (bound(sl.lower), bound(sl.upper))
        guarded = False
        for n in ast.walk(ef):
            if isinstance(n, ast.If) and _src(n.test) == "self._diagnose":
                inner = " ".join(_src(s) for s in n.body)
                if "_get_relevant_values" in inner and "_format_relevant_values" in inner:
                    guarded = True
        calls_outside = 0
        for n in ast.walk(ef):
            if isinstance(n, ast.Call) and _src(n.func) in ("self._get_relevant_values", "self._format_relevant_values"):
                calls_outside += 1
        if not guarded or calls_outside != 2:
            raise Unsupported("_extract_frames: values are not computed strictly under `if self._diagnose:`")
        # the upward walk: `break` for the parent-only (decorator) case must sit INSIDE the visibility test, so that
        # loguru's own frames above the catching wrapper are skipped until the first foreign caller
        walks = [n for n in ast.walk(ef) if isinstance(n, ast.While) and _src(n.test) == "frame"]
        if len(walks) != 1:
            raise Unsupported("_extract_frames: upward walk `while frame:` not found")
        wl = walks[0]
        vis_ifs = [n for n in wl.body if isinstance(n, ast.If) and _src(n.test) == "self._should_include_frame(frame)"]
        if len(vis_ifs) != 1 or vis_ifs[0].orelse or _src(wl.body[-1]) != "frame = frame.f_back":
            raise Unsupported("_extract_frames: upward walk body shape")

        def parent_break(stmts):
            # (what the test says is regenerated as `walkBreaks`; here only WHERE the `if …: break` sits)
            return [n for n in stmts if isinstance(n, ast.If)
                    and len(n.body) == 1 and isinstance(n.body[0], ast.Break) and not n.orelse]

        nbreaks = sum(1 for n in ast.walk(wl) if isinstance(n, ast.Break))
        inside, outside = parent_break(vis_ifs[0].body), parent_break(wl.body)
        if nbreaks != 1 or len(inside) + len(outside) != 1:
            raise Unsupported("_extract_frames: upward walk has %d break statements" % nbreaks)
        walk_skips_hidden = len(inside) == 1
        if not any(_src(n).startswith("infos.insert(0, ") for n in vis_ifs[0].body):
            raise Unsupported("_extract_frames: caller frames are not inserted under the visibility test")
        hid = find_func(tree, "_should_include_frame", CLS)
        if _src(hid.body[0]) != "return frame.f_code.co_filename != self._hidden_frames_filename":
            raise Unsupported("_should_include_frame shape")

        # ---- _format_exception: seen set, cause before context, messages, group cut-offs
        fe = find_func(tree, "_format_exception", CLS)
        stm = [_src(s) for s in fe.body]
        if "seen.add(id(exc_value))" not in stm:
            raise Unsupported("_format_exception: seen.add(id(exc_value)) missing")
        chain_if = None
        for s in fe.body:
            if isinstance(s, ast.If) and _src(s.test) == "exc_value":
                chain_if = s
        if chain_if is None or len(chain_if.body) != 1 or not isinstance(chain_if.body[0], ast.If):
            raise Unsupported("_format_exception: chain block shape")
        c = chain_if.body[0]
        t1 = _src(c.test)
        if len(c.orelse) != 1 or not isinstance(c.orelse[0], ast.If) or c.orelse[0].orelse:
            raise Unsupported("_format_exception: cause/context if-elif shape")
        t2 = _src(c.orelse[0].test)
        cause_t = "exc_value.__cause__ is not None and id(exc_value.__cause__) not in seen"
        ctx_t = ("exc_value.__context__ is not None and id(exc_value.__context__) not in seen "
                 "and (not exc_value.__suppress_context__)")
        if (t1, t2) == (cause_t, ctx_t):
            cause_first = True
            b_cause, b_ctx = c.body, c.orelse[0].body
        elif (t1, t2) == (ctx_t, cause_t):
            cause_first = False
            b_ctx, b_cause = c.body, c.orelse[0].body
        else:
            raise Unsupported("_format_exception: chain tests are `%s` / `%s`" % (t1, t2))

        def msg_of(block, var):
            for s in block:
                if isinstance(s, ast.Assign) and _src(s.targets[0]) == var and isinstance(s.value, ast.Constant):
                    return s.value.value
            raise Unsupported("message %s not found" % var)

        def recursive_call_ok(block, attr):
            s = block[0]
            want = ("yield from self._format_exception(exc_value.%s, exc_value.%s.__traceback__, seen=seen, "
                    "group_nesting=group_nesting)" % (attr, attr))
            if _src(s) != want:
                raise Unsupported("chain call for %s: %s" % (attr, _src(s)))
            # the message must come after the recursive call
            if not any(isinstance(x, ast.Assign) for x in block[1:]):
                raise Unsupported("chain message precedes the chained exception for " + attr)

        recursive_call_ok(b_cause, "__cause__")
        recursive_call_ok(b_ctx, "__context__")
        cause_msg, ctx_msg = msg_of(b_cause, "cause"), msg_of(b_ctx, "context")

        widths, depths, minus = [], [], []
        for n in ast.walk(fe):
            if isinstance(n, ast.Compare) and _src(n.left) == "n" and not isinstance(n.ops[0], ast.Eq):
                widths.append(_cmp_int(n, "n", ast.Gt, "group width test"))
            if isinstance(n, ast.Compare) and _src(n.left) == "group_nesting" and isinstance(n.ops[0], ast.Eq):
                depths.append(_int(n.comparators[0], "group depth test"))
            if isinstance(n, ast.BinOp) and isinstance(n.op, ast.Sub) and _src(n.left) == "len(value.exceptions)":
                minus.append(_int(n.right, "more-count"))
        depths_big = sorted(d for d in depths if d > 1)
        if len(set(widths)) != 1 or len(widths) != 2 or minus != [widths[0]] or len(set(depths_big)) != 1 \
                or len(depths_big) != 2 or sorted(d for d in depths if d <= 1) != [0, 1]:
            raise Unsupported("group cut-offs: widths %r minus %r depths %r" % (widths, minus, depths))
        texts = [n.value for n in ast.walk(fe) if isinstance(n, ast.Constant) and isinstance(n.value, str)]
        for need in ("Traceback (most recent call last):", "Exception Group Traceback (most recent call last):"):
            if need not in texts:
                raise Unsupported("introduction text %r missing" % need)
        if "frames_lines = self._format_list(frames) + exception_only" not in [_src(n) for n in ast.walk(fe) if isinstance(n, ast.Assign)]:
            raise Unsupported("frames are not followed by the exception-only lines")
        if "exception_only = traceback.format_exception_only(exc_type, exc_value)" not in stm:
            raise Unsupported("exception_only is not traceback.format_exception_only")

        # ---- every call that runs code of a user object (repr / str / ascii / format / hash of it) is inside a `try`
        #      whose handler catches Exception; the closing-line block (message-less AssertionError) is regenerated
        cls_node = [n for n in ast.walk(tree) if isinstance(n, ast.ClassDef) and n.name == CLS][0]
        parent = {}
        for n in ast.walk(cls_node):
            for ch in ast.iter_child_nodes(n):
                parent[ch] = n

        def catches_all(tr_node):
            for hh in tr_node.handlers:
                ts = [None] if hh.type is None else (hh.type.elts if isinstance(hh.type, ast.Tuple) else [hh.type])
                if any(t is None or _src(t) in ("Exception", "BaseException") for t in ts):
                    return True
            return False

        def guarded_by(node):
            """the innermost `try` (with a catch-all handler) whose BODY contains the node, within its function"""
            ch, up = node, parent.get(node)
            while up is not None and not isinstance(up, (ast.FunctionDef, ast.Lambda)):
                if isinstance(up, ast.Try) and any(ch is b for b in up.body) and catches_all(up):
                    return up
                ch, up = up, parent.get(up)
            return None

        user_calls = [n for n in ast.walk(cls_node) if isinstance(n, ast.Call) and isinstance(n.func, ast.Name)
                      and n.func.id in ("repr", "str", "ascii", "format", "hash") and n.args
                      and not isinstance(n.args[0], ast.Constant)]
        if len(user_calls) < 2:
            raise Unsupported("expected at least repr(v) and str(exc_value) among the user-object calls, found %r"
                              % [_src(n) for n in user_calls])
        unguarded = [_src(n) for n in user_calls if guarded_by(n) is None]
        strs = [n for n in ast.walk(fe) if isinstance(n, ast.Call) and isinstance(n.func, ast.Name) and n.func.id == "str"
                and len(n.args) == 1 and _src(n.args[0]) in ("exc_value", "value")]
        if len(strs) != 1:
            raise Unsupported("_format_exception: %d calls of str(exc_value)" % len(strs))
        st = strs[0]
        while not isinstance(st, ast.stmt):
            st = parent[st]
        if not (isinstance(st, ast.Assign) and len(st.targets) == 1 and isinstance(st.targets[0], ast.Name)
                and _src(st.value) == "bool(%s)" % _src(strs[0])):
            raise Unsupported("_format_exception: str(exc_value) is not used as `<name> = bool(str(exc_value))`: " + _src(st))
        hm_name = st.targets[0].id
        gtry = guarded_by(strs[0])
        on_error = True
        outer = st
        if gtry is not None:
            if len(gtry.body) != 1 or gtry.orelse or gtry.finalbody or len(gtry.handlers) != 1:
                raise Unsupported("_format_exception: shape of the try around str(exc_value)")
            hb = gtry.handlers[0].body
            if not (len(hb) == 1 and isinstance(hb[0], ast.Assign) and _src(hb[0].targets[0]) == hm_name
                    and isinstance(hb[0].value, ast.Constant) and isinstance(hb[0].value.value, bool)):
                raise Unsupported("_format_exception: the handler of a raising __str__ does not set %s to a constant" % hm_name)
            on_error = hb[0].value.value
            outer = gtry
        gif = parent[outer]
        if not isinstance(gif, ast.If) or not any(outer is b for b in gif.body):
            raise Unsupported("_format_exception: str(exc_value) is not evaluated under an `if`")
        cenv = {"self._diagnose": ("diagnose", "bool"), "frames": ("framesNonEmpty", "bool"),
                "final_source": ("finalSourceNonEmpty", "bool"), hm_name: ("hasMessage", "bool")}

        def is_assert(tr_, node):
            if len(node.args) == 2 and _src(node.args[0]) in ("exc_type", "type(value)", "type(exc_value)") \
                    and _src(node.args[1]) == "AssertionError":
                return ("isAssertion", "bool")
            raise Unsupported("issubclass arguments: " + _src(node))

        ctr = Tr(cenv, calls={"issubclass": is_assert})
        k_cguard, ty1 = ctr.tr(gif.test)
        appends = [b for b in gif.body if isinstance(b, ast.If) and hm_name in [x.id for x in ast.walk(b.test) if isinstance(x, ast.Name)]]
        if len(appends) != 1 or appends[0].orelse or gif.body.index(appends[0]) < gif.body.index(outer):
            raise Unsupported("_format_exception: the source-appending `if` after str(exc_value)")
        k_append, ty2 = ctr.tr(appends[0].test)
        if ty1 != "bool" or ty2 != "bool":
            raise Unsupported("closing-line tests are not boolean")
        app_src = " ".join(_src(b) for b in appends[0].body)
        if "final_source" not in app_src or "': '" not in app_src or "error_message" not in app_src:
            raise Unsupported("_format_exception: what is appended for a message-less AssertionError: " + app_src)

        # ---- copying: a handler's formatter re-created by copy.deepcopy / pickle must get the same options.  Without copy
        #      hooks the instance dictionary is copied (identity); a `__reduce__` returning `(ExceptionFormatter, args)` is
        #      read as a re-construction and the modelled options are traced through `__init__`'s `self._x = x` stores
        hooks = ("__reduce__", "__reduce_ex__", "__getstate__", "__setstate__", "__copy__", "__deepcopy__", "__getnewargs__",
                 "__getnewargs_ex__", "__slots__", "__new__")
        defined = [n.name for n in cls_node.body if isinstance(n, ast.FunctionDef) and n.name in hooks]
        defined += [t.id for n in cls_node.body if isinstance(n, ast.Assign) for t in n.targets
                    if isinstance(t, ast.Name) and t.id in hooks]
        ctor = [a.arg for a in init.args.args[1:]]
        if init.args.vararg or init.args.kwonlyargs or init.args.kwarg:
            raise Unsupported("ExceptionFormatter.__init__ signature")
        modelled = ["backtrace", "diagnose", "colorize", "max_length"]
        lean_of = {"backtrace": "backtrace", "diagnose": "diagnose", "colorize": "colorize", "max_length": "maxLength"}
        stored = {}
        for st_ in init.body:
            if isinstance(st_, ast.Assign) and len(st_.targets) == 1 and isinstance(st_.targets[0], ast.Attribute) \
                    and _src(st_.targets[0].value) == "self" and isinstance(st_.value, ast.Name) and st_.value.id in ctor:
                stored[st_.targets[0].attr] = st_.value.id
        for p_ in modelled:
            if p_ not in ctor or ("_" + p_) not in stored or stored["_" + p_] != p_:
                raise Unsupported("ExceptionFormatter.__init__ does not store %s unchanged as self._%s" % (p_, p_))
        rebuilt = {p_: lean_of[p_] for p_ in modelled}
        if defined == ["__reduce__"]:
            red = inline_aliases(find_func(cls_node, "__reduce__"))
            loc = {}
            for st_ in red.body[:-1]:
                if isinstance(st_, ast.Expr) and isinstance(st_.value, ast.Constant):
                    continue
                if isinstance(st_, ast.Assign) and len(st_.targets) == 1 and isinstance(st_.targets[0], ast.Name) \
                        and isinstance(st_.value, ast.Tuple):
                    loc[st_.targets[0].id] = st_.value
                else:
                    raise Unsupported("ExceptionFormatter.__reduce__: statement " + _src(st_))
            rv = red.body[-1]
            if not (isinstance(rv, ast.Return) and isinstance(rv.value, ast.Tuple) and len(rv.value.elts) == 2
                    and _src(rv.value.elts[0]) in (CLS, "type(self)", "self.__class__")):
                raise Unsupported("ExceptionFormatter.__reduce__ does not return (ExceptionFormatter, args)")
            argt = rv.value.elts[1]
            if isinstance(argt, ast.Name) and argt.id in loc:
                argt = loc[argt.id]
            if not isinstance(argt, ast.Tuple) or any(isinstance(e_, ast.Starred) for e_ in argt.elts):
                raise Unsupported("ExceptionFormatter.__reduce__: argument tuple")
            for p_ in modelled:
                i_ = ctor.index(p_)
                if i_ >= len(argt.elts):
                    dflt = defaults.get(p_)
                    if isinstance(dflt, ast.Constant) and isinstance(dflt.value, bool):
                        rebuilt[p_] = "true" if dflt.value else "false"
                    elif isinstance(dflt, ast.Constant) and isinstance(dflt.value, int):
                        rebuilt[p_] = str(dflt.value)
                    else:
                        raise Unsupported("ExceptionFormatter.__reduce__ leaves %s to a default that is not a literal" % p_)
                    continue
                el = argt.elts[i_]
                if isinstance(el, ast.Attribute) and _src(el.value) == "self" and stored.get(el.attr) in modelled \
                        and (stored[el.attr] == "max_length") == (p_ == "max_length"):
                    rebuilt[p_] = lean_of[stored[el.attr]]
                else:
                    raise Unsupported("ExceptionFormatter.__reduce__ passes `%s` for %s" % (_src(el), p_))
        elif defined:
            raise Unsupported("ExceptionFormatter defines copy hooks %r (only a re-constructing __reduce__ is understood)" % defined)
        htree, _ = parse_module("_handler.py")
        for hook in ("__getstate__", "__setstate__"):
            hf_ = find_func(htree, hook, "Handler")
            touched = [n for n in ast.walk(hf_) if (isinstance(n, ast.Constant) and n.value == "_exception_formatter")
                       or (isinstance(n, ast.Attribute) and n.attr == "_exception_formatter")]
            if touched:
                raise Unsupported("Handler.%s touches _exception_formatter" % hook)
        gs = [_src(x) for x in find_func(htree, "__getstate__", "Handler").body]
        ss = [_src(x) for x in find_func(htree, "__setstate__", "Handler").body]
        if "state = self.__dict__.copy()" not in gs or gs[-1] != "return state" or "self.__dict__.update(state)" not in ss:
            raise Unsupported("Handler.__getstate__/__setstate__ do not carry the instance dictionary")

        # ---- the formatter is built with the default max_length
        ltree, _ = parse_module("_logger.py")
        built = [n for n in ast.walk(ltree) if isinstance(n, ast.Call) and _src(n.func) == "ExceptionFormatter"]
        if len(built) != 1 or any(k.arg in ("max_length", None) for k in built[0].keywords) or built[0].args:
            raise Unsupported("ExceptionFormatter construction in _logger.py overrides max_length")
        kw = {k.arg: _src(k.value) for k in built[0].keywords}
        if kw.get("hidden_frames_filename") != "self.catch.__code__.co_filename" or kw.get("diagnose") != "diagnose" \
                or kw.get("backtrace") != "backtrace":
            raise Unsupported("ExceptionFormatter construction keywords: %r" % kw)

        # ---- Logger.catch: which `from_decorator` flag each use of a catch object reports
        cfn = find_func(ltree, "catch", "Logger")
        ccls = [n for n in ast.walk(cfn) if isinstance(n, ast.ClassDef) and n.name == "Catcher"]
        if len(ccls) != 1:
            raise Unsupported("Logger.catch: class Catcher not found")
        stores = [n for n in ast.walk(cfn) if isinstance(n, ast.Attribute) and n.attr == "_from_decorator"
                  and isinstance(n.ctx, ast.Store)]
        cinit = find_func(ccls[0], "__init__")
        if len(stores) != 1 or "self._from_decorator = from_decorator" not in [_src(x) for x in cinit.body]:
            raise Unsupported("Catcher._from_decorator is assigned outside Catcher.__init__ (the flag must be fixed per object)")
        # what matters: the 2nd positional argument of the one `logger._log(...)` call IS the object's flag
        # (directly or through a single-assignment local alias, whatever its name)
        cexit = inline_aliases(find_func(ccls[0], "__exit__"))
        logs = [n for n in ast.walk(cexit) if isinstance(n, ast.Call) and _src(n.func) == "logger._log"]
        if len(logs) != 1 or len(logs[0].args) < 2 or _src(logs[0].args[1]) != "self._from_decorator":
            raise Unsupported("Catcher.__exit__ does not pass self._from_decorator to logger._log: "
                              + "; ".join(_src(l) for l in logs))
        ccall = find_func(ccls[0], "__call__")
        mk = [n for n in ast.walk(ccall) if isinstance(n, ast.Assign) and _src(n.targets[0]) == "catcher"]
        if len(mk) != 1 or not (isinstance(mk[0].value, ast.Call) and _src(mk[0].value.func) == "Catcher"
                                and len(mk[0].value.args) == 1 and isinstance(mk[0].value.args[0], ast.Constant)
                                and isinstance(mk[0].value.args[0].value, bool)):
            raise Unsupported("Catcher.__call__: the wrapper does not use a FRESH `Catcher(<bool>)`: " +
                              "; ".join(_src(m) for m in mk))
        wrapper_flag = mk[0].value.args[0].value
        withs = [n for n in ast.walk(ccall) if isinstance(n, ast.With)]
        if not withs or any(_src(w.items[0].context_expr) != "catcher" for w in withs):
            raise Unsupported("Catcher.__call__: wrappers do not run the function under `with catcher:`")
        rets = [n for n in cfn.body if isinstance(n, ast.Return)]
        if len(rets) != 1 or not (isinstance(rets[0].value, ast.Call) and _src(rets[0].value.func) == "Catcher"
                                  and len(rets[0].value.args) == 1 and isinstance(rets[0].value.args[0], ast.Constant)
                                  and isinstance(rets[0].value.args[0].value, bool)):
            raise Unsupported("Logger.catch does not return `Catcher(<bool>)`")
        context_flag = rets[0].value.args[0].value

        body += "/-- `Logger.catch` returns `Catcher(%s)`; `Catcher.__call__` wraps the function in a fresh `Catcher(%s)`;\n" % (context_flag, wrapper_flag)
        body += "    `_from_decorator` is assigned in `Catcher.__init__` only and is what `__exit__` hands to `_log` -/\n"
        body += "def catchContextFlag : Bool := %s\ndef catchWrapperFlag : Bool := %s\n" % (
            "true" if context_flag else "false", "true" if wrapper_flag else "false")
        body += "/-- calls of repr / str / ascii / format / hash on a non-literal in ExceptionFormatter: %s;\n" % ", ".join(
            "%s%s" % (_src(n), "" if guarded_by(n) is not None else " [UNGUARDED]") for n in user_calls)
        body += "    true iff each is in the body of a `try` with an `except Exception` (or wider) handler -/\n"
        body += "def userCallsGuarded : Bool := %s\n" % ("true" if not unguarded else "false")
        body += "/-- `%s = bool(str(exc_value))` is the body of `try: … except Exception: %s = <const>` -/\n" % (hm_name, hm_name)
        body += "def strGuarded : Bool := %s\ndef hasMessageOnError : Bool := %s\n" % (
            "true" if gtry is not None else "false", "true" if on_error else "false")
        body += "/-- the `if` under which `str(exc_value)` is evaluated at all -/\n"
        body += "def closingGuard (diagnose framesNonEmpty : Bool) : Bool := %s\n" % k_cguard
        body += "/-- the `if` that appends `\": \" + final_source` to the closing line -/\n"
        body += "def assertAppend (isAssertion finalSourceNonEmpty hasMessage : Bool) : Bool := %s\n" % k_append
        body += "/-- the (backtrace, diagnose, colorize, max_length) a formatter gets when its handler is copied (copy.deepcopy,\n"
        body += "    pickle): %s -/\n" % ("no copy hook on ExceptionFormatter, Handler state = its instance dictionary" if not defined
                                       else "ExceptionFormatter.__reduce__ re-constructs it from " + _src(argt))
        body += "def rebuild (backtrace diagnose colorize : Bool) (maxLength : Nat) : Bool × Bool × Bool × Nat := (%s, %s, %s, %s)\n" % (
            rebuilt["backtrace"], rebuilt["diagnose"], rebuilt["colorize"], rebuilt["max_length"])
        body += "/-- `_format_list`: the loop's tests and counter updates (`same` = the frame equals the previous one) -/\n"
        for nm, args, ty, term in fl_defs:
            body += "def %s %s : %s := %s\n" % (nm, args, ty, term)
        body += "/-- `_extract_frames`: `if <test>: return frames, final_source` (nothing is shown) -/\n"
        body += "def earlyReturn (tbNone limitNone : Bool) (limit : Int) : Bool := %s\n" % k_early
        body += "/-- the test of the `if` around the upward walk through `f_back` -/\n"
        body += "def walkCond (backtrace isFirst fromDec : Bool) : Bool := %s\n" % k_walk
        body += "/-- the test of `if …: break` inside the walk (only the one calling frame is wanted) -/\n"
        body += "def walkBreaks (backtrace isFirst fromDec : Bool) : Bool := %s\n" % k_break
        body += "/-- the test of the `if` that appends the catch-point identifier to `infos[-1]` -/\n"
        body += "def markCond (infosNonEmpty backtrace isFirst fromDec : Bool) : Bool := %s\n" % k_mark
        body += "/-- the test of the `if` around `infos = infos[…]` -/\n"
        body += "def limitApplies (limitNone : Bool) : Bool := %s\n" % k_limapp
        body += "/-- `infos = infos[%s]` with Python's slice semantics -/\n" % _src(sl)
        body += "def limitSlice {α : Type} (limit : Int) (l : List α) : List α := %s\n" % k_slice
        body += "/-- default of `ExceptionFormatter(max_length=…)`; `_logger.py` never overrides it -/\n"
        body += "def maxLength : Nat := %d\n" % max_length
        body += "/-- `v[: max_length - k] + \"...\"` -/\ndef cut : Nat := %d\n" % cut_n
        body += "def ellipsis : Py.Str := %s\n" % lean_chars(ellipsis)
        body += "/-- `value_lines = value.split(…)` in `_format_relevant_values` -/\n"
        body += "def valueLineSep : Char := Char.ofNat %d\n" % ord(line_sep)
        body += "/-- the truncation test `len(v) > max_length` -/\n"
        body += "def tooLong (len maxLen : Nat) : Bool := decide (len > maxLen)\n"
        body += "/-- `repr(v)` is inside `try: … except %s:` -/\n" % (guard or "<bare>")
        body += "def reprGuarded : Bool := true\n"
        body += "def unprintablePre : Py.Str := %s\ndef unprintablePost : Py.Str := %s\n" % (lean_chars(ph_pre), lean_chars(ph_post))
        body += "/-- in the upward walk of `_extract_frames`, `if get_parent_only: break` is inside `if self._should_include_frame(frame):` -/\n"
        body += "def parentWalkSkipsHidden : Bool := %s\n" % ("true" if walk_skips_hidden else "false")
        body += "/-- `_format_list`: `count > k` / `count - k` -/\ndef foldAfter : Nat := %d\n" % fold
        body += "/-- `n > k` / `len(value.exceptions) - k` -/\ndef groupWidth : Nat := %d\n" % widths[0]
        body += "/-- `group_nesting == k` -/\ndef groupDepth : Nat := %d\n" % depths_big[0]
        body += "/-- the `if` of the chain block tests `__cause__`, the `elif` tests `__context__` -/\n"
        body += "def causeFirst : Bool := %s\n" % ("true" if cause_first else "false")
        body += "def causeMessage : Py.Str := %s\ndef contextMessage : Py.Str := %s\n" % (lean_chars(cause_msg), lean_chars(ctx_msg))
    except (Unsupported, SyntaxError, KeyError, AttributeError, IndexError, ValueError) as e:
        errors.append("%s: %s" % (type(e).__name__, e))
    body += "\nend Exc.Gen\n"
    return emit("Exc", body, ["loguru/_better_exceptions.py", "loguru/_logger.py"], errors)
