"""Generated/Json.lean from loguru/_handler.py and loguru/_logger.py (C14).

What is tied (DESIGN §1.3 G, §4 C14):
* the two dict literals of `Handler._serialize_record` are translated key by key into Lean terms
  (`Json.Gen.serializable`, `Json.Gen.exceptionSummary`); every leaf expression must be one of the
  record reads listed in LEAVES / EXC_LEAVES, otherwise extraction fails closed.  A renamed key, a
  dropped key or a leaf read from another record field changes the generated term and breaks
  `C14.record_mirrored` / `C14.record_keys`.
* the keyword arguments of the `json.dumps` call and the string added to its result
  (`defaultIsStr`, `ensureAscii`, `suffix`).
* `_serialize_record` is a `@staticmethod` whose body reads only its arguments (`serializeIsPure`): a
  per-handler cache of serialised parts (stale level icon after `logger.level(name, icon=…)`) breaks it.
* shape checks: `emit` serialises the already formatted text and nothing reassigns it afterwards
  (`serializeAfterFormatting`); `add()`'s default for `colorize` when `serialize` is set
  (`colorizeDefault`).
"""
import ast

from extract_lib import *  # noqa: F401,F403
from extract_lib import Unsupported, emit, find_func, lean_chars, parse_module

# source text of a leaf (ast.unparse) -> Lean term over (text : PyVal) (record : Record) (exception : PyVal)
LEAVES = {
    "text": "text",
    "exception": "exception",
    "record['elapsed']": "record.elapsed",
    "record['elapsed'].total_seconds()": "record.elapsedSeconds",
    "record['extra']": "record.extra",
    "record['file'].name": "record.fileName",
    "record['file'].path": "record.filePath",
    "record['function']": "record.function",
    "record['level'].icon": "record.levelIcon",
    "record['level'].name": "record.levelName",
    "record['level'].no": "record.levelNo",
    "record['line']": "record.line",
    "record['message']": "record.message",
    "record['module']": "record.module",
    "record['name']": "record.name",
    "record['process'].id": "record.processId",
    "record['process'].name": "record.processName",
    "record['thread'].id": "record.threadId",
    "record['thread'].name": "record.threadName",
    "record['time']": "record.time",
    "record['time'].timestamp()": "record.timeTimestamp",
}
# leaves of the exception summary, over (exception : ExcInfo)
EXC_LEAVES = {
    "None if exception.type is None else exception.type.__name__": "(optStr exception.typeName)",
    "exception.value": "exception.value",
    "bool(exception.traceback)": "(PyVal.bool exception.hasTraceback)",
}
# json.dumps keyword arguments that may be spelled out with their default value
HARMLESS = {"skipkeys": "False", "check_circular": "True", "allow_nan": "True", "cls": "None", "indent": "None",
            "separators": "None", "sort_keys": "False"}


def tr_dict(node, leaves, depth=1):
    """a dict literal with constant string keys -> Lean `PyVal.dict` term"""
    if not isinstance(node, ast.Dict):
        src = ast.unparse(node)
        if src in leaves:
            return leaves[src]
        raise Unsupported("leaf expression not in the table: " + src)
    keys = []
    for k in node.keys:
        if not (isinstance(k, ast.Constant) and isinstance(k.value, str)):
            raise Unsupported("dict key is not a string literal")
        keys.append(k.value)
    if len(set(keys)) != len(keys):
        raise Unsupported("duplicate key in dict literal")
    term = "PyMembers.nil"
    ind = "  " * depth
    for k, v in reversed(list(zip(keys, node.values))):
        term = "(PyMembers.cons %s %s\n%s%s)" % (lean_chars(k), tr_dict(v, leaves, depth + 1), ind, term)
    return "(PyVal.dict\n%s%s)" % (ind, term)


def assigns_to(stmt, name):
    for n in ast.walk(stmt):
        if isinstance(n, ast.Name) and n.id == name and isinstance(n.ctx, ast.Store):
            return True
    return False


def find_stmt_list(fn, pred):
    """the statement list (and index) containing the first statement satisfying pred"""
    for node in ast.walk(fn):
        for field in ("body", "orelse", "finalbody"):
            lst = getattr(node, field, None)
            if isinstance(lst, list):
                for i, s in enumerate(lst):
                    if isinstance(s, ast.stmt) and pred(s):
                        return lst, i
    return None, None


def generate():
    errors = []
    body = "import LoguruModel.Json.Base\nset_option linter.unusedVariables false\nnamespace Json.Gen\nopen Json\n\n"
    try:
        tree, _ = parse_module("_handler.py")
        fn = find_func(tree, "_serialize_record", cls="Handler")
        if [a.arg for a in fn.args.args] != ["text", "record"]:
            raise Unsupported("_serialize_record arguments: %r" % [a.arg for a in fn.args.args])
        # a pure function of its two arguments: static, and no name read other than these
        if [ast.unparse(d) for d in fn.decorator_list] != ["staticmethod"]:
            raise Unsupported("_serialize_record is not a @staticmethod: %r" % [ast.unparse(d) for d in fn.decorator_list])
        allowed = {"text", "record", "exception", "serializable", "json", "str", "bool", "None"}
        read = {n.id for b in fn.body for n in ast.walk(b) if isinstance(n, ast.Name) and isinstance(n.ctx, ast.Load)}
        if not read <= allowed:
            raise Unsupported("_serialize_record reads other names: %r" % sorted(read - allowed))
        st = fn.body
        if len(st) != 4:
            raise Unsupported("_serialize_record has %d statements, expected 4" % len(st))
        if ast.unparse(st[0]) != "exception = record['exception']":
            raise Unsupported("first statement: " + ast.unparse(st[0]))
        iff = st[1]
        if not (isinstance(iff, ast.If) and ast.unparse(iff.test) == "exception is not None" and not iff.orelse
                and len(iff.body) == 1 and isinstance(iff.body[0], ast.Assign)
                and ast.unparse(iff.body[0].targets[0]) == "exception" and isinstance(iff.body[0].value, ast.Dict)):
            raise Unsupported("exception summary statement has another shape")
        exc_term = tr_dict(iff.body[0].value, EXC_LEAVES)
        ser = st[2]
        if not (isinstance(ser, ast.Assign) and ast.unparse(ser.targets[0]) == "serializable"
                and isinstance(ser.value, ast.Dict)):
            raise Unsupported("serializable assignment has another shape")
        ser_term = tr_dict(ser.value, LEAVES)
        ret = st[3]
        if not isinstance(ret, ast.Return):
            raise Unsupported("last statement is not a return")
        val, suffix = ret.value, ""
        while isinstance(val, ast.BinOp) and isinstance(val.op, ast.Add) and isinstance(val.right, ast.Constant) \
                and isinstance(val.right.value, str):
            suffix = val.right.value + suffix
            val = val.left
        if not (isinstance(val, ast.Call) and ast.unparse(val.func) == "json.dumps"):
            raise Unsupported("return value is not json.dumps(...) [+ literal]: " + ast.unparse(ret.value))
        if [ast.unparse(a) for a in val.args] != ["serializable"]:
            raise Unsupported("json.dumps positional arguments: " + ast.unparse(val))
        default_is_str, ensure_ascii = False, True
        for kw in val.keywords:
            src = ast.unparse(kw.value)
            if kw.arg == "default":
                if src == "str":
                    default_is_str = True
                elif src != "None":
                    raise Unsupported("json.dumps default=" + src)
            elif kw.arg == "ensure_ascii":
                if src not in ("True", "False"):
                    raise Unsupported("json.dumps ensure_ascii=" + src)
                ensure_ascii = src == "True"
            elif kw.arg in HARMLESS and HARMLESS[kw.arg] == src:
                pass
            else:
                raise Unsupported("json.dumps keyword %s=%s" % (kw.arg, src))
        body += "/-- the summary built when `record[\"exception\"] is not None` -/\n"
        body += "def exceptionSummary (exception : ExcInfo) : PyVal :=\n  %s\n\n" % exc_term
        body += "/-- the `serializable` dict literal of `Handler._serialize_record` -/\n"
        body += "def serializable (text : PyVal) (record : Record) (exception : PyVal) : PyVal :=\n  %s\n\n" % ser_term
        body += "/-- `json.dumps(..., default=str)` -/\ndef defaultIsStr : Bool := %s\n" % ("true" if default_is_str else "false")
        body += "/-- `json.dumps(..., ensure_ascii=…)` (json's default is True) -/\ndef ensureAscii : Bool := %s\n" % (
            "true" if ensure_ascii else "false")
        body += "/-- `_serialize_record` is a @staticmethod of (text, record) reading no other name (AST check):\n"
        body += "    nothing a handler has seen before can influence what it serialises -/\n"
        body += "def serializeIsPure : Bool := true\n"
        body += "/-- what is appended to the dumped object -/\ndef suffix : Py.Str := %s\n\n" % lean_chars(suffix)

        # ---- emit: serialisation is applied to the formatted text, last
        em = find_func(tree, "emit", cls="Handler")
        lst, i = find_stmt_list(em, lambda s: isinstance(s, ast.If) and ast.unparse(s.test) == "self._serialize")
        if lst is None:
            raise Unsupported("emit: no `if self._serialize:` statement")
        iff = lst[i]
        if not (len(iff.body) == 1 and not iff.orelse
                and ast.unparse(iff.body[0]) == "formatted = self._serialize_record(formatted, record)"):
            raise Unsupported("emit: serialize branch has another shape: " + ast.unparse(iff))
        later = lst[i + 1:]
        if any(assigns_to(s, "formatted") for s in later):
            raise Unsupported("emit: `formatted` is reassigned after serialisation")
        if not later or ast.unparse(later[0]) != "str_record = Message(formatted)":
            raise Unsupported("emit: serialised text is not what is wrapped into Message")
        n_ser = sum(1 for n in ast.walk(em) if isinstance(n, ast.Attribute) and n.attr == "_serialize_record")
        if n_ser != 1:
            raise Unsupported("emit: %d uses of _serialize_record" % n_ser)
        body += "/-- `emit`: `if self._serialize: formatted = self._serialize_record(formatted, record)` is the last\n"
        body += "    assignment to `formatted` before `Message(formatted)` (checked on the AST) -/\n"
        body += "def serializeAfterFormatting : Bool := true\n\n"

        # ---- add(): default of colorize when serialize is set
        ltree, _ = parse_module("_logger.py")
        add = find_func(ltree, "add", cls="Logger")
        first_sink_test = None
        for idx, s in enumerate(add.body):
            if isinstance(s, ast.If) and ast.unparse(s.test).startswith("isinstance(sink"):
                first_sink_test = idx
                break
        if first_sink_test is None:
            raise Unsupported("add: sink dispatch not found")
        rule = None
        for s in add.body[:first_sink_test]:
            if assigns_to(s, "colorize"):
                if rule is not None:
                    raise Unsupported("add: colorize assigned more than once before the sink dispatch")
                if not (isinstance(s, ast.If) and not s.orelse and len(s.body) == 1
                        and isinstance(s.body[0], ast.Assign) and ast.unparse(s.body[0].targets[0]) == "colorize"
                        and isinstance(s.body[0].value, ast.Constant) and isinstance(s.body[0].value.value, bool)):
                    raise Unsupported("add: colorize default statement has another shape: " + ast.unparse(s))
                t = s.test
                conj = [ast.unparse(v) for v in t.values] if isinstance(t, ast.BoolOp) and isinstance(t.op, ast.And) \
                    else [ast.unparse(t)]
                terms = []
                for c in conj:
                    if c == "colorize is None":
                        terms.append("colorize.isNone")
                    elif c == "serialize":
                        terms.append("serialize")
                    elif c == "not serialize":
                        terms.append("(!serialize)")
                    elif c == "colorize is not None":
                        terms.append("colorize.isSome")
                    else:
                        raise Unsupported("add: colorize default test: " + ast.unparse(t))
                rule = "if (%s) then some %s else colorize" % (
                    " && ".join(terms), "true" if s.body[0].value.value else "false")
        body += "/-- `Logger.add`: what becomes of `colorize` before the sink-type dispatch (which only\n"
        body += "    consults the sink when it is still `None`) -/\n"
        body += "def colorizeDefault (colorize : Option Bool) (serialize : Bool) : Option Bool :=\n  %s\n" % (
            rule or "colorize")
    except (Unsupported, SyntaxError, KeyError, AttributeError, IndexError) as e:
        errors.append("%s: %s" % (type(e).__name__, e))
    body += "\nend Json.Gen\n"
    return emit("Json", body, ["loguru/_handler.py", "loguru/_logger.py"], errors)
