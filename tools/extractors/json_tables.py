"""Generated/Json.lean from loguru/_handler.py and loguru/_logger.py (C14).

What is tied (DESIGN §1.3 G, §4 C14):
* `Handler._serialize_record` is evaluated SYMBOLICALLY (aliases inlined, if/else == conditional
  expression, one level of private helper followed; see `Evaluator`) to the expression it returns;
  the two dict literals found there are translated key by key into Lean terms
  (`Json.Gen.serializable`, `Json.Gen.exceptionSummary`); every leaf expression must be one of the
  record reads listed in LEAVES / EXC_LEAVES, otherwise extraction fails closed.  A renamed key, a
  dropped key or a leaf read from another record field changes the generated term and breaks
  `C14.record_mirrored` / `C14.record_keys`.
* the value under record.elapsed.seconds as an exact microsecond count over the timedelta's fields
  (`elapsedSecondsMicros`): `total_seconds()` or an integer expression / 10**6 – an expression that
  forgets `.days` is ACCEPTED and refuted by `C14.elapsed_seconds_is_total`.
* the keyword arguments of the `json.dumps` call and the string added to its result
  (`defaultIsStr`, `ensureAscii`, `suffix`).
* `_serialize_record` is a `@staticmethod` whose body reads only its arguments (`serializeIsPure`): a
  per-handler cache of serialised parts (stale level icon after `logger.level(name, icon=…)`) breaks it.
* shape checks: `emit` serialises the already formatted text and nothing reassigns it afterwards
  (`serializeAfterFormatting`); `add()`'s default for `colorize` when `serialize` is set
  (`colorizeDefault`).
"""
import ast

from extract_lib import *  # noqa: F401,F403
from extract_lib import Tr, Unsupported, emit, find_func, lean_chars, parse_module

# source text of a leaf (ast.unparse) -> Lean term over (text : PyVal) (record : Record) (exception : PyVal)
LEAVES = {
    "text": "text",
    "exception": "exception",
    "record['elapsed']": "record.elapsed",
    "record['elapsed'].total_seconds()": "record.elapsedSeconds",
    "record['extra']": "record.extra",
    "record['file'].name": "record.fileName",
    "record['file'].path": "record.filePath",
    "record['function']": "record.function",
    "record['level'].icon": "record.levelIcon",
    "record['level'].name": "record.levelName",
    "record['level'].no": "record.levelNo",
    "record['line']": "record.line",
    "record['message']": "record.message",
    "record['module']": "record.module",
    "record['name']": "record.name",
    "record['process'].id": "record.processId",
    "record['process'].name": "record.processName",
    "record['thread'].id": "record.threadId",
    "record['thread'].name": "record.threadName",
    "record['time']": "record.time",
    "record['time'].timestamp()": "record.timeTimestamp",
}
# leaves of the exception summary, over (exception : ExcInfo)
EXC_LEAVES = {
    "None if exception.type is None else exception.type.__name__": "(optStr exception.typeName)",
    "exception.value": "exception.value",
    "bool(exception.traceback)": "(PyVal.bool exception.hasTraceback)",
}
# json.dumps keyword arguments that may be spelled out with their default value
HARMLESS = {"check_circular": "True", "cls": "None", "indent": "None", "separators": "None"}
# boolean keyword arguments that are TRANSLATED (json's default -> Lean name): an edit changes the generated
# constant, the theorems that need the value no longer prove, the model follows the code
FLAGS = {"sort_keys": (False, "sortKeys"), "skipkeys": (False, "skipKeys"), "allow_nan": (True, "allowNan")}


def tr_dict(node, leaves, depth=1, hook=None):
    """a dict literal with constant string keys -> Lean `PyVal.dict` term"""
    if not isinstance(node, ast.Dict):
        if hook is not None:
            r = hook(node)
            if r is not None:
                return r
        src = ast.unparse(node)
        if src in leaves:
            return leaves[src]
        raise Unsupported("leaf expression not in the table: " + src)
    keys = []
    for k in node.keys:
        if not (isinstance(k, ast.Constant) and isinstance(k.value, str)):
            raise Unsupported("dict key is not a string literal")
        keys.append(k.value)
    if len(set(keys)) != len(keys):
        raise Unsupported("duplicate key in dict literal")
    term = "PyMembers.nil"
    ind = "  " * depth
    for k, v in reversed(list(zip(keys, node.values))):
        term = "(PyMembers.cons (PyKey.str %s) %s\n%s%s)" % (lean_chars(k), tr_dict(v, leaves, depth + 1, hook), ind, term)
    return "(PyVal.dict\n%s%s)" % (ind, term)


def assigns_to(stmt, name):
    for n in ast.walk(stmt):
        if isinstance(n, ast.Name) and n.id == name and isinstance(n.ctx, ast.Store):
            return True
    return False


def find_stmt_list(fn, pred):
    """the statement list (and index) containing the first statement satisfying pred"""
    for node in ast.walk(fn):
        for field in ("body", "orelse", "finalbody"):
            lst = getattr(node, field, None)
            if isinstance(lst, list):
                for i, s in enumerate(lst):
                    if isinstance(s, ast.stmt) and pred(s):
                        return lst, i
    return None, None


# ----------------------------------------------------------------------------- symbolic evaluation
# `_serialize_record` is read SEMANTICALLY, not textually: its straight-line body is evaluated
# symbolically to the expression it returns, over the two parameters (renamed to `text`, `record`).
#   * single-assignment locals are inlined (aliases of attribute expressions, dict literals built
#     in several steps);
#   * `if c: x = a [else: x = b]` and `x = a if c else b` are the same conditional expression;
#     `if c: return a` followed by `return b` likewise; `A if X is not None else B` is flipped to
#     `B if X is None else A`;
#   * a call to a private helper (static method of Handler, or module-level function) with a
#     straight-line body is followed one level deep.
# Anything else (loops, attribute/subscript stores, calls it does not know, reads of `self` or of
# globals) is outside the subset: the extraction fails closed.
class _Subst(ast.NodeTransformer):
    def __init__(self, env, ev):
        self.env, self.ev = env, ev

    def visit_Name(self, node):
        if isinstance(node.ctx, ast.Load) and node.id in self.env:
            return self.env[node.id]
        return node

    def visit_Call(self, node):
        node = self.generic_visit(node)
        helper = self.ev.helper_of(node.func)
        if helper is not None:
            return self.ev.inline(helper, node)
        return node

    def visit_IfExp(self, node):
        node = self.generic_visit(node)
        return flip(node)


def flip(node):
    """canonical polarity: `A if X is not None else B`  ->  `B if X is None else A`; `not c` likewise"""
    t = node.test
    if isinstance(t, ast.Compare) and len(t.ops) == 1 and isinstance(t.ops[0], ast.IsNot) \
            and isinstance(t.comparators[0], ast.Constant) and t.comparators[0].value is None:
        return ast.IfExp(test=ast.Compare(left=t.left, ops=[ast.Is()], comparators=t.comparators),
                         body=node.orelse, orelse=node.body)
    if isinstance(t, ast.UnaryOp) and isinstance(t.op, ast.Not):
        return ast.IfExp(test=t.operand, body=node.orelse, orelse=node.body)
    return node


class Evaluator:
    def __init__(self, tree, cls_name):
        self.tree, self.cls_name, self.depth = tree, cls_name, 0
        self.cls = None
        for node in tree.body:
            if isinstance(node, ast.ClassDef) and node.name == cls_name:
                self.cls = node

    def helper_of(self, func):
        """the FunctionDef a call goes to when it is a private helper we may follow, else None"""
        if isinstance(func, ast.Attribute) and isinstance(func.value, ast.Name) and func.attr.startswith("_") \
                and func.value.id in (self.cls_name, "self", "cls") and self.cls is not None:
            for sub in self.cls.body:
                if isinstance(sub, ast.FunctionDef) and sub.name == func.attr:
                    return sub
        if isinstance(func, ast.Name) and func.id.startswith("_"):
            for sub in self.tree.body:
                if isinstance(sub, ast.FunctionDef) and sub.name == func.id:
                    return sub
        return None

    def inline(self, fn, call):
        if self.depth >= 1:
            raise Unsupported("helper call nested more than one level: " + fn.name)
        if call.keywords or any(isinstance(a, ast.Starred) for a in call.args):
            raise Unsupported("helper %s called with keywords/star" % fn.name)
        params = [a.arg for a in fn.args.args]
        decos = [ast.unparse(d) for d in fn.decorator_list]
        if decos == ["staticmethod"] or (isinstance(call.func, ast.Name) and not decos):
            pass
        elif not decos and params and params[0] == "self" and ast.unparse(call.func).startswith("self."):
            params = params[1:]          # plain method: `self` stays unbound, any use of it is rejected later
        else:
            raise Unsupported("helper %s has decorators %r" % (fn.name, decos))
        if fn.args.vararg or fn.args.kwarg or fn.args.kwonlyargs or fn.args.defaults or len(params) != len(call.args):
            raise Unsupported("helper %s signature" % fn.name)
        self.depth += 1
        try:
            return self.block(fn.body, dict(zip(params, call.args)))
        finally:
            self.depth -= 1

    def expr(self, node, env):
        import copy
        return _Subst(env, self).visit(copy.deepcopy(node))

    def assigns(self, stmts, env):
        """a branch made of plain local assignments only"""
        for st in stmts:
            if isinstance(st, ast.Assign) and len(st.targets) == 1 and isinstance(st.targets[0], ast.Name):
                env[st.targets[0].id] = self.expr(st.value, env)
            elif isinstance(st, ast.Pass):
                pass
            else:
                raise Unsupported("statement outside the subset: " + ast.unparse(st)[:80])

    @staticmethod
    def returns(stmts):
        return bool(stmts) and isinstance(stmts[-1], ast.Return)

    def block(self, stmts, env):
        """the expression a straight-line block returns"""
        for i, st in enumerate(stmts):
            if isinstance(st, ast.Expr) and isinstance(st.value, ast.Constant) and isinstance(st.value.value, str):
                continue                                                  # docstring
            if isinstance(st, ast.Return):
                if st.value is None:
                    raise Unsupported("bare return")
                return self.expr(st.value, env)
            if isinstance(st, ast.If):
                cond = self.expr(st.test, env)
                if self.returns(st.body):
                    a = self.block(st.body, dict(env))
                    b = self.block(list(st.orelse) + list(stmts[i + 1:]), dict(env))
                    return flip(ast.IfExp(test=cond, body=a, orelse=b))
                if self.returns(st.orelse):
                    b = self.block(st.orelse, dict(env))
                    a = self.block(list(st.body) + list(stmts[i + 1:]), dict(env))
                    return flip(ast.IfExp(test=cond, body=a, orelse=b))
                e1, e2 = dict(env), dict(env)
                self.assigns(st.body, e1)
                self.assigns(st.orelse, e2)
                for name in set(e1) | set(e2):
                    v1, v2 = e1.get(name), e2.get(name)
                    if v1 is None or v2 is None:
                        raise Unsupported("local %s bound on one branch only" % name)
                    if ast.dump(v1) != ast.dump(v2):
                        env[name] = flip(ast.IfExp(test=cond, body=v1, orelse=v2))
                continue
            self.assigns([st], env)
        raise Unsupported("block does not end in a return")


class _Fold(ast.NodeTransformer):
    """fold arithmetic on integer literals (`10**6` -> 1000000)"""

    def visit_BinOp(self, node):
        node = self.generic_visit(node)
        l, r = node.left, node.right
        if isinstance(l, ast.Constant) and isinstance(r, ast.Constant) and type(l.value) is int and type(r.value) is int:
            if isinstance(node.op, ast.Pow) and 0 <= r.value <= 12:
                return ast.Constant(value=l.value ** r.value)
            if isinstance(node.op, ast.Mult):
                return ast.Constant(value=l.value * r.value)
        return node


def elapsed_seconds_kernel(node):
    """the value under record.elapsed.seconds as an exact number of microseconds over the fields of the
    timedelta `record['elapsed']`: either `.total_seconds()` (CPython, Json.TimeDelta.totalMicros) or an
    integer expression over .days/.seconds/.microseconds divided (true division) by 10**6.  None if neither."""
    import copy
    if ast.unparse(node) == "record['elapsed'].total_seconds()":
        return "elapsed.totalMicros"
    node = _Fold().visit(copy.deepcopy(node))
    if not (isinstance(node, ast.BinOp) and isinstance(node.op, ast.Div) and isinstance(node.right, ast.Constant)
            and node.right.value == 1000000 and type(node.right.value) is int):
        return None
    x = ast.Subscript(value=ast.Name(id="record", ctx=ast.Load()), slice=ast.Constant(value="elapsed"), ctx=ast.Load())
    num = _Replace(x, "elapsed").visit(node.left)
    env = {"elapsed.days": ("elapsed.days", "int"), "elapsed.seconds": ("elapsed.seconds", "int"),
           "elapsed.microseconds": ("elapsed.microseconds", "int")}
    term, typ = Tr(env).tr(num)
    if typ != "int":
        return None
    return term


def node_at(d, path):
    for k in path:
        if not isinstance(d, ast.Dict):
            return None
        nxt = None
        for kk, vv in zip(d.keys, d.values):
            if isinstance(kk, ast.Constant) and kk.value == k:
                nxt = vv
        d = nxt
    return d


def same(a, b):
    return ast.dump(a) == ast.dump(b)


class _Replace(ast.NodeTransformer):
    def __init__(self, what, by):
        self.what, self.by = ast.dump(what), by

    def generic_visit(self, node):
        if isinstance(node, ast.AST) and ast.dump(node) == self.what:
            return ast.Name(id=self.by, ctx=ast.Load())
        return super().generic_visit(node)


def split_exception_summary(node):
    """`X if X is None else {…}` / `None if X is None else {…}`  ->  (X, dict over the name `exception`)"""
    if not (isinstance(node, ast.IfExp) and isinstance(node.test, ast.Compare) and len(node.test.ops) == 1
            and isinstance(node.test.ops[0], ast.Is) and isinstance(node.test.comparators[0], ast.Constant)
            and node.test.comparators[0].value is None and isinstance(node.orelse, ast.Dict)):
        return None
    x = node.test.left
    none_branch = node.body
    if not (same(none_branch, x) or (isinstance(none_branch, ast.Constant) and none_branch.value is None)):
        return None
    import copy
    return x, _Replace(x, "exception").visit(copy.deepcopy(node.orelse))


def generate():
    errors = []
    body = "import LoguruModel.Json.Base\nset_option linter.unusedVariables false\nnamespace Json.Gen\nopen Json\n\n"
    try:
        tree, _ = parse_module("_handler.py")
        fn = find_func(tree, "_serialize_record", cls="Handler")
        params = [a.arg for a in fn.args.args]
        decos = [ast.unparse(d) for d in fn.decorator_list]
        if decos == ["staticmethod"] and len(params) == 2:
            pass
        elif decos == [] and len(params) == 3 and params[0] == "self":
            params = params[1:]      # a plain method is fine as long as the value never reads `self` (checked below)
        else:
            raise Unsupported("_serialize_record signature: %r %r" % (decos, params))
        if fn.args.vararg or fn.args.kwarg or fn.args.kwonlyargs or fn.args.defaults:
            raise Unsupported("_serialize_record signature has defaults/star arguments")
        ev = Evaluator(tree, "Handler")
        env = {params[0]: ast.Name(id="text", ctx=ast.Load()), params[1]: ast.Name(id="record", ctx=ast.Load())}
        val = ev.block(fn.body, env)
        # ---- the returned value: json.dumps(<dict>, kw…) [+ literal …]
        suffix = ""
        while isinstance(val, ast.BinOp) and isinstance(val.op, ast.Add) and isinstance(val.right, ast.Constant) \
                and isinstance(val.right.value, str):
            suffix = val.right.value + suffix
            val = val.left
        dumps_names = {"json.dumps"}
        for node in tree.body:
            if isinstance(node, ast.ImportFrom) and node.module == "json":
                dumps_names |= {a.asname or a.name for a in node.names if a.name == "dumps"}
            if isinstance(node, ast.Import):
                dumps_names |= {(a.asname or a.name) + ".dumps" for a in node.names if a.name == "json"}
        if not (isinstance(val, ast.Call) and ast.unparse(val.func) in dumps_names):
            raise Unsupported("return value is not json.dumps(...) [+ literal]: " + ast.unparse(val)[:200])
        if len(val.args) != 1 or not isinstance(val.args[0], ast.Dict):
            raise Unsupported("json.dumps positional arguments: " + ast.unparse(val)[:200])
        # ---- the dict: leaves must be record reads of the table; exactly one leaf is the exception summary
        found = []

        class ExcLeaves(dict):
            pass

        elapsed_node = node_at(val.args[0], ["record", "elapsed", "seconds"])
        elapsed_kernel = elapsed_seconds_kernel(elapsed_node) if elapsed_node is not None else None
        if elapsed_kernel is None:
            raise Unsupported("record.elapsed.seconds is neither total_seconds() nor <int expr over the timedelta fields> / 10**6")

        def leaf_hook(node):
            if node is elapsed_node:
                return "record.elapsedSeconds"
            sp = split_exception_summary(node)
            if sp is None:
                return None
            x, d = sp
            if ast.unparse(x) != "record['exception']":
                raise Unsupported("exception summary is taken from " + ast.unparse(x))
            found.append(d)
            return "exception"

        ser_term = tr_dict(val.args[0], LEAVES, hook=leaf_hook)
        if len(found) != 1:
            raise Unsupported("%d exception summaries in the serialised dict" % len(found))
        exc_term = tr_dict(found[0], EXC_LEAVES)
        default_is_str, ensure_ascii = False, True
        flags = {lean: dflt for dflt, lean in FLAGS.values()}
        seen_kw = set()
        keywords = []
        for kw in val.keywords:
            if kw.arg is not None:
                keywords.append(kw)
                continue
            # `**NAME` with NAME a module-level dict literal of constant string keys, assigned once
            lit = None
            if isinstance(kw.value, ast.Name):
                binds = [n for n in ast.walk(tree) if isinstance(n, (ast.Assign, ast.AugAssign, ast.AnnAssign))
                         and any(isinstance(t, ast.Name) and t.id == kw.value.id
                                 for t in (n.targets if isinstance(n, ast.Assign) else [n.target]))]
                top = [n for n in tree.body if isinstance(n, ast.Assign) and n in binds]
                stores = [n for n in ast.walk(tree) if isinstance(n, (ast.Subscript, ast.Attribute)) and isinstance(n.ctx, (ast.Store, ast.Del))
                          and isinstance(n.value, ast.Name) and n.value.id == kw.value.id]
                if len(binds) == 1 and len(top) == 1 and not stores and isinstance(top[0].value, ast.Dict):
                    lit = top[0].value
            elif isinstance(kw.value, ast.Dict):
                lit = kw.value
            if lit is None or not all(isinstance(k, ast.Constant) and isinstance(k.value, str) for k in lit.keys):
                raise Unsupported("json.dumps keyword arguments: ** of something that is not a constant dict literal")
            keywords += [ast.keyword(arg=k.value, value=v) for k, v in zip(lit.keys, lit.values)]
        for kw in keywords:
            if kw.arg in seen_kw:
                raise Unsupported("json.dumps keyword arguments: repeated keyword")
            seen_kw.add(kw.arg)
            src = ast.unparse(kw.value)
            if kw.arg in FLAGS:
                if src not in ("True", "False"):
                    raise Unsupported("json.dumps %s=%s" % (kw.arg, src))
                flags[FLAGS[kw.arg][1]] = src == "True"
            elif kw.arg == "default":
                if src == "str":
                    default_is_str = True
                elif src != "None":
                    raise Unsupported("json.dumps default=" + src)
            elif kw.arg == "ensure_ascii":
                if src not in ("True", "False"):
                    raise Unsupported("json.dumps ensure_ascii=" + src)
                ensure_ascii = src == "True"
            elif kw.arg in HARMLESS and HARMLESS[kw.arg] == src:
                pass
            else:
                raise Unsupported("json.dumps keyword %s=%s" % (kw.arg, src))
        body += "/-- the summary built when `record[\"exception\"] is not None` -/\n"
        body += "def exceptionSummary (exception : ExcInfo) : PyVal :=\n  %s\n\n" % exc_term
        body += "/-- the `serializable` dict literal of `Handler._serialize_record` -/\n"
        body += "def serializable (text : PyVal) (record : Record) (exception : PyVal) : PyVal :=\n  %s\n\n" % ser_term
        body += "/-- what is written under record.elapsed.seconds, as an exact number of microseconds over the fields\n"
        body += "    of the timedelta `record[\"elapsed\"]` (source: %s) -/\n" % ast.unparse(elapsed_node).replace("-/", "- /")
        body += "def elapsedSecondsMicros (elapsed : TimeDelta) : Int := %s\n\n" % elapsed_kernel
        body += "/-- `json.dumps(..., default=str)` -/\ndef defaultIsStr : Bool := %s\n" % ("true" if default_is_str else "false")
        body += "/-- `json.dumps(..., ensure_ascii=…)` (json's default is True) -/\ndef ensureAscii : Bool := %s\n" % (
            "true" if ensure_ascii else "false")
        body += "/-- `json.dumps(..., sort_keys=…)` (default False): `sorted(dct.items())` before encoding a dict -/\n"
        body += "def sortKeys : Bool := %s\n" % ("true" if flags["sortKeys"] else "false")
        body += "/-- `json.dumps(..., skipkeys=…)` (default False): drop members whose key has no rule instead of TypeError -/\n"
        body += "def skipKeys : Bool := %s\n" % ("true" if flags["skipKeys"] else "false")
        body += "/-- `json.dumps(..., allow_nan=…)` (default True): NaN / Infinity / -Infinity are written, not refused -/\n"
        body += "def allowNan : Bool := %s\n" % ("true" if flags["allowNan"] else "false")
        body += "/-- `_serialize_record` is a @staticmethod of (text, record) reading no other name (AST check):\n"
        body += "    nothing a handler has seen before can influence what it serialises -/\n"
        body += "def serializeIsPure : Bool := true\n"
        body += "/-- what is appended to the dumped object -/\ndef suffix : Py.Str := %s\n\n" % lean_chars(suffix)

        # ---- emit: serialisation is applied to the formatted text, last
        em = find_func(tree, "emit", cls="Handler")

        def serialize_stmt(st):
            """`if self._serialize: V = self._serialize_record(V, record)` or the conditional-expression form;
            returns the local V holding the formatted text"""
            if isinstance(st, ast.If) and ast.unparse(st.test) == "self._serialize" and not st.orelse and len(st.body) == 1:
                a = st.body[0]
                call = a.value if isinstance(a, ast.Assign) else None
            elif isinstance(st, ast.Assign) and isinstance(st.value, ast.IfExp) and ast.unparse(st.value.test) == "self._serialize":
                a, call = st, st.value.body
                if ast.unparse(st.value.orelse) != ast.unparse(st.targets[0]):
                    return None
            else:
                return None
            if not (isinstance(a, ast.Assign) and len(a.targets) == 1 and isinstance(a.targets[0], ast.Name)
                    and isinstance(call, ast.Call) and not call.keywords
                    and ast.unparse(call.func) in ("self._serialize_record", "Handler._serialize_record", "type(self)._serialize_record")):
                return None
            v = a.targets[0].id
            if [ast.unparse(x) for x in call.args] != [v, "record"]:
                return None
            return v

        lst, i = find_stmt_list(em, lambda st: serialize_stmt(st) is not None)
        if lst is None:
            raise Unsupported("emit: no statement serialising the formatted text under `self._serialize`")
        var = serialize_stmt(lst[i])
        later = lst[i + 1:]
        if any(assigns_to(st, var) for st in later):
            raise Unsupported("emit: `%s` is reassigned after serialisation" % var)
        wrapped = [n for st in later for n in ast.walk(st) if isinstance(n, ast.Call) and ast.unparse(n.func) == "Message"]
        if len(wrapped) != 1 or [ast.unparse(x) for x in wrapped[0].args] != [var] or wrapped[0].keywords:
            raise Unsupported("emit: serialised text is not what is wrapped into Message")
        n_ser = sum(1 for n in ast.walk(em) if isinstance(n, ast.Attribute) and n.attr == "_serialize_record")
        if n_ser != 1:
            raise Unsupported("emit: %d uses of _serialize_record" % n_ser)
        n_msg = sum(1 for n in ast.walk(em) if isinstance(n, ast.Call) and ast.unparse(n.func) == "Message")
        if n_msg != 1:
            raise Unsupported("emit: %d Message(...) constructions" % n_msg)
        # ---- emit: what happens to an error of `_serialize_record` (the try/except around the whole body)
        ser_stmt = lst[i]

        def contains(stmts, target):
            return any(n is target for st in stmts for n in ast.walk(st))

        tries = [n for n in ast.walk(em) if isinstance(n, ast.Try) and contains(n.body, ser_stmt)]
        if len(tries) != 1:
            raise Unsupported("emit: serialisation is inside %d try statements" % len(tries))
        tr = tries[0]
        if tr.finalbody or tr.orelse or len(tr.handlers) != 1:
            raise Unsupported("emit: try statement around the serialisation has else/finally/several handlers")
        if not contains(tr.body, wrapped[0]):
            raise Unsupported("emit: Message(...) is built outside the try statement")
        hd = tr.handlers[0]
        if hd.type is None or ast.unparse(hd.type) != "Exception":
            raise Unsupported("emit: handler is not `except Exception:`")
        SC, PRINT = "self._error_interceptor.should_catch()", "self._error_interceptor.print(record)"
        henv = {}

        def hx(node):
            """source of an expression of the handler body with its single-assignment locals inlined"""
            return ast.unparse(ev.expr(node, henv))

        def on_error(stmts, sc, printed=False):
            """interpret the handler body for should_catch() == sc"""
            for st in stmts:
                if isinstance(st, ast.Assign) and len(st.targets) == 1 and isinstance(st.targets[0], ast.Name) \
                        and st.targets[0].id not in henv and hx(st.value) in (SC, "self._error_interceptor"):
                    henv[st.targets[0].id] = ev.expr(st.value, henv)     # alias of the interceptor / of its answer
                elif isinstance(st, ast.If):
                    t = hx(st.test)
                    if t == SC:
                        branch = st.body if sc else st.orelse
                    elif t in ("not " + SC, "not (%s)" % SC):
                        branch = st.orelse if sc else st.body
                    else:
                        raise Unsupported("emit: handler tests " + t)
                    r = on_error(branch, sc, printed)
                    if r in ("reraise", "report"):
                        return r
                    printed = printed or r == "printed"
                elif isinstance(st, ast.Raise) and st.cause is None and (
                        st.exc is None or (hd.name is not None and isinstance(st.exc, ast.Name) and st.exc.id == hd.name)):
                    return "reraise"
                elif isinstance(st, ast.Expr) and hx(st.value) == PRINT:
                    printed = True
                elif isinstance(st, ast.Return) and st.value is None:
                    if not printed:
                        raise Unsupported("emit: handler returns without reporting")
                    return "report"
                elif isinstance(st, ast.Pass):
                    pass
                else:
                    raise Unsupported("emit: handler statement " + ast.unparse(st)[:80])
            return "printed" if printed else "nothing"

        acts = {}
        for sc in (True, False):
            henv.clear()
            r = on_error(hd.body, sc)
            if r == "printed":
                r = "report"
            if r not in ("reraise", "report"):
                raise Unsupported("emit: handler neither re-raises nor reports when should_catch() is %r" % sc)
            acts[sc] = r
        body += "/-- `emit`: the `except Exception:` clause around formatting + serialisation + the sink write, as a\n"
        body += "    function of `self._error_interceptor.should_catch()` (the handler's `catch=` argument) -/\n"
        body += "def onError (shouldCatch : Bool) : ErrAction := if shouldCatch then .%s else .%s\n\n" % (acts[True], acts[False])
        body += "/-- `emit`: `if self._serialize: formatted = self._serialize_record(formatted, record)` is the last\n"
        body += "    assignment to `formatted` before `Message(formatted)` (checked on the AST) -/\n"
        body += "def serializeAfterFormatting : Bool := true\n\n"

        # ---- add(): default of colorize when serialize is set
        ltree, _ = parse_module("_logger.py")
        add = find_func(ltree, "add", cls="Logger")
        first_sink_test = None
        for idx, s in enumerate(add.body):
            if isinstance(s, ast.If) and ast.unparse(s.test).startswith("isinstance(sink"):
                first_sink_test = idx
                break
        if first_sink_test is None:
            raise Unsupported("add: sink dispatch not found")
        rule = None
        for s in add.body[:first_sink_test]:
            if assigns_to(s, "colorize"):
                if rule is not None:
                    raise Unsupported("add: colorize assigned more than once before the sink dispatch")
                if isinstance(s, ast.Assign) and isinstance(s.value, ast.IfExp) and ast.unparse(s.targets[0]) == "colorize" \
                        and ast.unparse(s.value.orelse) == "colorize":
                    # `colorize = False if <test> else colorize`  ==  `if <test>: colorize = False`
                    s = ast.If(test=s.value.test, body=[ast.Assign(targets=s.targets, value=s.value.body)], orelse=[])
                if not (isinstance(s, ast.If) and not s.orelse and len(s.body) == 1
                        and isinstance(s.body[0], ast.Assign) and ast.unparse(s.body[0].targets[0]) == "colorize"
                        and isinstance(s.body[0].value, ast.Constant) and isinstance(s.body[0].value.value, bool)):
                    raise Unsupported("add: colorize default statement has another shape: " + ast.unparse(s))
                t = s.test
                conj = [ast.unparse(v) for v in t.values] if isinstance(t, ast.BoolOp) and isinstance(t.op, ast.And) \
                    else [ast.unparse(t)]
                terms = []
                for c in conj:
                    if c == "colorize is None":
                        terms.append("colorize.isNone")
                    elif c == "serialize":
                        terms.append("serialize")
                    elif c == "not serialize":
                        terms.append("(!serialize)")
                    elif c == "colorize is not None":
                        terms.append("colorize.isSome")
                    else:
                        raise Unsupported("add: colorize default test: " + ast.unparse(t))
                rule = "if (%s) then some %s else colorize" % (
                    " && ".join(terms), "true" if s.body[0].value.value else "false")
        body += "/-- `Logger.add`: what becomes of `colorize` before the sink-type dispatch (which only\n"
        body += "    consults the sink when it is still `None`) -/\n"
        body += "def colorizeDefault (colorize : Option Bool) (serialize : Bool) : Option Bool :=\n  %s\n" % (
            rule or "colorize")
    except (Unsupported, SyntaxError, KeyError, AttributeError, IndexError) as e:
        errors.append("%s: %s" % (type(e).__name__, e))
    body += "\nend Json.Gen\n"
    return emit("Json", body, ["loguru/_handler.py", "loguru/_logger.py"], errors)
