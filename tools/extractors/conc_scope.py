"""Generated/ConcScope.lean: WHERE the shared state of the logger is written, relative to the locks (C02/C15).

The interleaving model `Conc/Model.lean` lets `handlers_count` and the registry change only in program counters that
hold the core lock, lets `complete()` visit the handlers only under the core lock, and lets `Handler.stop` /
`Handler.emit` / `Handler.tasks_to_complete` touch `_stopped` and the sink only under the handler's lock.  This module
reads the same facts off the AST:

* `unlockedCoreWrites`    – every store into an attribute of the Core made by a method of `Logger` other than `_log`
                            that is NOT lexically inside `with <core>.lock:` (nor inside a private helper whose every
                            call site is inside such a block);
* `logUnlockedWrites`     – the Core attributes `_log` (the lock-free reader) stores into: the two documented caches;
* `registryMutatedInPlace`– a published `handlers` dict is never mutated (copy-on-write);
* `lockedCoreWrites`      – which method writes which attribute under the lock (what the model's `add`/`remove` mirror);
* `complete…`, `tasks…`, `stop…`, `emit…`, `protectedLock…` – the lock shapes of `Logger.complete` and of `Handler`.

Insensitive to renamed locals, aliases of `self._core`, helper extraction (one level of `self._helper(...)`), and
`if/else` ↔ conditional expression.  Anything it cannot classify fails closed.
"""
import ast

from extract_lib import Unsupported, emit, find_class, find_func, lean_str, parse_module

MUTATORS = {"clear", "update", "pop", "popitem", "append", "extend", "insert", "remove", "sort", "setdefault", "add",
            "discard", "reverse", "__setitem__", "__delitem__"}


def _core_aliases(fn):
    """local names bound to the Core object (`core = self._core`) and the spellings of the Core itself"""
    self_name = fn.args.args[0].arg if fn.args.args else "self"
    names = {"%s._core" % self_name}
    for node in ast.walk(fn):
        if isinstance(node, ast.Assign) and len(node.targets) == 1 and isinstance(node.targets[0], ast.Name) and \
                ast.unparse(node.value) in names:
            names.add(node.targets[0].id)
    return self_name, names


def _core_attr(expr, cores):
    """`<core>.X` -> 'X' ; `<core>.X[...]` -> 'X[]' ; otherwise None"""
    if isinstance(expr, ast.Attribute) and ast.unparse(expr.value) in cores:
        return expr.attr
    if isinstance(expr, ast.Subscript) and isinstance(expr.value, ast.Attribute) and ast.unparse(expr.value.value) in cores:
        return expr.value.attr + "[]"
    return None


def _dict_aliases(fn, cores):
    """local names bound DIRECTLY (no copy) to a dict/list attribute of the Core: `enabled = core.enabled`"""
    out = {}
    for node in ast.walk(fn):
        if isinstance(node, ast.Assign) and len(node.targets) == 1 and isinstance(node.targets[0], ast.Name):
            a = _core_attr(node.value, cores)
            if a is not None and not a.endswith("[]"):
                out[node.targets[0].id] = a
    # a name that is ALSO assigned something else (e.g. a copy) is not a reliable alias of the shared object
    for node in ast.walk(fn):
        if isinstance(node, ast.Assign) and len(node.targets) == 1 and isinstance(node.targets[0], ast.Name) and \
                node.targets[0].id in out and _core_attr(node.value, cores) != out[node.targets[0].id]:
            out.pop(node.targets[0].id, None)
    return out


def _writes(fn):
    """[(node, attr)] for every store into shared Core state made by `fn`"""
    _, cores = _core_aliases(fn)
    alias = _dict_aliases(fn, cores)
    out = []

    def target(tg, node):
        if isinstance(tg, (ast.Tuple, ast.List)):
            for e in tg.elts:
                target(e, node)
            return
        a = _core_attr(tg, cores)
        if a is not None:
            out.append((node, a))
        elif isinstance(tg, ast.Subscript) and isinstance(tg.value, ast.Name) and tg.value.id in alias:
            out.append((node, alias[tg.value.id] + "[]"))

    for node in ast.walk(fn):
        if isinstance(node, ast.Assign):
            for tg in node.targets:
                target(tg, node)
        elif isinstance(node, (ast.AugAssign, ast.AnnAssign)):
            target(node.target, node)
        elif isinstance(node, ast.Delete):
            for tg in node.targets:
                target(tg, node)
        elif isinstance(node, ast.Call) and isinstance(node.func, ast.Attribute) and node.func.attr in MUTATORS:
            a = _core_attr(node.func.value, cores)
            if a is not None:
                out.append((node, a + "." + node.func.attr))
            elif isinstance(node.func.value, ast.Name) and node.func.value.id in alias:
                out.append((node, alias[node.func.value.id] + "." + node.func.attr))
    return out


def _lock_blocks(fn):
    _, cores = _core_aliases(fn)
    locks = {c + ".lock" for c in cores}
    return [w for w in ast.walk(fn) if isinstance(w, ast.With) and
            any(ast.unparse(it.context_expr) in locks for it in w.items)]


def _inside(node, blocks):
    return any(node is n for w in blocks for st in w.body for n in ast.walk(st))


def logger_scope(tree):
    cls = find_class(tree, "Logger")
    methods = {f.name: f for f in cls.body if isinstance(f, (ast.FunctionDef, ast.AsyncFunctionDef))}
    if "_log" not in methods:
        raise Unsupported("Logger._log not found")
    # helpers only ever called from inside a core-lock block count as locked (one level, iterated to a fixpoint)
    locked_helpers = set()
    changed = True
    while changed:
        changed = False
        for name in methods:
            if name in locked_helpers or not name.startswith("_") or name.startswith("__") or name == "_log":
                continue
            sites = []
            for caller in methods.values():
                self_name = caller.args.args[0].arg if caller.args.args else "self"
                blocks = _lock_blocks(caller)
                for c in ast.walk(caller):
                    if isinstance(c, ast.Call) and ast.unparse(c.func) == "%s.%s" % (self_name, name):
                        sites.append(_inside(c, blocks) or caller.name in locked_helpers)
            if sites and all(sites):
                locked_helpers.add(name)
                changed = True
    unlocked, locked = [], []
    for name, fn in sorted(methods.items()):
        if name == "_log" or name in ("__init__", "__getstate__", "__setstate__", "reinstall"):
            continue
        blocks = _lock_blocks(fn)
        for node, attr in _writes(fn):
            if _inside(node, blocks) or name in locked_helpers:
                locked.append((name, attr))
            else:
                unlocked.append((name, attr))
    log_writes = sorted({attr for _, attr in _writes(methods["_log"])})
    inplace = any(attr.startswith("handlers[]") or attr.startswith("handlers.") for _, attr in
                  unlocked + locked + [("_log", a) for a in log_writes])
    # a dict taken from the Core and mutated through a local name that is NOT a fresh copy would also be in-place:
    # `_dict_aliases` maps such names back to the attribute, so it is covered by the test above.
    out = "/-- stores into shared Core state by a Logger method (other than `_log`) outside `with <core>.lock` -/\n"
    out += "def unlockedCoreWrites : List (String × String) := [%s]\n\n" % ", ".join(
        "(%s, %s)" % (lean_str(a), lean_str(b)) for a, b in sorted(set(unlocked)))
    out += "/-- Core attributes the lock-free reader `_log` stores into (its two caches) -/\n"
    out += "def logUnlockedWrites : List String := [%s]\n\n" % ", ".join(lean_str(a) for a in log_writes)
    out += "/-- a published `handlers` dict is mutated in place somewhere (copy-on-write broken) -/\n"
    out += "def registryMutatedInPlace : Bool := %s\n\n" % ("true" if inplace else "false")
    out += "/-- (method, attribute) of every store into shared Core state made under the core lock -/\n"
    out += "def lockedCoreWrites : List (String × String) := [%s]\n\n" % ", ".join(
        "(%s, %s)" % (lean_str(a), lean_str(b)) for a, b in sorted(set(locked)))
    return out


def complete_shape(tree):
    fn = find_func(tree, "complete", cls="Logger")
    blocks = _lock_blocks(fn)
    if len(blocks) != 1:
        raise Unsupported("Logger.complete: expected exactly one core-lock block, found %d" % len(blocks))
    _, cores = _core_aliases(fn)
    body = blocks[0].body
    # the registry is read (copied or iterated) inside the block, and nowhere else in the function
    reads = [n for n in ast.walk(fn) if isinstance(n, ast.Attribute) and n.attr == "handlers" and
             ast.unparse(n.value) in cores]
    reads_in = [n for n in reads if _inside(n, blocks)]
    calls = [c for c in ast.walk(fn) if isinstance(c, ast.Call) and isinstance(c.func, ast.Attribute) and
             c.func.attr in ("complete_queue", "tasks_to_complete")]
    kinds = sorted({c.func.attr for c in calls})
    out = "/-- `complete()` reads the registry exactly once, under the core lock -/\n"
    out += "def completeReadsRegistryUnderLock : Bool := %s\n" % (
        "true" if len(reads) == 1 and len(reads_in) == 1 else "false")
    out += "/-- every `handler.complete_queue()` / `handler.tasks_to_complete()` call of `complete()` is under the core lock -/\n"
    out += "def completeVisitsUnderLock : Bool := %s\n" % (
        "true" if kinds == ["complete_queue", "tasks_to_complete"] and all(_inside(c, blocks) for c in calls) else "false")
    # nothing is awaited / no task is run while the lock is held: the awaitable is built after the block
    awaits = [n for n in ast.walk(blocks[0]) if isinstance(n, (ast.Await, ast.Yield, ast.YieldFrom))]
    out += "def completeAwaitsNothingUnderLock : Bool := %s\n\n" % ("true" if not awaits and body else "false")
    return out


def handler_shape(htree):
    out = ""
    # ---- _protected_lock: marker tested, set, `with self._lock: yield` inside try, marker reset in finally
    pl = find_func(htree, "_protected_lock", cls="Handler")
    tries = [n for n in pl.body if isinstance(n, ast.Try)]
    ok = False
    if len(tries) == 1 and tries[0].finalbody and not tries[0].handlers:
        t = tries[0]
        withs = [w for w in ast.walk(t) if isinstance(w, ast.With) and
                 [ast.unparse(i.context_expr) for i in w.items] == ["self._lock"]]
        yields_in = [y for w in withs for y in ast.walk(w) if isinstance(y, ast.Yield)]
        all_yields = [y for y in ast.walk(pl) if isinstance(y, ast.Yield)]
        fin = [ast.unparse(s) for s in t.finalbody]
        before = [ast.unparse(s) for s in pl.body[:pl.body.index(t)] if not (isinstance(s, ast.Expr) and
                                                                           isinstance(s.value, ast.Constant))]
        sets = [s for s in before if s.replace(" ", "") == "self._lock_acquired.acquired=True"]
        raises = [n for n in ast.walk(pl) if isinstance(n, ast.Raise)]
        ok = (len(withs) == 1 and len(all_yields) == 1 and len(yields_in) == 1 and
              [f.replace(" ", "") for f in fin] == ["self._lock_acquired.acquired=False"] and len(sets) == 1 and
              len(raises) == 1 and not _under(raises[0], t))
    out += "/-- `_protected_lock`: re-entry raises before anything is taken; the marker is set, the lock is held exactly\n"
    out += "around the `yield`, and the marker is reset in a `finally` -/\n"
    out += "def protectedLockShape : Bool := %s\n" % ("true" if ok else "false")

    # ---- the re-entrancy guard is PER-THREAD state: a `threading.local()` created wherever the handler lock is
    # created (constructor and unpickling), touched only through attribute access (a fork copies ordinary memory:
    # a guard kept in a set/dict keyed by thread identity would survive in the child and be attributed to whatever
    # new thread receives the recycled identity)
    cls = find_class(htree, "Handler")
    guard_assigns = [n for n in ast.walk(cls) if isinstance(n, ast.Assign) and len(n.targets) == 1 and
                     ast.unparse(n.targets[0]) == "self._lock_acquired"]
    local_ctor = all(isinstance(n.value, ast.Call) and ast.unparse(n.value.func) in ("threading.local", "local") and
                     not n.value.args and not n.value.keywords for n in guard_assigns)
    makers = {f.name for f in cls.body if isinstance(f, ast.FunctionDef) and
              any(isinstance(n, ast.Assign) and ast.unparse(n.targets[0]) == "self._lock" for n in ast.walk(f))}
    guard_makers = {f.name for f in cls.body if isinstance(f, ast.FunctionDef) and any(n in guard_assigns for n in ast.walk(f))}
    uses = [n for n in ast.walk(pl) if isinstance(n, ast.Attribute) and ast.unparse(n) == "self._lock_acquired"]
    parents = {}
    for n in ast.walk(pl):
        for c in ast.iter_child_nodes(n):
            parents[c] = n
    attr_only = bool(uses) and all(
        (isinstance(parents.get(u), ast.Attribute)) or
        (isinstance(parents.get(u), ast.Call) and ast.unparse(parents[u].func) in ("getattr", "setattr", "hasattr")
         and parents[u].args and parents[u].args[0] is u) for u in uses)
    # nothing else in `_protected_lock` keeps per-thread bookkeeping (no identity function is consulted)
    idents = [n for n in ast.walk(pl) if isinstance(n, ast.Call) and ast.unparse(n.func).split(".")[-1] in
              ("get_ident", "current_thread", "get_native_id")]
    ok = bool(guard_assigns) and local_ctor and makers <= guard_makers and attr_only and not idents
    out += "/-- the re-entrancy guard of `_protected_lock` is a `threading.local()` (created with every handler lock, used\n"
    out += "only through attribute access, no thread identity consulted): it cannot survive a fork in another thread's name -/\n"
    out += "def guardIsThreadLocal : Bool := %s\n" % ("true" if ok else "false")

    def protected_blocks(fn):
        return [w for w in ast.walk(fn) if isinstance(w, ast.With) and
                any(ast.unparse(i.context_expr) == "self._protected_lock()" for i in w.items)]

    # ---- stop(): the whole body is one `with self._protected_lock():` whose first statement sets _stopped
    st = find_func(htree, "stop", cls="Handler")
    body = [s for s in st.body if not (isinstance(s, ast.Expr) and isinstance(s.value, ast.Constant))]
    ok = (len(body) == 1 and body[0] in protected_blocks(st) and
          ast.unparse(body[0].body[0]).replace(" ", "") == "self._stopped=True")
    sink_stops = [c for c in ast.walk(st) if isinstance(c, ast.Call) and ast.unparse(c.func) == "self._sink.stop"]
    ok = ok and len(sink_stops) == 1 and _inside(sink_stops[0], protected_blocks(st))
    out += "/-- `Handler.stop` is one `with self._protected_lock():` block: `_stopped = True` first, `sink.stop()` inside -/\n"
    out += "def stopUnderHandlerLock : Bool := %s\n" % ("true" if ok else "false")
    # ---- emit(): every sink write / queue put is inside the protected block, after the `_stopped` test
    em = find_func(htree, "emit", cls="Handler")
    pbs = protected_blocks(em)
    outs = [c for c in ast.walk(em) if isinstance(c, ast.Call) and ast.unparse(c.func) in
            ("self._sink.write", "self._queue.put")]
    ok = len(pbs) == 1 and bool(outs) and all(_inside(c, pbs) for c in outs)
    if ok:
        first = pbs[0].body[0]
        ok = (isinstance(first, ast.If) and ast.unparse(first.test) == "self._stopped" and
              len(first.body) == 1 and isinstance(first.body[0], ast.Return) and not first.orelse)
    stopped_reads = [n for n in ast.walk(em) if isinstance(n, ast.Attribute) and n.attr == "_stopped"]
    ok = ok and all(_inside(n, pbs) for n in stopped_reads)
    out += "/-- `Handler.emit`: `_stopped` is tested first thing under the handler lock and the write happens under it -/\n"
    out += "def emitWritesUnderHandlerLock : Bool := %s\n" % ("true" if ok else "false")
    # ---- tasks_to_complete(): the sink is asked under a lock: the handler's protected lock, or the queue lock
    tc = find_func(htree, "tasks_to_complete", cls="Handler")
    calls = [c for c in ast.walk(tc) if isinstance(c, ast.Call) and ast.unparse(c.func) == "self._sink.tasks_to_complete"]
    withs = [w for w in ast.walk(tc) if isinstance(w, ast.With)]
    ok = len(calls) == 1 and len(withs) == 1 and _inside(calls[0], withs)
    if ok:
        ctx = ast.unparse(withs[0].items[0].context_expr)
        srcs = {ctx}
        for n in ast.walk(tc):
            if isinstance(n, ast.Assign) and len(n.targets) == 1 and ast.unparse(n.targets[0]) == ctx:
                v = n.value
                if isinstance(v, ast.IfExp):
                    srcs = {ast.unparse(v.body), ast.unparse(v.orelse)}
                else:
                    srcs.add(ast.unparse(v))
        for n in ast.walk(tc):
            if isinstance(n, ast.If):
                for s in n.body + n.orelse:
                    if isinstance(s, ast.Assign) and ast.unparse(s.targets[0]) == ctx:
                        srcs.add(ast.unparse(s.value))
        srcs.discard(ctx) if len(srcs) > 1 else None
        ok = srcs <= {"self._queue_lock", "self._protected_lock()"} and "self._protected_lock()" in srcs
    out += "/-- `Handler.tasks_to_complete` asks the sink under the handler's protected lock (queue lock when enqueued) -/\n"
    out += "def tasksUnderHandlerLock : Bool := %s\n\n" % ("true" if ok else "false")
    return out


def _under(node, root):
    return any(node is n for n in ast.walk(root))


def generate():
    errors = []
    body = "namespace Conc.ScopeGen\n\n"
    try:
        tree, _ = parse_module("_logger.py")
        htree, _ = parse_module("_handler.py")
        body += logger_scope(tree)
        body += complete_shape(tree)
        body += handler_shape(htree)
    except (Unsupported, SyntaxError, KeyError, AttributeError, IndexError, ValueError) as e:
        errors.append("%s: %s" % (type(e).__name__, e))
    body += "end Conc.ScopeGen\n"
    return emit("ConcScope", body, ["loguru/_logger.py", "loguru/_handler.py"], errors)
